import ast, sys, pathlib
root = pathlib.Path('/repo/pyglove')
for p in sorted(root.rglob('*.py')):
    if p.name.endswith('_test.py'): continue
    t = ast.parse(p.read_text())
    for cls in [n for n in ast.walk(t) if isinstance(n, ast.ClassDef)]:
        meths = {m.name: m for m in cls.body if isinstance(m, ast.FunctionDef)}
        if 'to_json' not in meths: continue
        tj = meths['to_json']
        keys = None; excl=False
        for c in ast.walk(tj):
            if isinstance(c, ast.Call) and isinstance(c.func, ast.Attribute) and c.func.attr == 'to_json_dict':
                for kw in c.keywords:
                    if kw.arg == 'fields' and isinstance(kw.value, ast.Call):
                        keys = [(k.arg, ast.unparse(k.value)) for k in kw.value.keywords]
                    if kw.arg == 'exclude_default': excl = True
                if c.args and isinstance(c.args[0], ast.Dict):
                    keys = [(ast.literal_eval(k), ast.unparse(v)) for k,v in zip(c.args[0].keys, c.args[0].values)]
        init = meths.get('__init__')
        params = None
        if init:
            a = init.args
            names = [x.arg for x in a.args[1:]] + [x.arg for x in a.kwonlyargs]
            nd = len(a.args[1:]) - len(a.defaults)
            defaults = {}
            for i, x in enumerate(a.args[1:]):
                if i >= nd: defaults[x.arg] = ast.unparse(a.defaults[i-nd])
            for x, d in zip(a.kwonlyargs, a.kw_defaults):
                if d is not None: defaults[x.arg] = ast.unparse(d)
            params = (names, defaults, bool(a.kwarg))
        print(p.relative_to(root), cls.name, 'from_json' in meths, excl)
        print('   keys', keys)
        print('   init', params)
