import ast, pathlib
LM = {'__setitem__','__delitem__','__iadd__','__imul__','append','extend','insert','pop','remove','clear','sort','reverse'}
DM = {'__setitem__','__delitem__','__ior__','update','setdefault','pop','popitem','clear'}
for fn, cls, M in [('list.py','List',LM),('dict.py','Dict',DM)]:
    t = ast.parse(pathlib.Path('/repo/pyglove/core/symbolic/'+fn).read_text())
    c = [n for n in t.body if isinstance(n, ast.ClassDef) and n.name==cls][0]
    defined = {m.name for m in c.body if isinstance(m, ast.FunctionDef)}
    print(cls, 'missing overrides:', sorted(M - defined))
    for m in c.body:
        if not isinstance(m, ast.FunctionDef): continue
        for call in ast.walk(m):
            if isinstance(call, ast.Call) and isinstance(call.func, ast.Attribute) and call.func.attr in M|{'__init__'}:
                recv = ast.unparse(call.func.value)
                if recv in ('list','dict','super()'):
                    print(f'  raw {cls}.{m.name}: {recv}.{call.func.attr}  line {call.lineno}')
