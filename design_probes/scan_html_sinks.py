import ast, pathlib
root = pathlib.Path('/repo/pyglove/core/views/html')
def is_html_call(n):
    # calls that obviously return Html
    if isinstance(n, ast.Call):
        f = ast.unparse(n.func)
        return f
    return None
for p in sorted(root.rglob('*.py')):
    if p.name.endswith('_test.py'): continue
    t = ast.parse(p.read_text())
    for fn in [n for n in ast.walk(t) if isinstance(n, (ast.FunctionDef,))]:
        for c in ast.walk(fn):
            if isinstance(c, ast.Call):
                f = ast.unparse(c.func)
                if f.endswith('Html.element') or f.endswith('.element'):
                    inner = None
                    if len(c.args) >= 2: inner = c.args[1]
                    for kw in c.keywords:
                        if kw.arg == 'inner_html': inner = kw.value
                    items = []
                    if isinstance(inner, ast.List):
                        for e in inner.elts:
                            if isinstance(e, ast.Constant): continue
                            items.append(ast.unparse(e)[:70].replace('\n',' '))
                    elif inner is not None:
                        items.append('NONLIST:' + ast.unparse(inner)[:60])
                    attrs = [(kw.arg, ast.unparse(kw.value)[:50].replace('\n',' ')) for kw in c.keywords if kw.arg not in ('inner_html','css_classes','styles','options')]
                    if items or attrs:
                        print(f'{p.relative_to(root)}:{c.lineno} {fn.name}: inner={items} attrs={attrs}')
