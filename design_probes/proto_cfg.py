"""Throwaway prototype: statement-level CFG with short-circuit desugaring,
finally duplication and exceptional edges; reachability-based path queries.
(Design de-risking only; not framework code.)"""
import ast, collections, pathlib, sys

class Node:
    __slots__ = ('id', 'kind', 'ast', 'succ', 'withs')
    def __init__(self, id, kind, node, withs):
        self.id, self.kind, self.ast, self.succ, self.withs = id, kind, node, [], tuple(withs)
    def __repr__(self):
        src = ast.unparse(self.ast).split('\n')[0][:60] if self.ast is not None else ''
        ln = getattr(self.ast, 'lineno', '')
        return f'<{self.id}:{self.kind}:{ln}:{src}>'

class CFG:
    def __init__(self, fn):
        self.fn = fn
        self.nodes = []
        self.entry = self.new('entry', None)
        self.exit = self.new('exit', None)        # normal return
        self.raise_exit = self.new('raise', None) # exceptional exit
        self.withs = []
        # context stacks
        self.handlers = [self.raise_exit]   # where an exception goes
        self.finallies = []                 # list of finally bodies (ast lists) enclosing
        self.loops = []                     # (continue_target, break_target, finally_depth)
        tails = self.block(fn.body, [(self.entry, 'next')])
        self.connect(tails, self.exit)

    def new(self, kind, node):
        n = Node(len(self.nodes), kind, node, getattr(self, 'withs', []))
        self.nodes.append(n)
        return n

    def connect(self, tails, target):
        for n, lab in tails:
            n.succ.append((target, lab))

    def may_raise(self, node):
        for x in ast.walk(node):
            if isinstance(x, (ast.Call, ast.Subscript, ast.Raise, ast.Yield, ast.YieldFrom, ast.Await)):
                return True
        return False

    # --- conditions with short-circuit
    def cond(self, expr, tails):
        """returns (true_tails, false_tails)"""
        if isinstance(expr, ast.BoolOp):
            if isinstance(expr.op, ast.And):
                cur = tails; falses = []
                for v in expr.values:
                    t, f = self.cond(v, cur)
                    falses += f; cur = t
                return cur, falses
            else:
                cur = tails; trues = []
                for v in expr.values:
                    t, f = self.cond(v, cur)
                    trues += t; cur = f
                return trues, cur
        if isinstance(expr, ast.UnaryOp) and isinstance(expr.op, ast.Not):
            t, f = self.cond(expr.operand, tails)
            return f, t
        n = self.new('test', expr)
        self.connect(tails, n)
        if self.may_raise(expr):
            n.succ.append((self.handlers[-1], 'exc'))
        return [(n, 'true')], [(n, 'false')]

    def run_finallies(self, tails, down_to):
        """inline-duplicate enclosing finally bodies (innermost first) down to depth."""
        for body in reversed(self.finallies[down_to:]):
            saved_f, saved_h = self.finallies, self.handlers
            # while running a finally body, it is no longer enclosing itself
            idx = self.finallies.index(body)
            self.finallies = self.finallies[:idx]
            tails = self.block(body, tails)
            self.finallies, self.handlers = saved_f, saved_h
        return tails

    def block(self, stmts, tails):
        for s in stmts:
            tails = self.stmt(s, tails)
        return tails

    def stmt(self, s, tails):
        if isinstance(s, ast.If):
            t, f = self.cond(s.test, tails)
            t = self.block(s.body, t)
            f = self.block(s.orelse, f)
            return t + f
        if isinstance(s, ast.While):
            head = self.new('loophead', s)
            self.connect(tails, head)
            t, f = self.cond(s.test, [(head, 'next')])
            brk = []
            self.loops.append((head, brk, len(self.finallies)))
            body_t = self.block(s.body, t)
            self.loops.pop()
            self.connect(body_t, head)
            f = self.block(s.orelse, f)
            return f + brk
        if isinstance(s, (ast.For, ast.AsyncFor)):
            it = self.new('iter', s)
            self.connect(tails, it)
            if self.may_raise(s.iter):
                it.succ.append((self.handlers[-1], 'exc'))
            brk = []
            self.loops.append((it, brk, len(self.finallies)))
            body_t = self.block(s.body, [(it, 'true')])
            self.loops.pop()
            self.connect(body_t, it)
            f = self.block(s.orelse, [(it, 'false')])
            return f + brk
        if isinstance(s, (ast.With, ast.AsyncWith)):
            n = self.new('with', s)
            self.connect(tails, n)
            n.succ.append((self.handlers[-1], 'exc'))
            self.withs.append(s)
            t = self.block(s.body, [(n, 'next')])
            self.withs.pop()
            return t
        if isinstance(s, ast.Try):
            return self.try_(s, tails)
        if isinstance(s, ast.Return):
            n = self.new('return', s)
            self.connect(tails, n)
            if s.value is not None and self.may_raise(s.value):
                n.succ.append((self.handlers[-1], 'exc'))
            t = self.run_finallies([(n, 'next')], 0)
            self.connect(t, self.exit)
            return []
        if isinstance(s, ast.Raise):
            n = self.new('raisestmt', s)
            self.connect(tails, n)
            n.succ.append((self.handlers[-1], 'exc'))
            return []
        if isinstance(s, ast.Break):
            n = self.new('break', s); self.connect(tails, n)
            head, brk, depth = self.loops[-1]
            brk.extend(self.run_finallies([(n, 'next')], depth))
            return []
        if isinstance(s, ast.Continue):
            n = self.new('continue', s); self.connect(tails, n)
            head, brk, depth = self.loops[-1]
            self.connect(self.run_finallies([(n, 'next')], depth), head)
            return []
        if isinstance(s, (ast.FunctionDef, ast.AsyncFunctionDef, ast.ClassDef)):
            n = self.new('def', s); self.connect(tails, n)
            return [(n, 'next')]
        # simple statement
        kind = 'stmt'
        if isinstance(s, ast.Expr) and isinstance(s.value, (ast.Yield, ast.YieldFrom)):
            kind = 'yield'
        elif any(isinstance(x, (ast.Yield, ast.YieldFrom)) for x in ast.walk(s)):
            kind = 'yield'
        n = self.new(kind, s)
        self.connect(tails, n)
        if self.may_raise(s):
            n.succ.append((self.handlers[-1], 'exc'))
        return [(n, 'next')]

    def try_(self, s, tails):
        after = []
        has_finally = bool(s.finalbody)
        # exceptional landing pad
        pad = self.new('handlerpad', s)
        if has_finally:
            self.finallies.append(s.finalbody)
        self.handlers.append(pad)
        body_t = self.block(s.body, tails)
        self.handlers.pop()
        body_t = self.block(s.orelse, body_t)   # else runs outside the handlers (approx: still inside finally)
        # handlers
        unhandled = [(pad, 'exc')]
        for h in s.handlers:
            hn = self.new('except', h)
            pad.succ.append((hn, 'next'))
            ht = self.block(h.body, [(hn, 'next')])
            body_t += ht
            if h.type is None or (isinstance(h.type, ast.Name) and h.type.id == 'BaseException'):
                unhandled = []
        if has_finally:
            self.finallies.pop()
            # normal completion
            after = self.block(s.finalbody, body_t)
            # exceptional completion: run finally then propagate
            if unhandled:
                ft = self.block(s.finalbody, unhandled)
                self.connect(ft, self.handlers[-1])
        else:
            after = body_t
            self.connect(unhandled, self.handlers[-1])
        return after

    # ---- queries
    def reach(self, start, blocked_nodes=(), blocked_edges=()):
        seen = {start.id}; q = [start]; parent = {}
        while q:
            n = q.pop()
            for m, lab in n.succ:
                if m.id in blocked_nodes or (n.id, m.id, lab) in blocked_edges or m.id in seen:
                    continue
                seen.add(m.id); parent[m.id] = n.id; q.append(m)
        return seen, parent

    def witness(self, parent, target):
        p = [target.id]
        while p[-1] in parent:
            p.append(parent[p[-1]])
        return [self.nodes[i] for i in reversed(p)]

def find_fn(path, qual):
    t = ast.parse(pathlib.Path(path).read_text())
    parts = qual.split('.')
    body = t.body
    node = None
    for p in parts:
        node = [n for n in body if isinstance(n, (ast.ClassDef, ast.FunctionDef)) and n.name == p][0]
        body = node.body
    return node

def has_call(node, pred):
    return any(isinstance(x, ast.Call) and pred(ast.unparse(x.func)) for x in ast.walk(node)) if node is not None else False

if __name__ == '__main__':
    R = '/repo/pyglove/core/'
    # 1. seal guard dominance on every public mutator of List with raw writes / primitive calls
    for q in ['List.append', 'List.extend', 'List.insert', 'List.clear', 'List.sort', 'List.reverse', 'List.__setitem__', 'List.__delitem__']:
        fn = find_fn(R + 'symbolic/list.py', q); g = CFG(fn)
        # guard-false edges: tests calling treats_as_sealed whose true branch only raises
        blocked = set()
        for n in g.nodes:
            if n.kind == 'test' and has_call(n.ast, lambda f: f.endswith('treats_as_sealed')):
                for m, lab in n.succ:
                    if lab == 'false':
                        blocked.add((n.id, m.id, lab))
        writes = [n for n in g.nodes if n.kind in ('stmt', 'return', 'test', 'iter') and has_call(n.ast, lambda f: f in ('super().append', 'super().clear', 'super().sort', 'super().reverse', 'super().__delitem__') or f.endswith('_set_item_without_permission_check'))]
        seen, parent = g.reach(g.entry, blocked_edges=blocked)
        bad = [w for w in writes if w.id in seen]
        print(q, 'nodes', len(g.nodes), 'writes', len(writes), 'UNGUARDED' if bad else 'guarded', [g.witness(parent, b) for b in bad][:1])
    # 2. restore-in-finally covers yield
    for path, q in [(R + 'utils/thread_local.py', 'thread_local_value_scope'), (R + 'utils/thread_local.py', 'thread_local_arg_scope'),
                    (R + 'coding/permissions.py', 'permission'), (R + 'detouring/class_detour.py', 'detour'), (R + 'symbolic/functor.py', 'Functor._apply_call_time_overrides_to_members')]:
        fn = find_fn(path, q); g = CFG(fn)
        ys = [n for n in g.nodes if n.kind == 'yield']
        restore = lambda f: any(k in f for k in ('thread_local_set', 'thread_local_del', 'thread_local_pop', 'leave_scope', 'delattr', 'setattr'))
        rnodes = {n.id for n in g.nodes if n.kind in ('stmt',) and has_call(n.ast, restore) and n.id > ys[0].id}
        out = []
        for y in ys:
            for target in (g.exit, g.raise_exit):
                seen, parent = g.reach(y, blocked_nodes=rnodes)
                out.append((target.kind, target.id in seen))
        print(q, 'yield->exit without restore reachable:', out)
    # 3. MemoryFileSystem.open: path with 'w' in mode true reaching return without buffer creation
    fn = find_fn(R + 'io/file_system.py', 'MemoryFileSystem.open'); g = CFG(fn)
    wtests = [n for n in g.nodes if n.kind == 'test' and "'w' in mode" in ast.unparse(n.ast)]
    create = {n.id for n in g.nodes if n.kind == 'stmt' and ('BytesIO' in ast.unparse(n.ast) or 'MemoryFile(' in ast.unparse(n.ast) or 'truncate' in ast.unparse(n.ast))}
    for w in wtests:
        tsucc = [m for m, lab in w.succ if lab == 'true']
        for m in tsucc:
            seen, parent = g.reach(m, blocked_nodes=create)
            rets = [n for n in g.nodes if n.kind == 'return' and n.id in seen]
            print('open: w-true path reaches return without fresh buffer:', bool(rets), g.witness(parent, rets[0]) if rets else '')
    # 4. Dict primitive: detach before formalize?
    fn = find_fn(R + 'symbolic/dict.py', 'Dict._set_item_without_permission_check'); g = CFG(fn)
    form = {n.id for n in g.nodes if has_call(n.ast, lambda f: f.endswith('_formalized_value'))}
    det = [n for n in g.nodes if n.kind == 'stmt' and has_call(n.ast, lambda f: f.endswith('sym_setparent') or f.endswith('sym_setpath'))]
    seen, parent = g.reach(g.entry, blocked_nodes=form)
    print('Dict primitive: detach reachable before formalize:', [d for d in det if d.id in seen])
    fn = find_fn(R + 'symbolic/list.py', 'List._set_item_without_permission_check'); g = CFG(fn)
    form = {n.id for n in g.nodes if has_call(n.ast, lambda f: f.endswith('_formalized_value'))}
    det = [n for n in g.nodes if n.kind == 'stmt' and has_call(n.ast, lambda f: f.endswith('sym_setparent') or f.endswith('sym_setpath'))]
    seen, parent = g.reach(g.entry, blocked_nodes=form)
    print('List primitive: detach reachable before formalize:', [d for d in det if d.id in seen])
