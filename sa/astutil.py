"""Small AST helpers shared by every rule."""
from __future__ import annotations

import ast
from typing import Callable, Iterable, Iterator, List, Optional, Sequence, Tuple

FuncDef = (ast.FunctionDef, ast.AsyncFunctionDef)
Scope = (ast.FunctionDef, ast.AsyncFunctionDef, ast.ClassDef, ast.Lambda)


def dotted(node: ast.AST) -> Optional[str]:
  """`a.b.c` -> 'a.b.c'; `super().m` -> 'super().m'; else None."""
  parts = []
  while True:
    if isinstance(node, ast.Attribute):
      parts.append(node.attr)
      node = node.value
    elif isinstance(node, ast.Name):
      parts.append(node.id)
      break
    elif (isinstance(node, ast.Call) and isinstance(node.func, ast.Name)
          and node.func.id == 'super' and not node.args):
      parts.append('super()')
      break
    else:
      return None
  return '.'.join(reversed(parts))


def call_name(call: ast.Call) -> Optional[str]:
  return dotted(call.func)


def walk_local(node: ast.AST, include_root: bool = True) -> Iterator[ast.AST]:
  """ast.walk that does not descend into nested function/class/lambda scopes.

  The root itself is always expanded, even when it is a scope node.
  """
  stack = [node]
  first = True
  while stack:
    n = stack.pop()
    if not first and isinstance(n, Scope):
      # nested scope: yield the def node itself (so callers can see it) but do
      # not descend.
      yield n
      continue
    if first:
      first = False
      if include_root:
        yield n
    else:
      yield n
    stack.extend(reversed(list(ast.iter_child_nodes(n))))


def walk_stmt_exprs(stmt: ast.AST) -> Iterator[ast.AST]:
  """Walk the expressions evaluated by a *simple* statement or a test expr."""
  return walk_local(stmt)


def calls_in(node: ast.AST, local: bool = True) -> Iterator[ast.Call]:
  it = walk_local(node) if local else ast.walk(node)
  for n in it:
    if isinstance(n, ast.Call):
      yield n


def has_call(node: Optional[ast.AST], pred: Callable[[str], bool],
             local: bool = True) -> bool:
  if node is None:
    return False
  for c in calls_in(node, local):
    n = call_name(c)
    if n is not None and pred(n):
      return True
  return False


def find_calls(node: ast.AST, pred: Callable[[str], bool],
               local: bool = True) -> List[ast.Call]:
  out = []
  for c in calls_in(node, local):
    n = call_name(c)
    if n is not None and pred(n):
      out.append(c)
  return out


def names_read(node: ast.AST) -> set:
  return {n.id for n in walk_local(node)
          if isinstance(n, ast.Name) and isinstance(n.ctx, ast.Load)}


def names_in(node: ast.AST) -> set:
  return {n.id for n in ast.walk(node) if isinstance(n, ast.Name)}


def attr_reads(node: ast.AST, base: str = 'self') -> set:
  """Attributes read as `<base>.x` anywhere in node (Load or Store)."""
  out = set()
  for n in ast.walk(node):
    if (isinstance(n, ast.Attribute) and isinstance(n.value, ast.Name)
        and n.value.id == base):
      out.add(n.attr)
  return out


def attr_chain_reads(node: ast.AST) -> set:
  """All dotted attribute chains (as strings) that occur in node."""
  out = set()
  for n in ast.walk(node):
    if isinstance(n, ast.Attribute):
      d = dotted(n)
      if d:
        out.add(d)
  return out


def assigned_names(target: ast.AST) -> List[str]:
  out = []
  for n in ast.walk(target):
    if isinstance(n, ast.Name) and isinstance(n.ctx, (ast.Store, ast.Del)):
      out.append(n.id)
  return out


def stmt_targets(stmt: ast.stmt) -> List[ast.AST]:
  if isinstance(stmt, ast.Assign):
    return list(stmt.targets)
  if isinstance(stmt, (ast.AugAssign, ast.AnnAssign)):
    return [stmt.target]
  if isinstance(stmt, (ast.For, ast.AsyncFor)):
    return [stmt.target]
  if isinstance(stmt, (ast.With, ast.AsyncWith)):
    return [i.optional_vars for i in stmt.items if i.optional_vars is not None]
  return []


def const_str(node: ast.AST) -> Optional[str]:
  if isinstance(node, ast.Constant) and isinstance(node.value, str):
    return node.value
  return None


def str_constants(node: ast.AST) -> List[str]:
  return [n.value for n in ast.walk(node)
          if isinstance(n, ast.Constant) and isinstance(n.value, str)]


def kwarg(call: ast.Call, name: str) -> Optional[ast.AST]:
  for k in call.keywords:
    if k.arg == name:
      return k.value
  return None


def is_raise_only(body: Sequence[ast.stmt]) -> bool:
  """True when a block always ends in `raise` (on every path through it)."""
  if not body:
    return False
  last = body[-1]
  if isinstance(last, ast.Raise):
    return True
  if isinstance(last, ast.If):
    return bool(last.orelse) and is_raise_only(last.body) and is_raise_only(
        last.orelse)
  return False


def unparse(node: Optional[ast.AST], limit: int = 100) -> str:
  if node is None:
    return ''
  try:
    s = ast.unparse(node)
  except Exception:  # pylint: disable=broad-except
    s = '<%s>' % type(node).__name__
  s = ' '.join(s.split())
  return s if len(s) <= limit else s[:limit - 3] + '...'


def decorator_names(fn: ast.AST) -> List[str]:
  out = []
  for d in getattr(fn, 'decorator_list', []):
    if isinstance(d, ast.Call):
      d = d.func
    n = dotted(d)
    if n:
      out.append(n)
  return out


def param_names(fn: ast.FunctionDef) -> List[str]:
  a = fn.args
  out = [x.arg for x in a.posonlyargs + a.args]
  if a.vararg:
    out.append(a.vararg.arg)
  out += [x.arg for x in a.kwonlyargs]
  if a.kwarg:
    out.append(a.kwarg.arg)
  return out


def params_with_defaults(fn: ast.FunctionDef):
  """Returns {param: default_node or None}."""
  a = fn.args
  pos = a.posonlyargs + a.args
  out = {}
  nd = len(a.defaults)
  for i, p in enumerate(pos):
    j = i - (len(pos) - nd)
    out[p.arg] = a.defaults[j] if j >= 0 else None
  for p, d in zip(a.kwonlyargs, a.kw_defaults):
    out[p.arg] = d
  return out


def compare_parts(node: ast.AST) -> List[Tuple[ast.AST, ast.cmpop, ast.AST]]:
  """Split a (possibly chained) Compare into (left, op, right) triples."""
  out = []
  if isinstance(node, ast.Compare):
    left = node.left
    for op, right in zip(node.ops, node.comparators):
      out.append((left, op, right))
      left = right
  return out
