"""Variant library for the thorough tier (see sa/variants.py).

Every entry is one edit of one function in canonical (ast.unparse) text.
"""

L = 'pyglove/core/symbolic/list.py'
D = 'pyglove/core/symbolic/dict.py'
B = 'pyglove/core/symbolic/base.py'
O = 'pyglove/core/symbolic/object.py'
FL = 'pyglove/core/symbolic/flags.py'
FU = 'pyglove/core/symbolic/functor.py'
VS = 'pyglove/core/typing/value_specs.py'
CS = 'pyglove/core/typing/class_schema.py'
KS = 'pyglove/core/typing/key_specs.py'
SIG = 'pyglove/core/typing/callable_signature.py'
JC = 'pyglove/core/utils/json_conversion.py'
TL = 'pyglove/core/utils/thread_local.py'
VL = 'pyglove/core/utils/value_location.py'
HI = 'pyglove/core/utils/hierarchical.py'
FS = 'pyglove/core/io/file_system.py'
GB = 'pyglove/core/geno/base.py'
GC = 'pyglove/core/geno/categorical.py'
GN = 'pyglove/core/geno/numerical.py'
GR = 'pyglove/core/geno/random.py'
GD = 'pyglove/core/geno/deduping.py'
HO = 'pyglove/core/hyper/object_template.py'
HC = 'pyglove/core/hyper/categorical.py'
HN = 'pyglove/core/hyper/numerical.py'
LB = 'pyglove/core/tuning/local_backend.py'
EB = 'pyglove/ext/evolution/base.py'
EM = 'pyglove/ext/evolution/mutators.py'
ER = 'pyglove/ext/evolution/recombinators.py'
PA = 'pyglove/core/coding/parsing.py'
PE = 'pyglove/core/coding/permissions.py'
EX = 'pyglove/core/coding/execution.py'
TV = 'pyglove/core/views/html/tree_view.py'
TAB = 'pyglove/core/views/html/controls/tab.py'
HB = 'pyglove/core/views/html/base.py'


def fire(name, file, function, old, new, rule, construct, count=1):
  return dict(name=name, kind='fire', file=file, function=function, old=old, new=new,
              expect=(rule, construct), count=count)


def silent(name, file, function, old, new, count=1, more=None):
  return dict(name=name, kind='silent', file=file, function=function, old=old, new=new, count=count,
              more=more)


SEAL_GUARD_APPEND = "if base.treats_as_sealed(self):\n        raise base.WritePermissionError('Cannot append element on a sealed List.')"

VARIANTS = {
    'C01': [
        fire('relocate-parentless-not-cloned', B, 'Symbolic._relocate_if_symbolic', 'elif value.sym_parent is None and self._sym_parent_for_children() is None and value.sym_path and (root_path != value.sym_path):\n            value = value.clone()', 'else:\n            pass', 'C01.b', 'unattached-container'),
        fire('reset-adopts-schema-default', D, 'Dict._formalized_value', 'value = copy.deepcopy(field.default_value)', 'value = field.default_value', 'C01.h', 'Dict._formalized_value'),
        fire('apply-adopts-schema-default', CS, 'Schema.apply', 'value = copy.deepcopy(field.default_value)', 'value = field.default_value', 'C01.h', 'Schema.apply'),
        fire('negative-index-not-normalised', L, 'List._set_item_without_permission_check', 'if index < 0:\n            index += len(self)', 'pass', 'C01.g', '#position'),
        fire('validate-after-detach-list', L, 'List._set_item_without_permission_check', 'new_value = self._formalized_value(index, value)\n    if index < len(self):', 'if isinstance(old_value, base.TopologyAware):\n        old_value.sym_setparent(None)\n    new_value = self._formalized_value(index, value)\n    if index < len(self):', 'C01.e', 'List._set_item_without_permission_check'),
        fire('reindex-only-when-notifying', L, 'List._remove_item_without_permission_check', 'self._update_children_index()', 'if flags.is_change_notification_enabled():\n        self._update_children_index()', 'C01.c', '_remove_item_without_permission_check'),
        fire('sweep-deletes-live-items', L, 'List._on_change', 'if pg_typing.MISSING_VALUE == item:',
             'if item is None or pg_typing.MISSING_VALUE == item:', 'C01.d', '_on_change'),
        fire('drop-detach-on-replace', L, 'List._set_item_without_permission_check',
             'old_value.sym_setparent(None)', 'pass', 'C01.d', 'List._set_item_without_permission_check#list.__setitem__'),
        fire('store-unformalized', L, 'List._set_item_without_permission_check',
             'list.__setitem__(self, index, new_value)', 'list.__setitem__(self, index, value)',
             'C01.b', 'List._set_item_without_permission_check#list.__setitem__'),
        fire('raw-write-elsewhere', L, 'List.copy',
             'return List(super().copy(), value_spec=self._value_spec)',
             'list.append(self, None)\n    return List(super().copy(), value_spec=self._value_spec)',
             'C01.m2', 'List.copy'),
        fire('relocate-skips-parent', B, 'Symbolic._relocate_if_symbolic',
             'value.sym_setparent(self._sym_parent_for_children())', 'pass', 'C01.b', '_relocate_if_symbolic'),
        fire('children-path-loop-break', D, 'Dict._update_children_paths',
             'v.sym_setpath(utils.KeyPath(k, new_path))', 'v.sym_setpath(utils.KeyPath(k, new_path))\n            break',
             'C01.f', 'Dict._update_children_paths'),
        fire('drop-override-extend', L, 'List',
             'def extend(self, other: Iterable[Any]) -> None:', 'def extend_renamed(self, other: Iterable[Any]) -> None:',
             'C01.a', 'List.extend'),
        silent('rename-local-new_value', L, 'List._set_item_without_permission_check', 'new_value', 'nv', count=0),
        silent('rename-local-old_value-dict', D, 'Dict._set_item_without_permission_check', 'field', 'fld', count=0),
    ],
    'C02': [
        fire('sort-then-reverse', L, 'List.sort', 'super().sort(key=key, reverse=reverse)', 'super().sort(key=key)\n    if reverse:\n        super().reverse()', 'C02.g', 'List.sort'),
        fire('noop-on-equality', D, 'Dict._set_item_without_permission_check',
             'if old_value is value:', 'if old_value == value:', 'C02.d', 'Dict._set_item_without_permission_check#noop'),
        fire('sort-key-string', L, 'List._sym_rebind', 'key=lambda x: x[0]', 'key=lambda x: str(x[0])',
             'C02.e', 'List._sym_rebind#order'),
        fire('drop-lower-range-test', L, 'List.__delitem__',
             'if index < -len(self) or index >= len(self):', 'if index >= len(self):', 'C02.c', 'List.__delitem__'),
        fire('slice-defaults-ignore-step', L, 'List._parse_slice', 'return index.indices(len(self))',
             'start = index.start if index.start is not None else 0\n    stop = index.stop if index.stop is not None else len(self)\n    step = index.step if index.step is not None else 1\n    return (start, stop, step)',
             'C02.a', 'List._parse_slice'),
        fire('update-keys-parsed-as-paths', D, 'Dict.update', '{utils.KeyPath(k): v for k, v in updates.items()}', 'updates', 'C02.b', 'Dict.update'),
        fire('values-in-raw-order', D, 'Dict.values', 'return self.sym_values()', 'return dict.values(self)', 'C02.f', 'Dict.values'),
        fire('sym-keys-yields-twice', D, 'Dict.sym_keys', 'traversed.add(key_spec.text)', 'pass', 'C02.f', 'Dict.sym_keys'),
        silent('sym-keys-rename-set', D, 'Dict.sym_keys', 'traversed', 'done', count=0),
        fire('setdefault-returns-argument', D, 'Dict.setdefault', 'value = self.sym_getattr(key, default)', 'value = default', 'C02.d', 'Dict.setdefault'),
        silent('slice-param-renamed', L, 'List._parse_slice', 'index', 'slc', count=0),
        silent('rename-lambda-var', L, 'List._sym_rebind', 'key=lambda x: x[0]', 'key=lambda kv: kv[0]'),
    ],
    'C03': [
        fire('relocate-only-when-type-checking', L, 'List._formalized_value', 'return self._relocate_if_symbolic(idx, value)', 'if flags.is_type_check_enabled():\n      return self._relocate_if_symbolic(idx, value)\n    return value', 'C03.i', 'typecheck-flag'),
        fire('clear-without-prevalidation', D, 'Dict.clear', 'value_spec.schema.apply({}, allow_partial=self._allow_partial, root_path=self.sym_path)', 'pass', 'C03.c', 'Dict.clear#bulk'),
        fire('union-returns-converted', VS, 'Union._apply', 'return c.apply(converter(value), allow_partial=allow_partial, child_transform=child_transform, root_path=root_path)', 'return converter(value)', 'C03.g', 'Union._apply'),
        fire('custom-apply-skips-for-complete', D, 'Dict.custom_apply', 'if self._allow_partial == allow_partial:', 'if self._allow_partial == allow_partial or not self.sym_partial:', 'C03.f', 'Dict.custom_apply#partial'),
        fire('skip-apply-in-formalize', L, 'List._formalized_value',
             'if self._value_spec and flags.is_type_check_enabled():', 'if False:', 'C03.a', 'List._formalized_value'),
        fire('primitive-append-unbounded', L, 'List._set_item_without_permission_check',
             "else:\n        if self.max_size is not None and len(self) >= self.max_size:\n            raise ValueError(f'List reached its max size {self.max_size}.')\n        super().append(new_value)",
             'else:\n        super().append(new_value)', 'C03.b', '#max_size'),
        fire('delitem-without-min-size', L, 'List.__delitem__',
             'if self._value_spec and self._value_spec.min_size == len(self):', 'if False:', 'C03.b', 'List.__delitem__#min_size'),
        fire('sweep-deletes-non-placeholders', L, 'List._on_change', 'if pg_typing.MISSING_VALUE == item:', 'if item is None or pg_typing.MISSING_VALUE == item:',
             'C03.b', 'List._on_change'),
        fire('removal-marker-unbounded', L, 'List._set_item_without_permission_check',
             'if num_items <= self._value_spec.min_size:', 'if False:', 'C03.b', 'min_size'),
        silent('extend-own-check-redundant', L, 'List.extend',
               'if self.max_size is not None and len(self) + len(other) > self.max_size:', 'if False:'),
        fire('validate-skipped', VS, 'ValueSpecBase.apply', 'self._validate(root_path, value)', 'pass',
             'C03.d', 'ValueSpecBase.apply'),
        fire('range-inclusive-boundary-rejected', VS, 'Number._validate',
             'value < self._min_value', 'value <= self._min_value', 'C03.d', 'Number._validate#min'),
        fire('unknown-keys-accepted', CS, 'Schema.apply', 'if unmatched_keys:', 'if False:', 'C03.e', 'Schema.apply'),
        silent('rename-local-allow_partial', L, 'List._formalized_value', 'allow_partial = ', 'ap = ',),
    ],
    'C04': [
        fire('bound-truthiness', 'pyglove/core/typing/key_specs.py', 'ListKey.extend', 'if base.max_value is None:', 'if not base.max_value:', 'C04.f', 'ListKey.extend'),
        fire('flip-min-polarity', VS, 'Number._is_compatible',
             'other.min_value < self._min_value', 'other.min_value > self._min_value', 'C04.b', 'Number._is_compatible#min_value'),
        fire('accept-unbounded-other', VS, 'Number._is_compatible',
             'if other.max_value is None or other.max_value > self._max_value:', 'if other.max_value is not None and other.max_value > self._max_value:',
             'C04.b', 'Number._is_compatible#max_value-unbounded'),
        fire('apply-mutates-spec', VS, 'Number._validate', 'if ', 'self._min_value = None\n    if ', 'C04.c', 'Number._validate'),
        fire('default-not-applied', VS, 'ValueSpecBase.set_default',
             'default = self.apply(default, allow_partial=True, root_path=root_path)', 'pass', 'C04.d', 'ValueSpecBase.set_default'),
        fire('schema-compat-tolerates-missing-key', CS, 'Schema.is_compatible',
             'if key_spec not in other:\n            return False', 'if key_spec not in other:\n            continue',
             'C04.e', 'Schema.is_compatible#key in other'),
        silent('swap-operands-keeping-meaning', VS, 'Number._is_compatible',
               'other.min_value < self._min_value', 'self._min_value > other.min_value'),
    ],
    'C05': [
        fire('registry-lookup-memo', 'pyglove/core/utils/json_conversion.py', '_TypeRegistry.class_from_typename', 'cls = self._type_to_cls_map.get(type_name, None)', 'cls = self._resolved.setdefault(type_name, self._type_to_cls_map.get(type_name, None))', 'C05.h', 'class_from_typename'),
        fire('int-key-decoded-conditionally', B, '_get_key', "if k.startswith('n_:'):", "if k.startswith('n_:') and k[3:].isdigit():",
             'C05.c', '_get_key'),
        fire('from-json-consumes-input', 'pyglove/core/utils/json_conversion.py', 'from_json', 'json_value = dict(json_value)', 'pass', 'C05.l', 'json_conversion.from_json'),
        fire('line-reader-eof-after-strip', 'pyglove/core/io/sequence.py', 'LineSequence._iter', 'line = self._file.readline()', "line = self._file.readline().rstrip('\\n')", 'C05.j', 'LineSequence._iter'),
        fire('jsonify-drops-empty', D, 'Dict.sym_jsonify', 'if hide_default_values and base.eq(value, field.default_value):', 'if hide_default_values and (base.eq(value, field.default_value) or not value):', 'C05.k', 'Dict.sym_jsonify'),
        silent('from-json-copy-by-method', 'pyglove/core/utils/json_conversion.py', 'from_json', 'json_value = dict(json_value)', 'json_value = json_value.copy()'),
        fire('prefix-mismatch', B, '_encode_int_keys', "f'n_:{k}'", "f'i_:{k}'", 'C05.c', '_get_key'),
        fire('enum-from-json-removed', VS, 'Enum.from_json', "json_value.setdefault('default', MISSING_VALUE)", 'pass',
             'C05.a', 'Enum#default'),
        fire('pickle-key-renamed', L, 'List.__getstate__', 'dict(value=list(self), kwargs=self._init_kwargs())',
             'dict(items=list(self), kwargs=self._init_kwargs())', 'C05.e', 'List#pickle-keys'),
        fire('ensure-ascii-off', B, 'to_json_str', 'indent=json_indent)', 'indent=json_indent, ensure_ascii=False)',
             'C05.i', 'to_json_str'),
        fire('memfs-no-truncate', FS, 'MemoryFileSystem.open', "if 'w' in mode or ('a' in mode and file is None):",
             "if file is None and ('w' in mode or 'a' in mode):", 'C05.f', 'truncate-on-w'),
        silent('int-with-explicit-base', B, '_get_key', 'return int(k[3:])', 'return int(k[3:], 10)'),
    ],
    'C06': [
        fire('list-hash-memo', L, 'List.sym_hash', 'return base.sym_hash(', 'self._hash_valid = True\n    return base.sym_hash(', 'C06.f', 'List.sym_hash'),
        fire('object-hash-by-values', 'pyglove/core/symbolic/object.py', 'Object.sym_hash', 'base.sym_hash(self._sym_attributes)', 'tuple((base.sym_hash(v) for v in self.sym_values()))', 'C06.e', 'Object.sym_hash'),
        fire('eq-drops-length-test', B, 'eq', 'if len(left) != len(right):', 'if False:', 'C06.g', 'eq'),
        fire('hash-order-sensitive', D, 'Dict.sym_hash', 'frozenset(', 'tuple(', 'C06.a', 'Dict.sym_hash'),
        fire('dict-children-builtin-hash', D, 'Dict.sym_hash', '(k, base.sym_hash(v))', '(k, hash(v))', 'C06.a', 'Dict.sym_hash#children'),
        silent('list-hash-explicit-loop', L, 'List.sym_hash',
               'return base.sym_hash((self.__class__, tuple([base.sym_hash(e) for e in self.sym_values()])))',
               'hs = []\n    for item in self.sym_values():\n        hs.append(base.sym_hash(item))\n    return base.sym_hash((self.__class__, tuple(hs)))'),
        fire('ne-not-negation', B, 'ne', 'return not eq(left, right)', 'return not eq(right, right)', 'C06.d', 'base.ne'),
        fire('bool-own-rank', B, '_type_order', 'isinstance(value, (bool, int, float))', 'isinstance(value, (int, float))',
             'C06.c', '_type_order'),
        fire('drop-none-rule', B, 'lt', 'if left is None or isinstance(left, utils.MissingValue):', 'if False:', 'C06.c', 'same-category:None'),
        silent('rename-local-lkeys', B, 'lt', 'lkeys', 'left_keys', count=0),
    ],
    'C07': [
        fire('ref-clone-returns-self', 'pyglove/core/symbolic/ref.py', 'Ref._sym_clone', 'return Ref(self._value, allow_partial=self.allow_partial)', 'return self', 'C07.c', 'Ref._sym_clone'),
        fire('relocate-by-equality', B, 'Symbolic._relocate_if_symbolic', 'value.sym_parent is not self', 'value.sym_parent != self', 'C07.e', '_relocate_if_symbolic'),
        fire('list-clone-drops-partial', L, 'List._sym_clone', 'allow_partial=self._allow_partial, ', '', 'C07.a', 'List._sym_clone#allow_partial'),
        fire('functor-clone-aliases-set', FU, 'Functor._sym_clone', 'set(self._default_args)', 'self._default_args', 'C07.d', 'Functor._sym_clone#_default_args'),
        fire('deepcopy-shallow', B, 'Symbolic.__deepcopy__', 'self.sym_clone(deep=True, memo=memo)', 'self.sym_clone(deep=False)', 'C07.b', 'Symbolic.__deepcopy__'),
        silent('rename-local-source', L, 'List._sym_clone', 'source', 'items_', count=0),
    ],
    'C08': [
        fire('clear-refill-under-own-flag', D, 'Dict.clear', 'with flags.notify_on_change(False), flags.allow_writable_accessors(True):', 'with flags.notify_on_change(False):', 'C08.h', 'Dict.clear#refill-scope'),
        fire('as-sealed-none-inherits', FL, 'as_sealed', 'return thread_local.thread_local_value_scope(_TLS_SEALED, sealed, None)', 'return thread_local.thread_local_value_scope(_TLS_SEALED, sealed if sealed is not None else is_under_sealed_scope(), None)', 'C08.g', 'as_sealed'),
        fire('list-born-sealed-shortcut', L, 'List.__init__', 'sealed=False, root_path=root_path)', 'sealed=sealed, root_path=root_path)', 'C08.f', 'List.__init__#born-sealed'),
        fire('append-without-seal-guard', L, 'List.append', 'if base.treats_as_sealed(self):', 'if False:', 'C08.b', 'List.append'),
        fire('seal-guard-after-write', L, 'List.clear', 'if base.treats_as_sealed(self):', 'super().clear()\n    if base.treats_as_sealed(self):',
             'C08.b', 'List.clear'),
        fire('setitem-without-accessor-guard', D, 'Dict.__setitem__', 'if not base.writtable_via_accessors(self):', 'if False:', 'C08.c', 'Dict.__setitem__'),
        fire('rebind-checks-accessor-flag', B, 'Symbolic._set_item_of_current_tree', 'if treats_as_sealed(parent_node):',
             'if not writtable_via_accessors(parent_node):\n        raise WritePermissionError()\n    if treats_as_sealed(parent_node):', 'C08.c', '_set_item_of_current_tree#rebind-path'),
        fire('predicate-ignores-scope', B, 'treats_as_sealed', 'return value.sym_sealed if sealed_in_scope is None else sealed_in_scope',
             'return value.sym_sealed', 'C08.e', 'treats_as_sealed'),
        fire('seal-not-deep', L, 'List.seal', 'elem.seal(sealed)', 'pass', 'C08.f', 'List.seal'),
        fire('guard-raises-wrong-error', D, 'Dict.clear', "raise base.WritePermissionError('Cannot clear a sealed Dict.')", "return None", 'C08.b', 'Dict.clear'),
        silent('guard-in-early-return-form', L, 'List.append',
               "if base.treats_as_sealed(self):\n        raise base.WritePermissionError('Cannot append element on a sealed List.')",
               "sealed_ = base.treats_as_sealed(self)\n    if base.treats_as_sealed(self):\n        raise base.WritePermissionError('Cannot append element on a sealed List.')"),
        silent('rename-local-update', L, 'List.append', 'update = ', 'upd = ',
               more=[('and update:', 'and upd:'), ('[update]', '[upd]')]),
    ],
    'C09': [
        fire('append-no-cache-reset-when-silent', L, 'List.append', 'else:\n        self._sym_reset_content_caches()', 'else:\n        pass', 'C09.i', 'List.append#cache-reset'),
        fire('rebind-skip-no-cache-reset', B, 'Symbolic.sym_rebind', 'else:\n        self._sym_reset_content_caches(updates)', 'else:\n        pass', 'C09.i', 'sym_rebind#cache-reset'),
        fire('subscription-memoised', 'pyglove/core/symbolic/object.py', 'Object._subscribes_field_updates', 'return self._on_change.__code__ is not Object._on_change.__code__', 'cls = self.__class__\n    if cls._SUBSCRIBES is None:\n        cls._SUBSCRIBES = cls._on_change.__code__ is not Object._on_change.__code__\n    return cls._SUBSCRIBES', 'C09.g', 'Object._subscribes_field_updates'),
        fire('append-without-notify', L, 'List.append', 'self._notify_field_updates([update])', 'pass', 'C09.a', 'List.append'),
        fire('memo-not-reset', B, 'Symbolic._notify_field_updates', "target._set_raw_attr('_sym_missing_values', None)", 'pass',
             'C09.b', '_notify_field_updates#_sym_missing_values'),
        fire('notify-ignores-flag', L, 'List.insert', 'if flags.is_change_notification_enabled() and update:', 'if update:', 'C09.f', 'List.insert'),
        fire('ancestor-walk-stops', B, 'Symbolic._notify_field_updates', 'target = target.sym_parent', 'target = None', 'C09.e', 'ancestor-walk'),
        fire('update-payload-wrong-old', L, 'List._set_item_without_permission_check', 'old_value, new_value)', 'new_value, new_value)', 'C09.d', 'List._set_item_without_permission_check'),
        fire('update-skips-notification', D, 'Dict.update', 'raise_on_no_change=False)', 'raise_on_no_change=False, skip_notification=True)', 'C09.c', 'Dict.update'),
        fire('sort-without-notify', L, 'List.sort', 'self._notify_repositioned(old_values)', 'pass', 'C09.a', 'List.sort'),
        fire('notify-helper-returns-early', L, 'List._notify_repositioned', 'if updates:\n        self._notify_field_updates(updates)', 'if len(updates) > 1:\n        self._notify_field_updates(updates)', 'C09.a', 'List.reverse'),
        fire('dict-clear-without-notify', D, 'Dict.clear', 'if updates:\n            self._notify_field_updates(updates)', 'pass', 'C09.a', 'Dict.clear'),
        fire('popitem-ignores-flag', D, 'Dict.popitem', 'if flags.is_change_notification_enabled():', 'if True:', 'C09.f', 'Dict.popitem'),
        silent('notify-helper-inlined-name', L, '<module>', '_notify_repositioned', '_emit_position_changes', count=0),
        silent('rename-local-update-insert', L, 'List.insert', 'update = ', 'upd = ',
               more=[('and update:', 'and upd:'), ('[update]', '[upd]')]),
    ],
    'C10': [
        fire('query-one-sided-range', VL, 'KeyPath._query', 'if -len(src) <= key < len(src):', 'if key < len(src):', 'C10.g', 'position-range'),
        fire('query-int-key-by-position-in-mapping', VL, 'KeyPath._query', 'if isinstance(key, int) and (not isinstance(src, collections.abc.Mapping)):', 'if isinstance(key, int):', 'C10.g', 'mapping-int-key'),
        fire('from-value-parses-int', VL, 'KeyPath.from_value', 'elif isinstance(value, int):\n        value = cls(value)', 'elif isinstance(value, int):\n        value = cls.parse(str(value))', 'C10.c', 'from_value'),
        fire('quote-chars-differ', VL, 'KeyPath._has_special_chars', "['[', ']', '.']", "['[', ']']", 'C10.a', 'KeyPath.parse'),
        fire('second-path-formatter', VL, 'KeyPath.__init__', 'self._path_str = None', "self._path_str = None if parent is None else str(parent) + '.x'", 'C10.d', 'KeyPath#_path_str'),
        fire('graft-by-reference', VL, 'KeyPathSet.update', 'copy_lib.deepcopy(value)', 'value', 'C10.e', 'KeyPathSet.update'),
        fire('listify-one-sided', HI, 'try_listify_dict_with_int_keys', 'min_key == 0 and max_key == len(src) - 1', 'max_key == len(src) - 1', 'C10.f', 'try_listify_dict_with_int_keys'),
        fire('traverse-wrong-child-path', B, 'traverse', 'utils.KeyPath(i, root_path)', 'utils.KeyPath(0, root_path)', 'C10.b', 'base.traverse'),
        silent('rename-local-keys', VL, 'KeyPath.__init__', 'keys = []', 'ks = []',
               more=[('keys.extend(', 'ks.extend('), ('self._keys = keys', 'self._keys = ks')]),
    ],
    'C11': [
        fire('seed-truthiness-setup', 'pyglove/core/geno/random.py', 'Random._setup', 'if self.seed is None:', 'if not self.seed:', 'C11.z', 'random.py'),
        fire('sweeping-cursor-none', 'pyglove/core/geno/sweeping.py', 'Sweeping._propose', 'next_dna = self.dna_spec.next_dna(self._last_proposed_dna)\n    if next_dna is None:\n        raise StopIteration()\n    self._last_proposed_dna = next_dna\n    return next_dna', 'self._last_proposed_dna = self.dna_spec.next_dna(self._last_proposed_dna)\n    if self._last_proposed_dna is None:\n        raise StopIteration()\n    return self._last_proposed_dna', 'C11.e', 'Sweeping._propose'),
        fire('drop-lower-bound', GC, 'Choices.validate', 'if dna.value < 0 or dna.value >= len(self.candidates):', 'if dna.value >= len(self.candidates):',
             'C11.a', 'Choices.validate#candidates[dna.value]'),
        fire('random-ignores-sorted', GC, 'Choices._random_dna', 'if self.sorted:', 'if False:', 'C11.b', 'Choices._random_dna#Choices.sorted'),
        fire('memo-not-reset', GC, 'Choices._on_bound', 'self._space_size = None', 'pass', 'C11.c', 'Choices#self._space_size'),
        fire('float-rejects-boundary', GN, 'Float.validate', 'dna.value < self.min_value', 'dna.value <= self.min_value', 'C11.d', 'Float.validate#min'),
        fire('recurrence-reads-arity', GC, '_space_size', 's[0] * k * _space_size', 's[0] * self.num_choices * _space_size', 'C11.d', '_space_size#closure'),
        silent('chained-comparison-form', GC, 'Choices._next_dna', 'choice_dna.value < 0 or choice_dna.value >= len(self.candidates)', 'choice_dna.value >= len(self.candidates) or choice_dna.value < 0'),
    ],
    'C12': [
        fire('clone-carries-lookup-table', GB if False else 'pyglove/core/geno/base.py', 'DNA._sym_clone', 'other._spec = self._spec', 'other._spec = self._spec\n    other._decision_by_id_cache = self._decision_by_id_cache', 'C12.e', 'DNA._sym_clone'),
        fire('id-skips-conditional-key', 'pyglove/core/geno/base.py', 'DNASpec.id', 'self._id = utils.KeyPath(ConditionalKey(self.index, len(parent.candidates)), parent.id) + self.location', 'self._id = (utils.KeyPath(ConditionalKey(self.index, len(parent.candidates)), parent.id) if len(parent.candidates) > 1 else parent.id) + self.location', 'C12.f', 'DNASpec.id'),
        fire('getitem-fast-path', 'pyglove/core/geno/base.py', 'DNA.__getitem__', 'key = key.id\n        return self._decision_by_id[key]', 'if key is self._spec:\n            return self\n        key = key.id\n        return self._decision_by_id[key]', 'C12.f', 'DNA.__getitem__'),
        fire('from-dict-unbound', GB, 'DNA.from_dict', 'return dna.use_spec(dna_spec)', 'return dna', 'C12.c', 'DNA.from_dict'),
        fire('json-key-renamed', GB, 'DNA.from_json', "json_value.get('value')", "json_value.get('val')", 'C12.b', 'compact-json:val'),
        fire('swap-not-rebound', EM, 'Swap.mutate', 'parent_node.children[i].use_spec(parent_node.spec.subchoice(i))', 'pass', 'C12.d', 'Swap.mutate'),
        fire('option-literal-unhandled', GB, 'DNA.to_dict', "['id', 'name_or_id', 'dna_spec']", "['id', 'name_or_id', 'dna_spec', 'name']", 'C12.a', 'to_dict#key_type'),
        silent('rename-local-dict_repr', GB, 'DNA.to_dict', 'accumulated', 'acc', count=0),
    ],
    'C13': [
        fire('decode-parks-dna', 'pyglove/core/hyper/categorical.py', 'Choices._decode', 'choices.append(self._candidate_templates[sub_dna.value].decode(geno.DNA(None, sub_dna.children)))', 'cand = self._candidate_templates[sub_dna.value]\n            cand.set_dna(geno.DNA(None, sub_dna.children))\n            choices.append(cand())', 'C13.e', 'Choices._decode'),
        fire('decode-flag-copied', HO, 'ObjectTemplate._decode', "value = rebind_dict['']\n            copied = False", "value = rebind_dict['']\n            copied = True", 'C13.a', 'ObjectTemplate._decode#value.rebind'),
        fire('encode-isinstance', HO, '_encode', 'type(input_value) is not type(template_value)', 'not isinstance(input_value, type(template_value))', 'C13.a', '_encode#exact-type'),
        fire('dna-spec-drops-sorted', HC, 'Choices.dna_spec', 'sorted=self.choices_sorted, ', '', 'C13.b', 'Choices.dna_spec#sorted'),
        fire('bind-without-validating-candidates', HC, 'OneOf.custom_apply', 'for i, c in enumerate(self.candidates):', 'for i, c in enumerate([]):', 'C13.d', 'OneOf.custom_apply'),
        fire('truthiness-of-bound', HN, 'Float.custom_apply', 'float_spec.min_value is not None and', 'float_spec.min_value and', 'C13.d', 'Float.custom_apply#none-tests'),
        silent('rename-local-rebind_dict', HO, 'ObjectTemplate._decode', 'derived_values', 'dvs', count=0),
    ],
    'C14': [
        fire('last-negated-slice', 'pyglove/ext/evolution/selectors.py', 'Last.select', 'return inputs[max(0, len(inputs) - n):]', 'return inputs[-n:]', 'C14.g', 'Last.select#slice'),
        fire('segmentwise-ignores-sorted', 'pyglove/ext/evolution/recombinators.py', 'SegmentWise.recombine', 'dp.is_subchoice and (dp.distinct or dp.sorted)', 'dp.is_subchoice and dp.distinct', 'C14.g', 'SegmentWise.recombine'),
        fire('mutate-without-clone', EM, 'Swap.mutate', 'dna = dna.clone(deep=True)', 'pass', 'C14.a', 'Swap.mutate'),
        fire('global-random', ER, '_merge_multi_choice', 'rand.choices(parent_decisions', 'random.choices(parent_decisions', 'C14.c', '_merge_multi_choice'),
        fire('reflected-operand-order', EB, 'Operation.__radd__', 'Concatenation([x, self])', 'Concatenation([self, x])', 'C14.d', 'Operation.__radd__'),
        fire('concat-reuses-child-output', EB, 'Concatenation.call', 'results = []', 'results = self._ops[0](inputs, global_state=global_state, step=step)', 'C14.f', 'Concatenation.call'),
        fire('selector-clones', 'pyglove/ext/evolution/selectors.py', 'Top.select', 'return sorted(inputs, key=key, reverse=True)[:n]', 'return [x.clone() for x in sorted(inputs, key=key, reverse=True)[:n]]', 'C14.e', 'Top.select'),
        silent('rename-local-children', EM, 'Uniform.mutate', 'new_child_value', 'ncv', count=0),
    ],
    'C15': [
        fire('sweeping-asks-cursor', 'pyglove/core/geno/sweeping.py', 'Sweeping._propose', 'self.dna_spec.next_dna(self._last_proposed_dna)', 'self._last_proposed_dna.next_dna() if self._last_proposed_dna is not None else self.dna_spec.first_dna()', 'C15.e', '_last_proposed_dna-unbound'),
        fire('recover-threshold-minus-one', EB, 'Evolution.recover', 'len(init_population) >= self._init_population_size', 'len(init_population) >= self._init_population_size - 1', 'C15.e', 'threshold'),
        fire('feedback-threshold-no-offset', EB, 'Evolution._feedback', 'self.num_feedbacks >= self._init_population_size - 1', 'self.num_feedbacks >= self._init_population_size', 'C15.e', 'threshold'),
        fire('recover-no-population-update', EB, 'Evolution.recover', 'if self._population_update:', 'if False:', 'C15.e', 'update-per-individual'),
        fire('dedup-replays-inner', GD, 'Deduping.recover', 'self.generator.recover(history)',
             'for i, (d, r) in enumerate(history):\n        self.generator._replay(i, d, r)', 'C15.a', 'Deduping'),
        fire('replay-skips-cache', GD, 'Deduping._replay', 'self._add_dna_to_cache(dna, reward)', 'pass', 'C15.b', 'Deduping._replay#cache'),
        fire('seed-truthiness', GR, 'Random._replay', 'if self.seed is not None:', 'if self.seed:', 'C15.d', 'Random._replay'),
        fire('recover-skips-feedback-counter', EB, 'Evolution.recover', 'self._num_feedbacks += 1', 'pass', 'C15.c', 'Evolution.recover'),
        fire('sweeping-replay-forgets', 'pyglove/core/geno/sweeping.py', 'Sweeping._replay', 'self._last_proposed_dna = dna', 'pass', 'C15.b', 'Sweeping'),
        silent('rename-local-init_population', EB, 'Evolution.recover', 'generation_id', 'gen_id', count=0),
    ],
    'C16': [
        fire('sample-eager-backend', 'pyglove/core/tuning/sample.py', 'sample', 'yield (value, feedback)', 'return iter([(value, feedback)])', 'C16.f', 'sample'),
        fire('group-truthiness', 'pyglove/core/tuning/local_backend.py', '_InMemoryBackend.__init__', 'if group is None:', 'if not group:', 'C16.e', '_InMemoryBackend.__init__'),
        fire('write-outside-lock', LB, '_InMemoryResult._complete_trial', "with self._lock:\n        self._num_trials_by_status['COMPLETED'] += 1",
             "self._num_trials_by_status['COMPLETED'] += 1\n    with self._lock:\n        pass", 'C16.a', "_complete_trial#_num_trials_by_status"),
        fire('status-guard-dropped', LB, '_InMemoryFeedback._add_measurement', "if self._trial.status != 'PENDING':", 'if False:', 'C16.c', '_add_measurement'),
        fire('evolution-feedback-unlocked', EB, 'Evolution._feedback', 'with self._lock:', 'if True:', 'C16.a', 'Evolution._feedback#_population'),
        fire('study-get-or-create-unlocked', LB, '_InMemoryBackend.__init__', 'with _in_memory_results_lock:', 'if True:', 'C16.b', '__init__#_in_memory_results'),
        fire('create-trial-no-recheck', LB, '_InMemoryResult.create_trial', "if latest is not None and latest.status == 'PENDING':\n            return latest", 'pass', 'C16.b', 'next#_latest_trial_per_group'),
        fire('done-claim-unlocked', LB, '_InMemoryFeedback.done', 'with self._study._lock:', 'if True:', 'C16.b', 'done#status'),
        fire('skip-claim-unlocked', LB, '_InMemoryFeedback.skip', 'with self._study._lock:', 'if True:', 'C16.b', 'skip#status'),
        fire('feedback-counter-unlocked', 'pyglove/core/geno/dna_generator.py', 'DNAGenerator.feedback', 'with self._counter_lock:', 'if True:', 'C16.d', 'feedback#_num_feedbacks'),
        fire('write-under-other-lock', LB, '_InMemoryResult._complete_trial', 'with self._lock:', 'with _in_memory_results_lock:', 'C16.a', '_complete_trial#'),
        silent('rename-counter-lock', 'pyglove/core/geno/dna_generator.py', '<module>', '_counter_lock', '_cnt_mutex', count=0),
        silent('rename-local-best', LB, '_InMemoryResult._complete_trial', 'best = self._best_trial', 'cur = self._best_trial',
               more=[('best is None', 'cur is None'), ('best.final_measurement', 'cur.final_measurement')]),
    ],
    'C17': [
        fire('timeit-parent-saved-conditionally', 'pyglove/core/utils/timing.py', 'TimeIt.__enter__', 'self._parent = parent\n    if parent is not None:\n        parent.add(self)', 'if parent is not None:\n        parent.add(self)\n        self._parent = parent', 'C17.b', 'saved-on-every-entry'),
        fire('view-options-merge-into-shallow-copy', 'pyglove/core/views/base.py', 'view_options', 'options = utils.merge([parent_options, kwargs])', 'options = utils.merge_tree(dict(parent_options), kwargs)', 'C17.g', 'view_options'),
        fire('permission-restore-missing', PE, 'permission', 'if outter_perm is None:\n            utils.thread_local_del(_TLS_CODE_RUN_PERMISSION)', 'pass', 'C17.a', 'permission'),
        fire('exit-fn-before-restore', 'pyglove/core/hyper/dynamic_evaluation.py', 'dynamic_evaluate', 'base.set_dynamic_evaluate_fn(old_evaluate_fn, per_thread)\n        if not has_errors and exit_fn is not None:\n            exit_fn()', 'if not has_errors and exit_fn is not None:\n            exit_fn()\n        base.set_dynamic_evaluate_fn(old_evaluate_fn, per_thread)', 'C17.h', 'dynamic_evaluate'),
        fire('propagate-plain-values', 'pyglove/core/utils/contextual.py', 'with_contextual_override', 'with contextual_override() as current_context:\n        pass', 'current_context = all_contextual_values()', 'C17.i', 'with_contextual_override'),
        fire('restore-default-not-saved', TL, 'thread_local_value_scope', 'thread_local_set(key, previous_value)', 'thread_local_set(key, initial_value)', 'C17.b', 'thread_local_value_scope'),
        fire('no-finally', TL, 'thread_local_arg_scope', 'try:\n        thread_local_push(key, current_kwargs)\n        yield current_kwargs\n    finally:\n        thread_local_pop(key)',
             'thread_local_push(key, current_kwargs)\n    yield current_kwargs\n    thread_local_pop(key)', 'C17.a', 'thread_local_arg_scope'),
        fire('flags-share-key', FL, 'as_sealed', '_TLS_SEALED', '_TLS_ACCESSOR_WRITABLE', 'C17.f', 'flags'),
        fire('permission-inner-wins', PE, 'permission', 'perm = outter_perm', 'pass', 'C17.d', 'permission'),
        fire('timeit-skips-restore', 'pyglove/core/utils/timing.py', 'TimeIt.__exit__', 'self.end(exc_value)', 'if not self.end(exc_value):\n        return', 'C17.a', 'TimeIt'),
        fire('arg-scope-mutates-outer', TL, 'thread_local_arg_scope', 'current_kwargs = previous_kwargs.copy()', 'current_kwargs = previous_kwargs', 'C17.g', 'thread_local_arg_scope'),
        fire('contextual-scope-mutates-outer', 'pyglove/core/utils/contextual.py', 'contextual_scope', 'current_values = dict(previous_values)', 'current_values = previous_values', 'C17.g', 'contextual_scope'),
        silent('arg-scope-copy-by-dict', TL, 'thread_local_arg_scope', 'current_kwargs = previous_kwargs.copy()', 'current_kwargs = dict(previous_kwargs)'),
        silent('rename-key-constant-usage', TL, 'thread_local_value_scope', 'previous_value', 'prev', count=0),
    ],
    'C18': [
        fire('functor-json-writes-defaults', FU, 'Functor.sym_jsonify', 'if name not in self._specified_args:', 'if False:', 'C18.m', 'serialized-arguments'),
        fire('call-duplicate-keyword-wins', FU, 'Functor._parse_call_time_overrides', 'if arg_name in positional_arg_names:', 'if arg_name in positional_arg_names and False:', 'C18.m', 'multiple-values'),
        fire('keyword-stored-only-when-type-checking', FU, 'Functor._parse_call_time_overrides', 'if arg_spec:\n        if flags.is_type_check_enabled():\n          arg_value = arg_spec.apply(arg_value, root_path=self.sym_path + arg_name)\n        keyword_args[arg_name] = arg_value', 'if arg_spec and flags.is_type_check_enabled():\n        arg_value = arg_spec.apply(arg_value, root_path=self.sym_path + arg_name)\n        keyword_args[arg_name] = arg_value', 'C18.l', 'typecheck-flag'),
        fire('delattr-bookkeeping-first', FU, 'Functor.__delattr__', 'del self._sym_attributes[name]', 'self._specified_args.discard(name)\n    del self._sym_attributes[name]', 'C18.k', '__delattr__'),
        fire('functor-raw-arg-read', FU, 'Functor._parse_call_time_overrides', 'k: self.sym_inferred(k) for k in self._sym_attributes.keys()', 'k: v for k, v in self._sym_attributes.items()', 'C18.j', '_parse_call_time_overrides'),
        fire('call-init-raw-args', 'pyglove/core/symbolic/class_wrapper.py', '_SubclassedWrapperBase._call_init', 'dict(self.sym_init_args)', 'dict(self.sym_init_args.sym_items())', 'C18.j', '_call_init'),
        fire('specified-by-default-equality', 'pyglove/core/symbolic/functor.py', 'Functor._on_change', 'if update.new_value == pg_typing.MISSING_VALUE:', 'if update.new_value == pg_typing.MISSING_VALUE or update.field.default_value == update.new_value:', 'C18.h', 'Functor._on_change'),
        fire('duplicate-check-truthiness', 'pyglove/core/symbolic/object.py', 'Object.__init__', 'if k in field_args:', 'if k in field_args and field_args[k]:', 'C18.i', 'Object.__init__'),
        fire('reset-early-return', 'pyglove/core/symbolic/class_wrapper.py', '_SubclassedWrapperBase._on_reset', 'self.__dict__.clear()', 'if not self.wrapped_cls_initialized:\n        return\n    self.__dict__.clear()', 'C18.i', '_on_reset'),
        fire('on-change-early-return', FU, 'Functor._on_change', 'continue', 'return', 'C18.g', 'Functor._on_change'),
        fire('clone-aliases-specified', FU, 'Functor._sym_clone', 'set(self._specified_args)', 'self._specified_args', 'C18.b', 'Functor._sym_clone#_specified_args'),
        fire('override-scope-deletes', FU, 'Functor._apply_call_time_overrides_to_members',
             'setattr(self._tls, Functor._TLS_OVERRIDE_MEMBERS_KEY, outer_overrides)', 'delattr(self._tls, Functor._TLS_OVERRIDE_MEMBERS_KEY)', 'C18.c', 'reentrant'),
        fire('metadata-key-renamed', SIG, 'Signature.to_schema', 'varkw_name=', 'kw_name=', 'C18.d', 'metadata'),
        fire('drop-trailing-defaults', FU, 'Functor._parse_call_time_overrides', 'if signature.has_varargs:\n        prebound_varargs', 'del list_args[1:]\n    if signature.has_varargs:\n        prebound_varargs', 'C18.f', 'monotone'),
        silent('rename-local-list_args', FU, 'Functor._parse_call_time_overrides', 'missing_required_arg_names', 'missing_names', count=0),
    ],
    'C19': [
        fire('all-misses-import', PE, 'CodePermission.ALL', ' | CodePermission.IMPORT', '', 'C19.f', 'IMPORT'),
        fire('permission-scope-inner-wins', PE, 'permission', 'perm = outter_perm', 'pass', 'C19.h', 'permission'),
        fire('in-process-timeout-thread', 'pyglove/core/coding/execution.py', 'maybe_sandbox_call', 'else:\n        return func(*args, **kwargs)', 'else:\n        import concurrent.futures\n        return concurrent.futures.ThreadPoolExecutor(1).submit(func, *args, **kwargs).result(timeout)', 'C19.i', 'thread-dispatch'),
        fire('ungate-augassign', PA, '_CodeValidator.generic_visit', '(ast.Assign, ast.AugAssign, ast.AnnAssign, ast.NamedExpr)', '(ast.Assign, ast.AnnAssign, ast.NamedExpr)', 'C19.a', 'gate:ASSIGN:AugAssign'),
        fire('visitor-early-return', PA, '_CodeValidator.generic_visit', 'super().generic_visit(node)', 'if isinstance(node, ast.JoinedStr):\n        return\n    super().generic_visit(node)', 'C19.b', 'generic_visit'),
        fire('exec-before-parse', EX, 'evaluate', 'code_block = parsing.parse(code, permission)', 'code_block = parsing.parse(code, None)', 'C19.c', 'evaluate'),
        fire('empty-permission-falsy', EX, 'evaluate', 'if permission is None:', 'if not permission:', 'C19.g', 'evaluate'),
        fire('admit-all-value-statements', EX, 'evaluate', 'isinstance(code_block.body[-1], (ast.Expr, ast.Assign))', "hasattr(code_block.body[-1], 'value')", 'C19.e', 'last-stmt:AugAssign'),
        fire('error-not-wrapped', EX, 'evaluate', 'raise errors.CodeError(code, e) from e', 'raise', 'C19.d', 'evaluate#exec'),
        silent('rename-local-code_block', EX, 'evaluate', 'last_expr', 'tail_expr', count=0),
    ],
    'C20': [
        fire('escape-unescape-first', 'pyglove/core/views/html/base.py', 'Html.escape', 'html_lib.escape(s)', 'html_lib.escape(html_lib.unescape(s))', 'C20.d', 'argument'),
        fire('escape-keeps-quotes', 'pyglove/core/views/html/base.py', 'Html.escape', 'html_lib.escape(s)', 'html_lib.escape(s, quote=False)', 'C20.d', 'argument'),
        fire('escape-memoised', 'pyglove/core/views/html/base.py', 'Html.escape', 'if isinstance(s, str):\n        return _escape(s)', 'if isinstance(s, str):\n        if s not in _CACHE:\n            _CACHE[s] = _escape(s)\n        return _CACHE[s]', 'C20.e', 'Html.escape'),
        fire('unescaped-key', TV, 'HtmlTreeView.object_key', 'Html.escape(str(root_path.key))', 'str(root_path.key)', 'C20.a', 'object_key'),
        fire('tooltip-raw-content', TV, 'HtmlTreeView.summary', 'summary_tooltip_fn(value, parent=parent', 'summary_tooltip_fn(value, content=str(value), parent=parent', 'C20.a', 'summary'),
        fire('mutates-rendered-dict', TV, 'HtmlTreeView.complex_value', 'del name', 'del name\n    kv.pop(None, None)', 'C20.c', 'complex_value'),
        fire('unbalanced-literal', TAB, 'TabControl._to_html', "'</td><td>' if", "'</td><td><div>' if", 'C20.b', 'TabControl._to_html'),
        fire('element-without-closing-tag', HB, 'Html.element', "s.write(f'</{tag}>')", 'pass', 'C20.d', 'Html.element'),
        silent('escape-through-local', TV, 'HtmlTreeView.object_key', 'Html.escape(str(root_path.key))', 'Html.escape(str(root_path.key) + "")'),
    ],
}
