"""Mutation surface of pg.List / pg.Dict / pg.Object (DESIGN 2.1).

Shared by C01, C03, C08, C09: which methods are raw writes of the builtin
storage, which public mutators reach them, and interprocedural guard
dominance along `self.*` delegation (incl. the operator protocol:
`del self[i]` -> __delitem__, `self[k] = v` -> __setitem__).
"""
from __future__ import annotations

import ast
import re
from typing import Callable, Dict, List, Optional, Sequence, Set, Tuple

from sa import astutil as A
from sa import cfg as C
from sa.index import (AnalysisError, BUILTIN_DICT_MUTATORS,
                      BUILTIN_LIST_MUTATORS, Func, Index)

SYM = 'pyglove.core.symbolic.'
LIST = SYM + 'list.List'
DICT = SYM + 'dict.Dict'
OBJECT = SYM + 'object.Object'
SYMBOLIC = SYM + 'base.Symbolic'
PRIMITIVE = '_set_item_without_permission_check'

# Non-mutating names of the builtin types, frozen with provenance: CPython
# 3.12 `dir(list)` / `dir(dict)` minus the mutators above.  A name in
# dir(builtin) that is in neither set is an ANALYSIS-ERROR until triaged.
LIST_NONMUTATING = {
    '__add__', '__class__', '__class_getitem__', '__contains__', '__delattr__',
    '__dir__', '__doc__', '__eq__', '__format__', '__ge__', '__getattribute__',
    '__getitem__', '__getstate__', '__gt__', '__hash__', '__init__',
    '__init_subclass__', '__iter__', '__le__', '__len__', '__lt__', '__mul__',
    '__ne__', '__new__', '__reduce__', '__reduce_ex__', '__repr__',
    '__reversed__', '__rmul__', '__setattr__', '__sizeof__', '__str__',
    '__subclasshook__', 'copy', 'count', 'index'}
DICT_NONMUTATING = {
    '__class__', '__class_getitem__', '__contains__', '__delattr__', '__dir__',
    '__doc__', '__eq__', '__format__', '__ge__', '__getattribute__',
    '__getitem__', '__getstate__', '__gt__', '__hash__', '__init__',
    '__init_subclass__', '__iter__', '__le__', '__len__', '__lt__', '__ne__',
    '__new__', '__or__', '__reduce__', '__reduce_ex__', '__repr__',
    '__reversed__', '__ror__', '__setattr__', '__sizeof__', '__str__',
    '__subclasshook__', 'copy', 'fromkeys', 'get', 'items', 'keys', 'values'}


def check_builtin_tables():
  """The frozen mutator tables still partition the interpreter's slots."""
  for typ, mut, non in ((list, BUILTIN_LIST_MUTATORS, LIST_NONMUTATING),
                        (dict, BUILTIN_DICT_MUTATORS, DICT_NONMUTATING)):
    names = set(dir(typ))
    unknown = names - set(mut) - non
    if unknown:
      raise AnalysisError(
          f'builtin {typ.__name__} has untriaged slots {sorted(unknown)}')
    gone = set(mut) - names
    if gone:
      raise AnalysisError(f'builtin {typ.__name__} lost slots {sorted(gone)}')


def builtin_kind(idx: Index, cls_fq: str) -> Optional[str]:
  mro = idx.mro(cls_fq)
  if 'builtins.list' in mro:
    return 'list'
  if 'builtins.dict' in mro:
    return 'dict'
  return None


def mutators_of(kind: str) -> Tuple[str, ...]:
  return BUILTIN_LIST_MUTATORS if kind == 'list' else BUILTIN_DICT_MUTATORS


class RawWrite:
  def __init__(self, func: Func, call: ast.Call, slot: str, kind: str):
    self.func, self.call, self.slot, self.kind = func, call, slot, kind

  @property
  def loc(self):
    return f'{self.func.module.relpath}:{self.call.lineno}'

  def __repr__(self):
    return f'<raw {self.kind}.{self.slot} in {self.func.qualname}@{self.call.lineno}>'


def raw_writes_in(idx: Index, func: Func) -> List[RawWrite]:
  """Calls `list.M(self, ..)`, `dict.M(self, ..)`, `super().M(..)` with M a
  mutating slot resolving to the builtin base."""
  cls = idx.enclosing_class(func)
  if cls is None:
    return []
  kind = builtin_kind(idx, cls.fq)
  if kind is None:
    return []
  out = []
  muts = mutators_of(kind)
  for call in A.calls_in(func.node):
    n = A.call_name(call)
    if n is None:
      continue
    parts = n.split('.')
    if len(parts) != 2 or parts[1] not in muts:
      continue
    if parts[0] == 'super()':
      owner = idx.lookup_method_owner(cls.fq, parts[1], after=cls.fq)
      if owner == f'builtins.{kind}':
        out.append(RawWrite(func, call, parts[1], kind))
    elif parts[0] == kind and call.args and isinstance(call.args[0], ast.Name) \
        and call.args[0].id == 'self':
      out.append(RawWrite(func, call, parts[1], kind))
  return out


def all_raw_writes(idx: Index) -> List[RawWrite]:
  out = []
  for f in idx.all_funcs():
    out.extend(raw_writes_in(idx, f))
  return out


# ------------------------------------------------------------ self calls
def self_delegations(idx: Index, func: Func, node_exprs) -> List[Tuple[ast.AST, str, Optional[str]]]:
  """Delegations to methods of the same object found in the given AST roots:
  returns (site, method_name, receiver) for `self.m(...)`, `del self[i]`,
  `self[k] = v`, `self.x = v` (-> __setattr__ is NOT followed: private attrs).
  receiver is 'self' or 'self._sym_attributes'."""
  out = []
  for root in node_exprs:
    for n in A.walk_local(root):
      if isinstance(n, ast.Call):
        d = A.call_name(n)
        if d is None:
          continue
        parts = d.split('.')
        if parts[0] == 'self' and len(parts) == 2:
          out.append((n, parts[1], 'self'))
        elif parts[:2] == ['self', '_sym_attributes'] and len(parts) == 3:
          out.append((n, parts[2], 'self._sym_attributes'))
      elif isinstance(n, ast.Delete):
        for t in n.targets:
          if isinstance(t, ast.Subscript):
            r = A.dotted(t.value)
            if r in ('self', 'self._sym_attributes'):
              out.append((n, '__delitem__', r))
      elif isinstance(n, (ast.Assign, ast.AugAssign)):
        for t in A.stmt_targets(n):
          for tt in ([t] if not isinstance(t, (ast.Tuple, ast.List)) else t.elts):
            if isinstance(tt, ast.Subscript):
              r = A.dotted(tt.value)
              if r in ('self', 'self._sym_attributes'):
                out.append((n, '__setitem__', r))
  return out


class GuardAnalysis:
  """Interprocedural 'reachable before the guard' analysis.

  For a function F (analysed for a dynamic receiver class D): the set of
  *sinks* reachable from F's entry along a path on which no guard test
  `guard_fn(<recv>)` with a raising outcome has been passed.  Descends through
  same-object delegations (`self.m()`, `del self[i]`, `self[k] = v`, resolved
  in D's MRO) found in that pre-guard region (bounded depth, cycles cut).

  find_sinks(func, cfg_node) -> [(desc, loc, recv)] where recv is the textual
  receiver the guard must have been evaluated on ('self', 'parent_node', ...).
  """

  def __init__(self, idx: Index, guard_fn: str, find_sinks,
               descend: Callable[[str], bool] = lambda name: True,
               max_depth: int = 8, require_raise: Optional[str] = None,
               recv_alias: Optional[Dict[str, Tuple[str, ...]]] = None,
               test_matcher=None, bypass=None):
    self.idx = idx
    self.test_matcher = test_matcher   # (cfg node, recvs) -> bool
    self.bypass = bypass               # (cfg node, recvs) -> label | None
    self.guard_fn = guard_fn
    self.find_sinks = find_sinks
    self.descend = descend
    self.max_depth = max_depth
    self.require_raise = require_raise
    self.recv_alias = recv_alias or {}
    self.guards_seen: Set[Tuple[str, int]] = set()
    self.bound_hit = False
    self.visited: Set[str] = set()

  def guard_tests(self, g: C.CFG, recvs: Sequence[str]):
    """[(node, raising_label)] for guard tests on one of the receivers."""
    out = []
    for n in g.nodes:
      if n.kind != 'test':
        continue
      hit = False
      if self.test_matcher is not None:
        hit = self.test_matcher(n, recvs)
      else:
        for c in A.calls_in(n.ast):
          d = A.call_name(c)
          if d and d.split('.')[-1] == self.guard_fn and c.args:
            r = A.dotted(c.args[0])
            if r in recvs:
              hit = True
      if not hit:
        continue
      for lab in ('true', 'false'):
        if any(l == lab for _, l in n.succ) and g.always_raises_from(n, lab):
          if self.require_raise and not self._raises_named(g, n, lab):
            continue
          out.append((n, lab))
          break
    return out

  def _raises_named(self, g, node, lab) -> bool:
    for m, l in node.succ:
      if l != lab:
        continue
      seen, _ = g.reach(m)
      seen.add(m.id)
      for i in seen:
        k = g.nodes[i]
        if (k.kind == 'raisestmt' and isinstance(k.ast, ast.Raise)
            and k.ast.exc is not None
            and self.require_raise in A.unparse(k.ast.exc, 400)):
          return True
    return False

  def _guard_edges(self, g, recvs):
    gts = self.guard_tests(g, recvs)
    blocked = set()
    for n, lab in gts:
      other = 'false' if lab == 'true' else 'true'
      for m, l in n.succ:
        if l == other:
          blocked.add((n.id, m.id, l))
    if self.bypass is not None:
      for n in g.nodes:
        if n.kind == 'test':
          lab = self.bypass(n, recvs)
          if lab:
            for m, l in n.succ:
              if l == lab:
                blocked.add((n.id, m.id, l))
    return gts, blocked

  def _is_guard_helper(self, callee: Func, recvs, _depth=0) -> bool:
    """Does `callee` return normally only after a guard on `recvs` passed?
    (a helper that raises exactly where the inlined guard would raise)"""
    if _depth > 2:
      return False
    g = C.cfg_of(callee.node)
    gts, blocked = self._guard_edges(g, recvs)
    if not gts:
      return False
    seen, _ = g.reach(g.entry, blocked_edges=blocked, follow_exc=False)
    return g.exit.id not in seen

  def _guard_helper_calls(self, func: Func, g, recvs, dyn_cls=None):
    """CFG nodes of func that call a guard helper for one of the receivers."""
    out = set()
    cls = self.idx.enclosing_class(func)
    for n in g.nodes:
      if n.ast is None:
        continue
      for call in n.calls():
        d = A.call_name(call)
        if not d:
          continue
        callee = None
        callee_recvs = None
        parts = d.split('.')
        if parts[0] == 'self' and len(parts) == 2 and (dyn_cls or cls is not None):
          callee = self.idx.lookup_method(dyn_cls or cls.fq, parts[1])
          offset = 1
        else:
          r = self.idx.resolve_name_in_func(func, d, call)
          callee = self.idx.find_func(r) if r else None
          offset = 0
        if callee is None or callee is func:
          continue
        names = []
        if parts[0] == 'self' and 'self' in recvs:
          names.append('self')
        ps = A.param_names(callee.node)
        for i, a in enumerate(call.args):
          if (A.dotted(a) or '') in recvs and i + offset < len(ps):
            names.append(ps[i + offset])
        for kw in call.keywords:
          if kw.arg and (A.dotted(kw.value) or '') in recvs:
            names.append(kw.arg)
        if names and self._is_guard_helper(callee, tuple(names)):
          out.add(n.id)
          self.guards_seen.add((callee.fq, callee.node.lineno))
    return out

  def pre_guard_region(self, func: Func, recvs=('self',), dyn_cls=None):
    g = C.cfg_of(func.node)
    gts, blocked = self._guard_edges(g, recvs)
    helpers = self._guard_helper_calls(func, g, recvs, dyn_cls)
    seen, parent = g.reach(g.entry, blocked_nodes=helpers, blocked_edges=blocked,
                           follow_exc=False)
    for n, _ in gts:
      self.guards_seen.add((func.fq, n.lineno))
    return g, seen, parent

  def unguarded(self, func: Func, dyn_cls: Optional[str] = None, _stack=()):
    """Returns list of (chain [fq...], sink_desc, loc, witness)."""
    cls = self.idx.enclosing_class(func)
    if dyn_cls is None and cls is not None:
      dyn_cls = cls.fq
    key = func.fq
    if key in _stack:
      return []
    if len(_stack) >= self.max_depth:
      self.bound_hit = True
      return []
    self.visited.add(func.fq)
    regions = {}

    def region(recv):
      recvs = self.recv_alias.get(recv, (recv,))
      if recvs not in regions:
        regions[recvs] = self.pre_guard_region(func, recvs, dyn_cls)
      return regions[recvs]

    g, seen_self, parent_self = region('self')
    out = []
    for n in g.nodes:
      if n.ast is None:
        continue
      for desc, loc, recv in self.find_sinks(func, n):
        _, seen, parent = region(recv)
        if n.id in seen:
          out.append(([func.fq], desc, loc, g.witness_str(parent, n)))
      if dyn_cls is None or n.id not in seen_self:
        continue
      for site, meth, recv in self_delegations(self.idx, func, n.exprs()):
        if recv != 'self' or meth == PRIMITIVE or not self.descend(meth):
          continue
        callee = self.idx.lookup_method(dyn_cls, meth)
        if callee is None or callee is func:
          continue
        for chain, desc, loc, wit in self.unguarded(
            callee, dyn_cls, _stack + (key,)):
          out.append(([func.fq] + chain, desc, loc,
                      g.witness_str(parent_self, n) + ['->'] + wit))
    return out


def helper_closure(idx: Index, func: Func, depth: int = 1) -> List[Func]:
  """func plus the private helpers it calls directly (`self._x(...)`, nested
  defs, module-level `_x(...)`), so that a guard or step moved into a small
  helper at the same place is still seen."""
  out = [func]
  seen = {func.fq}
  frontier = [func]
  for _ in range(depth):
    nxt = []
    for f in frontier:
      cls = idx.enclosing_class(f)
      for call in A.calls_in(f.node):
        d = A.call_name(call)
        if not d:
          continue
        parts = d.split('.')
        callee = None
        if parts[0] in ('self', 'cls') and len(parts) == 2 and cls is not None:
          callee = idx.lookup_method(cls.fq, parts[1])
        elif len(parts) == 2 and cls is not None and parts[0] == cls.name:
          callee = idx.lookup_method(cls.fq, parts[1])    # Html._escape_str(...)
        elif len(parts) == 1:
          r = idx.resolve_name_in_func(f, d, call)
          callee = idx.find_func(r) if r else None
        if callee is None or callee.fq in seen:
          continue
        if not callee.name.startswith('_') and '<locals>' not in callee.qualname:
          continue
        seen.add(callee.fq)
        out.append(callee)
        nxt.append(callee)
    frontier = nxt
  return out


def closure_text(idx: Index, func: Func, limit: int = 40000) -> str:
  return '\n'.join(A.unparse(f.node, limit) for f in helper_closure(idx, func))


# ---------------------------------------------------------------------------
# Optional numbers / ids are tested with `is None`, never by truth value
# ---------------------------------------------------------------------------
def _optional_scalar_annotation(ann: str) -> bool:
  """Optional[int|float] / Union[None, int, str] style annotations: values for
  which 0 / 0.0 / '' are legitimate and different from "absent"."""
  if not ann:
    return False
  t = ann.replace(' ', '')
  if any(x in t for x in ('Callable', 'List[', 'Dict[', 'Set[', 'Sequence', 'Tuple[', 'Iterable', 'bool',
                          'Mapping', 'Iterator')):
    return False
  return ('Optional[' in t or 'None' in t) and any(x in t for x in ('int', 'float'))


def _optional_scalar_fields(idx: Index, cls) -> Set[str]:
  """Field names of a class (MRO inside the repository) that hold an optional
  number: annotated class attributes and `pg.members` / `pg.functor` style
  declarations `('name', pg.typing.Int(...).noneable() | Int(default=None))`."""
  out: Set[str] = set()
  for k in idx.mro(cls.fq):
    c = idx.find_class(k)
    if c is None:
      continue
    for s in c.node.body:
      if isinstance(s, ast.AnnAssign) and isinstance(s.target, ast.Name) and \
          _optional_scalar_annotation(A.unparse(s.annotation, 200)):
        out.add(s.target.id)
    for d in c.node.decorator_list:
      for t in ast.walk(d):
        if isinstance(t, ast.Tuple) and len(t.elts) >= 2 and A.const_str(t.elts[0]):
          spec = A.unparse(t.elts[1], 300)
          import re as _re
          if _re.match(r'^(\w+\.)*(Int|Float)\(', spec) and ('noneable' in spec or 'default=None' in spec):
            out.add(A.const_str(t.elts[0]))
  return out


def optional_truthiness_hits(idx: Index, relfiles: Sequence[str], sized_classes: Sequence[str] = ()):
  """[(func, lineno, expression, annotation/why)]: an optional number (a
  parameter annotated Optional[int|float]/Union[None,int,str], or such a field
  of the enclosing class read as self.<field>) used in boolean context
  (`if x`, `not x`, `x or d`, `x and ...`, conditional expression, filter)."""
  def truth_exprs(fn):
    out = []
    def truth(e, line):
      if isinstance(e, ast.Name):
        out.append((e.id, line, 'name'))
      elif isinstance(e, ast.Attribute) and isinstance(e.value, ast.Name) and e.value.id == 'self':
        out.append((e.attr, line, 'attr'))
      elif isinstance(e, ast.UnaryOp) and isinstance(e.op, ast.Not):
        truth(e.operand, line)
      elif isinstance(e, ast.BoolOp):
        for v in e.values:
          truth(v, line)
    for n in A.walk_local(fn):
      if isinstance(n, (ast.If, ast.While, ast.IfExp, ast.Assert)):
        truth(n.test, n.lineno)
      elif isinstance(n, ast.BoolOp):
        for v in (n.values[:-1] if isinstance(n.op, ast.Or) else n.values):
          truth(v, n.lineno)
      elif isinstance(n, ast.UnaryOp) and isinstance(n.op, ast.Not):
        truth(n.operand, n.lineno)
      elif isinstance(n, ast.comprehension):
        for c in n.ifs:
          truth(c, getattr(c, 'lineno', 0))
    return out
  hits = []
  nfuncs = 0
  for rel in relfiles:
    m = idx.by_relpath.get(rel)
    if m is None:
      continue
    for f in m.funcs.values():
      nfuncs += 1
      a = f.node.args
      ps = {p.arg: (A.unparse(p.annotation, 200) if p.annotation is not None else '')
            for p in a.posonlyargs + a.args + a.kwonlyargs}
      cls = idx.enclosing_class(f)
      fields = _optional_scalar_fields(idx, cls) if cls is not None else set()
      seen = set()
      for nm, line, kind in truth_exprs(f.node):
        if (nm, line) in seen:
          continue
        seen.add((nm, line))
        if kind == 'name' and _optional_scalar_annotation(ps.get(nm, '')):
          hits.append((f, line, nm, ps[nm]))
        elif kind == 'name' and sized_classes and ('Optional[' in ps.get(nm, '') or 'None' in ps.get(nm, '')) \
            and not any(x in ps.get(nm, '') for x in ('Callable', 'List[', 'Dict[', 'Set[', 'Sequence', 'Tuple[', 'Iterable',
                                                      'Mapping', 'Iterator')) \
            and any(re.search(r"(^|[^\w])%s([^\w]|$)" % c, ps.get(nm, '')) for c in sized_classes):
          # an optional object whose class defines __len__ / __bool__: an EMPTY one is falsy
          hits.append((f, line, nm, ps[nm]))
        elif kind == 'attr' and nm in fields:
          hits.append((f, line, 'self.' + nm, 'optional numeric field'))
  return hits, nfuncs


def optional_truthiness_obligations(ctx, rule_id: str, relfiles: Sequence[str], why: str,
                                    sized_classes: Sequence[str] = ()):
  """One obligation per file: no optional number - and no optional object of a class
  that defines __len__ (sized_classes: an empty one is falsy) - is used in
  boolean context."""
  idx = ctx.index
  for rel in relfiles:
    if rel not in idx.by_relpath:
      continue
    hits, nf = optional_truthiness_hits(idx, [rel], sized_classes)
    ctx.ob(rule_id, rel, not hits,
           'an optional number / id (Optional[int|float], noneable Int/Float field) is tested with `is None`, '
           'never by its truth value: ' + why, rel + ':1',
           '; '.join(f'{f.qualname}: `{e}` in boolean context (line {l})' for f, l, e, _ in hits) +
           ' - the legitimate value 0 is treated as "not given"')


# ---------------------------------------------------------------------------
# The type-check flag switches validation only
# ---------------------------------------------------------------------------

def typecheck_flag_obligations(ctx, rule: str, relpaths, floor: int = 1):
  """`flags.is_type_check_enabled()` decides whether a value is passed through
  `<spec>.apply(...)`; it never decides whether the value is stored, nor whether
  an argument is known.  For every `if` whose test consults the flag: the
  guarded branch consists of apply-assignments only, and the other branch does
  not raise (a branch `if spec and flag: ...store... elif ...: raise` turns
  "validation off" into "unknown argument")."""
  idx = ctx.index
  n = 0
  for rel in relpaths:
    m = idx.by_relpath.get(rel)
    if m is None:
      continue
    for f in m.funcs.values():
      for node in A.walk_local(f.node):
        if not isinstance(node, ast.If):
          continue
        if not any(isinstance(c, ast.Call) and (A.call_name(c) or '').endswith('is_type_check_enabled')
                   for c in ast.walk(node.test)):
          continue
        n += 1
        problems = []
        def is_apply(e):
          if isinstance(e, ast.Call) and isinstance(e.func, ast.Attribute) and e.func.attr == 'apply':
            return True
          if isinstance(e, (ast.ListComp, ast.GeneratorExp, ast.DictComp)):
            elt = e.value if isinstance(e, ast.DictComp) else e.elt
            return is_apply(elt)
          if isinstance(e, ast.Call) and A.call_name(e) in ('list', 'tuple', 'dict') and e.args:
            return is_apply(e.args[0])
          return False
        for st in node.body:
          if isinstance(st, ast.Expr) and (is_apply(st.value) or isinstance(st.value, ast.Constant)):
            continue
          if isinstance(st, ast.Assign) and is_apply(st.value) and all(isinstance(t, ast.Name) for t in st.targets):
            continue
          problems.append(f'line {st.lineno}: `{A.unparse(st, 60)}` happens only while type checking is enabled')
        for st in node.orelse:
          for x in ast.walk(st):
            if isinstance(x, ast.Raise):
              problems.append(f'line {x.lineno}: with type checking disabled the call raises '
                              f'`{A.unparse(x.exc, 50) if x.exc else "raise"}`')
        ctx.ob(rule, f'{f.fq}#typecheck-flag@{_norm_test(node.test)}', not problems,
               'the type-check flag only switches <spec>.apply(...) on and off: nothing else is stored, skipped or '
               'raised because of it', f'{m.relpath}:{node.lineno}', '; '.join(problems))
  if n < floor:
    raise AnalysisError(f'{rule}: only {n} tests of is_type_check_enabled() found (expected >= {floor})')


def _norm_test(t):
  return A.unparse(t, 60).replace(' ', '')


# ---------------------------------------------------------------------------
# Rejection census: acceptance routines keep their refusals
# ---------------------------------------------------------------------------

def _rejection_signature(t, fn=None):
  """What a rejecting test looks at: attribute names read + types demanded.  A
  local that is a plain copy of an attribute chain (`value = self._dna.value`)
  stands for that chain, so introducing or removing such a temporary does not
  change the class of the test."""
  from sa import dataflow as _D
  sig = {n.attr.lstrip('_') for n in ast.walk(t) if isinstance(n, ast.Attribute)}
  for c in ast.walk(t):
    if isinstance(c, ast.Call) and A.call_name(c) == 'isinstance' and len(c.args) == 2:
      sig.add('isinstance:' + A.unparse(c.args[1]))
  if fn is not None:
    receivers = {id(n.value) for n in ast.walk(t) if isinstance(n, ast.Attribute)}
    receivers |= {id(c.func) for c in ast.walk(t) if isinstance(c, ast.Call)}
    for n in ast.walk(t):
      if isinstance(n, ast.Name) and id(n) not in receivers:
        # a bare operand that is a plain copy of an attribute: the datum tested is that attribute
        defs = [v for _, v in _D.defs_of(fn, n.id)]
        if defs and all(isinstance(v, ast.Attribute) for v in defs):
          sig |= {v.attr.lstrip('_') for v in defs}
  exprs = [t]
  # method names of calls are attributes too, but say nothing about WHAT is tested
  for e in exprs:
    for c in ast.walk(e):
      if isinstance(c, ast.Call) and isinstance(c.func, ast.Attribute):
        sig.discard(c.func.attr.lstrip('_'))
        sig.add('call:' + c.func.attr.lstrip('_'))
  return tuple(sorted(sig))


def _bool_leaves(e):
  if isinstance(e, ast.BoolOp):
    out = []
    for v in e.values:
      out += _bool_leaves(v)
    return out
  if isinstance(e, ast.UnaryOp) and isinstance(e.op, ast.Not):
    return _bool_leaves(e.operand)
  return [e]


def _quantified(e):
  """elt of `all(<genexp>)` / `any(<genexp>)` (also a list comprehension), or None."""
  if isinstance(e, ast.Call) and A.call_name(e) in ('all', 'any') and e.args \
      and isinstance(e.args[0], (ast.GeneratorExp, ast.ListComp)):
    return e.args[0].elt
  return None


def rejection_counts(idx: Index, f: Func, compat: bool = False, depth: int = 2):
  """{signature: count} of the atomic rejecting tests of f and of the private
  helpers it calls (two levels).  A test rejects when one of its outcomes always
  raises; in a compatibility predicate also when it leads straight to
  `return False`, and the conditions quantified by `return all(...)` /
  `return any(...)` / `if any(...): return False` count like the tests of the
  loop they replace."""
  import collections
  from sa import cfg as _C
  cnt = collections.Counter()
  seen = set()
  for h in [f] + [x for x in helper_closure(idx, f, depth=depth) if x is not f]:
    if h.fq in seen:
      continue
    seen.add(h.fq)
    g = _C.cfg_of(h.node)
    for k in g.nodes:
      if k.kind == 'return' and compat and k.ast.value is not None:
        q = _quantified(k.ast.value)
        if q is not None:
          for leaf in _bool_leaves(q):
            sg = _rejection_signature(leaf, h.node)
            if sg:
              cnt[sg] += 1
        continue
      if k.kind != 'test':
        continue
      rej = any(g.always_raises_from(k, lab) for lab in ('true', 'false') if any(l == lab for _, l in k.succ))
      if not rej and compat:
        rej = any(m.kind == 'return' and m.ast.value is not None and A.unparse(m.ast.value) == 'False' for m, _ in k.succ)
      if rej:
        q = _quantified(k.ast)
        leaves = _bool_leaves(q) if q is not None else [k.ast]
        for leaf in leaves:
          sg = _rejection_signature(leaf, h.node)
          if sg:
            cnt[sg] += 1
  return cnt


def rejection_census_obligations(ctx, rule: str, table, compat_names=('_is_compatible', 'is_compatible'), floor: int = 1):
  """For every function of the committed census: for each class of rejection the
  number of rejecting tests has not dropped.  Classes are by what the test looks
  at (attributes read, types demanded) - regrouping with and/or, moving a guard
  into a helper, renaming locals, flipping a comparison leave them unchanged; a
  guard whose `raise` is gone lowers a count."""
  idx = ctx.index
  n = 0
  for fq, ref in sorted(table.items()):
    f = idx.func(fq)
    cnt = rejection_counts(idx, f, compat=f.name in compat_names)
    for sg, want in sorted(ref.items()):
      n += 1
      have = cnt.get(sg, 0)
      ctx.ob(rule, f'{fq}#rejects:{"+".join(sg)}', have >= want,
             f'{f.qualname} keeps its {want} refusal(s) that look at {{{", ".join(sg)}}}', f.loc,
             f'only {have} of {want} rejecting tests on {{{", ".join(sg)}}} are left: something that was refused is now '
             f'accepted')
  if n < floor:
    raise AnalysisError(f'{rule}: only {n} rejection classes checked (expected >= {floor})')


def list_sweep_function(idx: Index):
  """The List method that executes the removals requested through the MISSING
  marker: found by role (raw list.__delitem__ + a comparison with MISSING_VALUE
  in one method), whatever it is called."""
  c = idx.cls(LIST)
  cands = []
  for m in c.methods.values():
    raw = any(A.call_name(x) == 'list.__delitem__' for x in A.calls_in(m.node))
    cmpm = any(isinstance(n, ast.Compare) and 'MISSING_VALUE' in A.unparse(n) for n in ast.walk(m.node))
    if raw and cmpm and m.name != PRIMITIVE:
      cands.append(m)
  if len(cands) != 1:
    raise AnalysisError(f'List: {len(cands)} methods sweep MISSING placeholders (expected 1)')
  return cands[0]
