"""Statement-level control-flow graph with short-circuit desugaring.

* `and` / `or` / `not` in branch tests are desugared so that every atomic test
  is its own node with a 'true' and a 'false' out-edge.
* `finally` bodies are duplicated per way of leaving the `try` (normal,
  exceptional, return/break/continue).
* every node that may raise has an 'exc' edge to the innermost handler pad /
  the exceptional exit.

Path questions are answered by reachability with blocked nodes / edges:
  - P dominates Q            <=> Q unreachable from entry once P-nodes blocked
  - every path A -> exit passes P <=> exit unreachable from A with P blocked
Both return a witness path when they fail.
"""
from __future__ import annotations

import ast
from typing import Callable, Dict, Iterable, List, Optional, Sequence, Set, Tuple

from sa import astutil as A


class Node:
  __slots__ = ('id', 'kind', 'ast', 'succ', 'withs', 'trys', 'ctx', 'loops')

  def __init__(self, nid, kind, node, withs, trys, ctx, loops):
    self.id = nid
    self.kind = kind       # entry exit raise test stmt return raisestmt yield
                           # with iter loophead break continue def except pad
    self.ast = node
    self.succ: List[Tuple['Node', str]] = []
    self.withs = tuple(withs)   # enclosing ast.With nodes (outer..inner)
    self.trys = tuple(trys)     # (ast.Try, 'body'|'handler'|'else'|'finally')
    self.ctx = ctx
    self.loops = tuple(loops)

  @property
  def lineno(self):
    return getattr(self.ast, 'lineno', 0)

  def exprs(self):
    """AST roots evaluated *at this node* (not the bodies of compound stmts)."""
    a = self.ast
    if a is None or self.kind in ('loophead', 'def', 'pad', 'break', 'continue'):
      return []
    if self.kind == 'iter':
      return [a.iter, a.target]
    if self.kind == 'with':
      out = []
      for it in a.items:
        out.append(it.context_expr)
        if it.optional_vars is not None:
          out.append(it.optional_vars)
      return out
    if self.kind == 'except':
      return [a.type] if a.type is not None else []
    if self.kind == 'return':
      return [a.value] if a.value is not None else []
    if self.kind == 'raisestmt':
      if isinstance(a, ast.Assert):
        return [a.msg] if a.msg is not None else []
      return [x for x in (a.exc, a.cause) if x is not None]
    return [a]

  def calls(self):
    for e in self.exprs():
      yield from A.calls_in(e)

  def __repr__(self):
    return f'<{self.id}:{self.kind}@{self.lineno}:{A.unparse(self.ast, 50)}>'


class CFG:

  def __init__(self, fn: ast.AST):
    self.fn = fn
    self.nodes: List[Node] = []
    self._withs: List[ast.AST] = []
    self._trys: List[Tuple[ast.Try, str]] = []
    self._loopstack: List[ast.AST] = []
    self.entry = self._new('entry', None)
    self.exit = self._new('exit', None)
    self.raise_exit = self._new('raise', None)
    self._handlers = [self.raise_exit]
    self._bool_temps = self._find_bool_temps(fn)
    self._inlining: List[str] = []
    self._handler_depth: Dict[int, int] = {}
    self._finallies: List[Tuple[ast.Try, list]] = []
    self._loops = []
    body = fn.body if not isinstance(fn, ast.Lambda) else [ast.Return(value=fn.body)]
    tails = self._block(body, [(self.entry, 'next')])
    self._connect(tails, self.exit)

  # ------------------------------------------------------------ building
  @staticmethod
  def _find_bool_temps(fn):
    """Locals assigned exactly once to a boolean-valued expression:
    `ok = a and b` ... `if ok:` is analysed as `if a and b:` (named-boolean
    refactorings stay transparent).  Returns {name: (value, def_line,
    {free name: [assignment lines]})}; a use site may inline the temp only if
    no free name is re-assigned between the definition and the use."""
    if isinstance(fn, ast.Lambda):
      return {}
    lines: Dict[str, List[int]] = {}
    values: Dict[str, ast.AST] = {}
    params = set()
    a = fn.args
    for p in a.posonlyargs + a.args + a.kwonlyargs:
      params.add(p.arg)
    if a.vararg:
      params.add(a.vararg.arg)
    if a.kwarg:
      params.add(a.kwarg.arg)
    def note(nm, ln, simple=None):
      lines.setdefault(nm, []).append(ln)
      if simple is not None:
        values[nm] = simple
    for n in A.walk_local(fn):
      if isinstance(n, ast.Assign):
        for t in n.targets:
          for nm in A.assigned_names(t):
            note(nm, n.lineno, n.value if isinstance(t, ast.Name) else None)
      elif isinstance(n, (ast.AugAssign, ast.AnnAssign)):
        for nm in A.assigned_names(n.target):
          note(nm, n.lineno)
          note(nm, n.lineno)
      elif isinstance(n, (ast.For, ast.AsyncFor)):
        for nm in A.assigned_names(n.target):
          note(nm, n.lineno)
          note(nm, n.lineno)
      elif isinstance(n, ast.comprehension):
        for nm in A.assigned_names(n.target):
          note(nm, getattr(n.target, 'lineno', 0))
          note(nm, getattr(n.target, 'lineno', 0))
      elif isinstance(n, (ast.With, ast.AsyncWith)):
        for it in n.items:
          if it.optional_vars is not None:
            for nm in A.assigned_names(it.optional_vars):
              note(nm, n.lineno)
              note(nm, n.lineno)
      elif isinstance(n, ast.NamedExpr) and isinstance(n.target, ast.Name):
        note(n.target.id, n.lineno)
        note(n.target.id, n.lineno)
    out = {}
    for nm, v in values.items():
      if len(lines.get(nm, [])) != 1 or nm in params:
        continue
      if not isinstance(v, (ast.Compare, ast.BoolOp)) and not (
          isinstance(v, ast.UnaryOp) and isinstance(v.op, ast.Not)):
        continue
      free = {x.id for x in ast.walk(v) if isinstance(x, ast.Name)}
      out[nm] = (v, lines[nm][0], {x: lines.get(x, []) for x in free})
    return out

  def _inlinable(self, name, use_line) -> bool:
    v, def_line, free = self._bool_temps[name]
    in_loop = bool(self._loopstack)
    # definition and use in the same iteration of the innermost loop: only
    # assignments between the two matter (the loop header re-binds its targets
    # before the definition is executed again)
    same_iter = False
    if in_loop:
      lp = self._loopstack[-1]
      body = getattr(lp, 'body', [])
      if body and body[0].lineno <= def_line <= max(getattr(b, 'end_lineno', b.lineno) for b in body):
        same_iter = True
    for x, lns in free.items():
      if same_iter:
        if any(def_line < ln < use_line for ln in lns):
          return False
        continue
      if in_loop and len(lns) > 1:
        return False
      if any(def_line < ln < use_line or (in_loop and ln >= use_line) for ln in lns):
        return False
    return True

  def _new(self, kind, node) -> Node:
    n = Node(len(self.nodes), kind, node, self._withs, self._trys, None,
             self._loopstack)
    self.nodes.append(n)
    return n

  def _connect(self, tails, target):
    for n, lab in tails:
      n.succ.append((target, lab))

  @staticmethod
  def may_raise(node) -> bool:
    for x in A.walk_local(node):
      if isinstance(x, (ast.Call, ast.Subscript, ast.Raise, ast.Yield,
                        ast.YieldFrom, ast.Await, ast.Attribute, ast.BinOp,
                        ast.Compare, ast.Assert)):
        return True
    return False

  def _cond(self, expr, tails):
    if isinstance(expr, ast.BoolOp):
      if isinstance(expr.op, ast.And):
        cur, falses = tails, []
        for v in expr.values:
          t, f = self._cond(v, cur)
          falses += f
          cur = t
        return cur, falses
      cur, trues = tails, []
      for v in expr.values:
        t, f = self._cond(v, cur)
        trues += t
        cur = f
      return trues, cur
    if isinstance(expr, ast.UnaryOp) and isinstance(expr.op, ast.Not):
      t, f = self._cond(expr.operand, tails)
      return f, t
    if (isinstance(expr, ast.Name) and expr.id in self._bool_temps
        and expr.id not in self._inlining and len(self._inlining) < 3
        and self._inlinable(expr.id, getattr(expr, 'lineno', 0))):
      self._inlining.append(expr.id)
      try:
        return self._cond(self._bool_temps[expr.id][0], tails)
      finally:
        self._inlining.pop()
    n = self._new('test', expr)
    self._connect(tails, n)
    if self.may_raise(expr):
      n.succ.append((self._handlers[-1], 'exc'))
    return [(n, 'true')], [(n, 'false')]

  def _run_finallies(self, tails, down_to):
    for i in range(len(self._finallies) - 1, down_to - 1, -1):
      trynode, body = self._finallies[i]
      saved_f, saved_h, saved_t = self._finallies, self._handlers, self._trys
      self._finallies = self._finallies[:i]
      # handlers: exceptions inside a finally go to whatever encloses the try
      self._handlers = self._handlers[:self._handler_depth[id(trynode)]]
      self._trys = [t for t in self._trys if t[0] is not trynode] + [(trynode, 'finally')]
      tails = self._block(body, tails)
      self._finallies, self._handlers, self._trys = saved_f, saved_h, saved_t
    return tails

  def _block(self, stmts, tails):
    for s in stmts:
      tails = self._stmt(s, tails)
    return tails

  def _stmt(self, s, tails):
    if isinstance(s, ast.If):
      t, f = self._cond(s.test, tails)
      t = self._block(s.body, t)
      f = self._block(s.orelse, f)
      return t + f
    if isinstance(s, ast.While):
      head = self._new('loophead', s)
      self._connect(tails, head)
      self._loopstack = self._loopstack + [s]
      t, f = self._cond(s.test, [(head, 'next')])
      brk = []
      self._loops.append((head, brk, len(self._finallies)))
      body_t = self._block(s.body, t)
      self._loops.pop()
      self._connect(body_t, head)
      self._loopstack = self._loopstack[:-1]
      f = self._block(s.orelse, f)
      return f + brk
    if isinstance(s, (ast.For, ast.AsyncFor)):
      it = self._new('iter', s)
      self._connect(tails, it)
      it.succ.append((self._handlers[-1], 'exc'))
      brk = []
      self._loopstack = self._loopstack + [s]
      self._loops.append((it, brk, len(self._finallies)))
      body_t = self._block(s.body, [(it, 'true')])
      self._loops.pop()
      self._connect(body_t, it)
      self._loopstack = self._loopstack[:-1]
      f = self._block(s.orelse, [(it, 'false')])
      return f + brk
    if isinstance(s, (ast.With, ast.AsyncWith)):
      n = self._new('with', s)
      self._connect(tails, n)
      n.succ.append((self._handlers[-1], 'exc'))
      self._withs = self._withs + [s]
      t = self._block(s.body, [(n, 'next')])
      self._withs = self._withs[:-1]
      return t
    if isinstance(s, ast.Try) or type(s).__name__ == 'TryStar':
      return self._try(s, tails)
    if isinstance(s, ast.Return):
      n = self._new('return', s)
      self._connect(tails, n)
      if s.value is not None and self.may_raise(s.value):
        n.succ.append((self._handlers[-1], 'exc'))
      t = self._run_finallies([(n, 'next')], 0)
      self._connect(t, self.exit)
      return []
    if isinstance(s, ast.Raise):
      n = self._new('raisestmt', s)
      self._connect(tails, n)
      n.succ.append((self._handlers[-1], 'exc'))
      return []
    if isinstance(s, ast.Break):
      n = self._new('break', s)
      self._connect(tails, n)
      _, brk, depth = self._loops[-1]
      brk.extend(self._run_finallies([(n, 'next')], depth))
      return []
    if isinstance(s, ast.Continue):
      n = self._new('continue', s)
      self._connect(tails, n)
      head, _, depth = self._loops[-1]
      self._connect(self._run_finallies([(n, 'next')], depth), head)
      return []
    if isinstance(s, (ast.FunctionDef, ast.AsyncFunctionDef, ast.ClassDef)):
      n = self._new('def', s)
      self._connect(tails, n)
      return [(n, 'next')]
    if type(s).__name__ == 'Match':
      n = self._new('stmt', s.subject)
      self._connect(tails, n)
      n.succ.append((self._handlers[-1], 'exc'))
      out = [(n, 'nomatch')]
      for case in s.cases:
        out += self._block(case.body, [(n, 'case')])
      return out
    if isinstance(s, ast.Assert):
      n = self._new('test', s.test)
      self._connect(tails, n)
      n.succ.append((self._handlers[-1], 'exc'))
      r = self._new('raisestmt', s)
      n.succ.append((r, 'false'))
      r.succ.append((self._handlers[-1], 'exc'))
      return [(n, 'true')]
    kind = 'stmt'
    if any(isinstance(x, (ast.Yield, ast.YieldFrom)) for x in A.walk_local(s)):
      kind = 'yield'
    n = self._new(kind, s)
    self._connect(tails, n)
    if self.may_raise(s):
      n.succ.append((self._handlers[-1], 'exc'))
    return [(n, 'next')]

  def _try(self, s, tails):
    has_finally = bool(s.finalbody)
    saved_trys = self._trys
    pad = self._new('pad', s)
    self._handler_depth[id(s)] = len(self._handlers)
    if has_finally:
      self._finallies.append((s, s.finalbody))
    self._handlers.append(pad)
    self._trys = saved_trys + [(s, 'body')]
    body_t = self._block(s.body, tails)
    self._handlers.pop()
    self._trys = saved_trys + [(s, 'else')]
    body_t = self._block(s.orelse, body_t)
    unhandled = [(pad, 'exc')]
    # exceptions raised inside handlers: go to finally (if any) then outward
    if has_finally:
      hpad = self._new('pad', s)
      self._handlers.append(hpad)
    self._trys = saved_trys + [(s, 'handler')]
    for h in s.handlers:
      hn = self._new('except', h)
      pad.succ.append((hn, 'next'))
      body_t = body_t + self._block(h.body, [(hn, 'next')])
      if h.type is None or (isinstance(h.type, ast.Name)
                            and h.type.id == 'BaseException'):
        unhandled = []
    if has_finally:
      self._handlers.pop()
      unhandled = unhandled + [(hpad, 'exc')]
      self._finallies.pop()
      self._trys = saved_trys + [(s, 'finally')]
      after = self._block(s.finalbody, body_t)
      ft = self._block(s.finalbody, unhandled)
      self._connect(ft, self._handlers[-1])
    else:
      after = body_t
      self._connect(unhandled, self._handlers[-1])
    self._trys = saved_trys
    return after

  # ------------------------------------------------------------- queries
  def _flag_names(self):
    """Locals that are tested as a bare name (`if flag:` / `if not flag:`):
    their truth value is fixed between two assignments, so two tests of the
    same flag cannot take opposite branches on one path."""
    fl = getattr(self, '_flags', None)
    if fl is None:
      fl = {n.ast.id for n in self.nodes if n.kind == 'test' and isinstance(n.ast, ast.Name)}
      self._flags = fl
    return fl

  def reach(self, start: Node, blocked_nodes: Iterable[int] = (),
            blocked_edges: Iterable[Tuple[int, int, str]] = (),
            follow_exc: bool = True):
    """Nodes reachable from start.  Path-sensitive on boolean flag locals
    only: a path that takes the true branch of `if flag:` and later the false
    branch of another `if flag:` with no assignment to `flag` in between is
    infeasible and not followed (the one correlation the repository's code
    relies on: `should_insert`, `copied`, `has_error` ...).  Returns the set
    of reachable node ids and a parent map for witnesses."""
    blocked_nodes = set(blocked_nodes)
    blocked_edges = set(blocked_edges)
    flags = self._flag_names()
    if not flags:
      return self._reach_plain(start, blocked_nodes, blocked_edges, follow_exc)
    from sa import dataflow as _D
    seen = {start.id}
    parent: Dict[int, int] = {}
    seen_states = {(start.id, ())}
    q = [(start, ())]
    budget = 200000
    while q:
      n, st = q.pop()
      budget -= 1
      if budget < 0:
        # state explosion: fall back to the path-insensitive answer (superset)
        return self._reach_plain(start, blocked_nodes, blocked_edges, follow_exc)
      known = dict(st)
      for nm, v in _D.node_defs(n).items():
        if nm in flags:
          if isinstance(v, ast.Constant) and isinstance(v.value, bool):
            known[nm] = v.value
          else:
            known.pop(nm, None)
      for m, lab in n.succ:
        if not follow_exc and lab == 'exc' and n.kind not in ('pad', 'raisestmt'):
          continue
        if m.id in blocked_nodes or (n.id, m.id, lab) in blocked_edges:
          continue
        k2 = known
        if n.kind == 'test' and isinstance(n.ast, ast.Name) and n.ast.id in flags and lab in ('true', 'false'):
          val = lab == 'true'
          if n.ast.id in known and known[n.ast.id] != val:
            continue
          k2 = dict(known)
          k2[n.ast.id] = val
        st2 = tuple(sorted(k2.items()))
        if (m.id, st2) in seen_states:
          continue
        seen_states.add((m.id, st2))
        if m.id not in seen:
          seen.add(m.id)
          parent[m.id] = n.id
        q.append((m, st2))
    return seen, parent

  def _reach_plain(self, start, blocked_nodes, blocked_edges, follow_exc):
    seen = {start.id}
    parent: Dict[int, int] = {}
    q = [start]
    while q:
      n = q.pop()
      for m, lab in n.succ:
        if not follow_exc and lab == 'exc' and n.kind not in ('pad', 'raisestmt'):
          continue
        if (m.id in blocked_nodes or (n.id, m.id, lab) in blocked_edges
            or m.id in seen):
          continue
        seen.add(m.id)
        parent[m.id] = n.id
        q.append(m)
    return seen, parent

  def witness(self, parent: Dict[int, int], target: Node) -> List[Node]:
    p = [target.id]
    while p[-1] in parent:
      p.append(parent[p[-1]])
    return [self.nodes[i] for i in reversed(p)]

  def witness_str(self, parent, target) -> List[str]:
    return [f'{n.kind}@{n.lineno}' for n in self.witness(parent, target)
            if n.kind not in ('pad',)]

  def nodes_where(self, pred: Callable[[Node], bool]) -> List[Node]:
    return [n for n in self.nodes if n.ast is not None and pred(n)]

  def stmt_nodes(self) -> List[Node]:
    return [n for n in self.nodes if n.kind in
            ('stmt', 'return', 'test', 'iter', 'with', 'yield', 'raisestmt')]

  def guard_edges(self, is_guard_test: Callable[[Node], bool],
                  raising_outcome: str = 'true'):
    """Edges to block so that only paths on which the guard would have raised
    remain blocked: for each guard test node, the edge of the non-raising
    outcome."""
    other = 'false' if raising_outcome == 'true' else 'true'
    edges = set()
    guards = []
    for n in self.nodes:
      if n.kind == 'test' and is_guard_test(n):
        guards.append(n)
        for m, lab in n.succ:
          if lab == other:
            edges.add((n.id, m.id, lab))
    return guards, edges

  def always_raises_from(self, node: Node, label: str) -> bool:
    """True if taking edge `label` out of node can never reach normal exit."""
    for m, lab in node.succ:
      if lab == label:
        seen, _ = self.reach(m)
        if self.exit.id in seen or m is self.exit:
          return False
    return True

  def unguarded(self, targets: Sequence[Node],
                is_guard_test: Callable[[Node], bool],
                raising_outcome: str = 'true'):
    """Returns [(target, witness)] for targets reachable from entry without
    passing the non-raising edge of a guard test."""
    guards, edges = self.guard_edges(is_guard_test, raising_outcome)
    seen, parent = self.reach(self.entry, blocked_edges=edges)
    out = []
    for t in targets:
      if t.id in seen:
        out.append((t, self.witness_str(parent, t)))
    return out, guards

  def can_skip(self, start: Node, pass_pred: Callable[[Node], bool],
               to: Optional[Node] = None, follow_exc: bool = False):
    """Is there a path start -> `to` (default normal exit) avoiding every node
    satisfying pass_pred?  Returns witness or None."""
    to = to or self.exit
    blocked = {n.id for n in self.nodes if n.ast is not None and n is not start
               and pass_pred(n)}
    seen, parent = self.reach(start, blocked_nodes=blocked,
                              follow_exc=follow_exc)
    if to.id in seen:
      return self.witness_str(parent, to)
    return None

  def in_with(self, node: Node, pred: Callable[[ast.AST], bool]) -> bool:
    for w in node.withs:
      for item in w.items:
        if pred(item.context_expr):
          return True
    return False


_CACHE: Dict[int, CFG] = {}


def cfg_of(fn_node: ast.AST) -> CFG:
  k = id(fn_node)
  g = _CACHE.get(k)
  if g is None or g.fn is not fn_node:
    g = CFG(fn_node)
    _CACHE[k] = g
  return g
