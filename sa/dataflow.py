"""Light intra-procedural def-use helpers (flow-insensitive unless noted)."""
from __future__ import annotations

import ast
from typing import Dict, List, Optional, Set, Tuple

from sa import astutil as A


def defs_of(fn: ast.AST, name: str) -> List[Tuple[ast.AST, Optional[ast.AST]]]:
  """All local definitions of `name` in fn: (defining stmt, value expr).

  value is the RHS for plain assignment; for tuple-unpacking the whole RHS;
  for loop/with/comprehension targets the iterated/with expression; None for
  parameters (stmt = the arguments node)."""
  out = []
  if isinstance(fn, A.FuncDef) and name in A.param_names(fn):
    out.append((fn.args, None))
  for n in A.walk_local(fn):
    if isinstance(n, ast.Assign):
      for t in n.targets:
        if name in A.assigned_names(t):
          out.append((n, n.value))
    elif isinstance(n, (ast.AugAssign, ast.AnnAssign)):
      if name in A.assigned_names(n.target) and n.value is not None:
        out.append((n, n.value))
    elif isinstance(n, (ast.For, ast.AsyncFor)):
      if name in A.assigned_names(n.target):
        out.append((n, n.iter))
    elif isinstance(n, (ast.With, ast.AsyncWith)):
      for it in n.items:
        if it.optional_vars is not None and name in A.assigned_names(it.optional_vars):
          out.append((n, it.context_expr))
    elif isinstance(n, ast.comprehension):
      if name in A.assigned_names(n.target):
        out.append((n, n.iter))
    elif isinstance(n, ast.NamedExpr):
      if isinstance(n.target, ast.Name) and n.target.id == name:
        out.append((n, n.value))
    elif isinstance(n, ast.ExceptHandler):
      if n.name == name:
        out.append((n, n.type))
  return out


def backward_slice_names(fn: ast.AST, roots: Set[str], max_iter: int = 20
                         ) -> Tuple[Set[str], List[ast.AST]]:
  """Names (and the value expressions) that `roots` transitively depend on,
  through local assignments (flow-insensitive over-approximation)."""
  names = set(roots)
  exprs: List[ast.AST] = []
  seen_stmt = set()
  for _ in range(max_iter):
    changed = False
    for nm in list(names):
      for stmt, val in defs_of(fn, nm):
        if id(stmt) in seen_stmt or val is None:
          continue
        seen_stmt.add(id(stmt))
        exprs.append(val)
        new = A.names_read(val) - names
        if new:
          names |= new
          changed = True
    if not changed:
      break
  return names, exprs


def derives_from_call(fn: ast.AST, expr: ast.AST, pred, depth: int = 4) -> bool:
  """Does `expr` derive — on *every* local definition — from a call whose
  dotted name satisfies pred?  (expr itself a matching call, or a Name all of
  whose definitions derive so.)"""
  if isinstance(expr, ast.Call):
    n = A.call_name(expr)
    if n is not None and pred(n):
      return True
    return False
  if isinstance(expr, ast.Name) and depth > 0:
    ds = defs_of(fn, expr.id)
    vals = [v for _, v in ds]
    if not vals or any(v is None for v in vals):
      return False
    return all(derives_from_call(fn, v, pred, depth - 1) for v in vals)
  if isinstance(expr, ast.IfExp):
    return (derives_from_call(fn, expr.body, pred, depth)
            and derives_from_call(fn, expr.orelse, pred, depth))
  return False


def may_derive_from_call(fn: ast.AST, expr: ast.AST, pred, depth: int = 5) -> bool:
  """Some definition path leads to a matching call (existential variant)."""
  for n in A.walk_local(expr):
    if isinstance(n, ast.Call):
      d = A.call_name(n)
      if d is not None and pred(d):
        return True
  if depth <= 0:
    return False
  for nm in A.names_read(expr):
    for _, v in defs_of(fn, nm):
      if v is not None and may_derive_from_call(fn, v, pred, depth - 1):
        return True
  return False


# ---------------------------------------------------------------- CFG based
def node_defs(node) -> Dict[str, Optional[ast.AST]]:
  """Names defined at a CFG node -> value expression (whole RHS)."""
  a = node.ast
  out: Dict[str, Optional[ast.AST]] = {}
  if a is None:
    return out
  if node.kind in ('stmt', 'yield'):
    if isinstance(a, ast.Assign):
      for t in a.targets:
        for nm in A.assigned_names(t):
          out[nm] = a.value
    elif isinstance(a, ast.AugAssign):
      for nm in A.assigned_names(a.target):
        b = ast.BinOp(left=ast.Name(id=nm, ctx=ast.Load()), op=a.op, right=a.value)
        out[nm] = ast.copy_location(b, a)
    elif isinstance(a, ast.AnnAssign):
      for nm in A.assigned_names(a.target):
        out[nm] = a.value
    elif isinstance(a, ast.Delete):
      for t in a.targets:
        if isinstance(t, ast.Name):
          out[t.id] = None
    for n in A.walk_local(a):
      if isinstance(n, ast.NamedExpr) and isinstance(n.target, ast.Name):
        out[n.target.id] = n.value
  elif node.kind == 'iter':
    for nm in A.assigned_names(a.target):
      out[nm] = a.iter
  elif node.kind == 'with':
    for it in a.items:
      if it.optional_vars is not None:
        for nm in A.assigned_names(it.optional_vars):
          out[nm] = it.context_expr
  elif node.kind == 'except':
    if a.name:
      out[a.name] = a.type
  elif node.kind == 'test':
    for n in A.walk_local(a):
      if isinstance(n, ast.NamedExpr) and isinstance(n.target, ast.Name):
        out[n.target.id] = n.value
  return out


def predecessors(g):
  pred: Dict[int, List[int]] = {n.id: [] for n in g.nodes}
  for n in g.nodes:
    for m, lab in n.succ:
      pred[m.id].append(n.id)
  return pred


def reaching_defs(g, use_node, name: str):
  """CFG nodes whose definition of `name` reaches use_node (plus 'param' when
  the entry is reached without a definition)."""
  pred = getattr(g, '_pred', None)
  if pred is None:
    pred = predecessors(g)
    g._pred = pred
  out = []
  seen = set()
  stack = list(pred[use_node.id])
  while stack:
    i = stack.pop()
    if i in seen:
      continue
    seen.add(i)
    n = g.nodes[i]
    d = node_defs(n)
    if name in d:
      out.append((n, d[name]))
      continue
    if n is g.entry:
      out.append((n, None))
      continue
    stack.extend(pred[i])
  return out


def derives_from_call_at(g, fn, use_node, expr, pred, depth: int = 4) -> bool:
  """Flow-sensitive variant of derives_from_call: every definition of the
  expression's name that *reaches use_node* is a matching call."""
  if isinstance(expr, ast.Call):
    n = A.call_name(expr)
    return n is not None and pred(n)
  if isinstance(expr, ast.IfExp):
    return (derives_from_call_at(g, fn, use_node, expr.body, pred, depth)
            and derives_from_call_at(g, fn, use_node, expr.orelse, pred, depth))
  if isinstance(expr, ast.Name) and depth > 0:
    rds = reaching_defs(g, use_node, expr.id)
    if not rds:
      return False
    for dn, val in rds:
      if val is None:
        return False
      if not derives_from_call_at(g, fn, dn, val, pred, depth - 1):
        return False
    return True
  return False


def reaching_defs_flagaware(g, use_node, name: str, max_states: int = 20000):
  """Definitions of `name` reaching use_node along *feasible* paths, where
  feasibility prunes branches on boolean flag locals that were assigned
  constants (`copied = True` ... `if not copied:`).  Returns a list of
  (def_node | None, value_expr | None); None def = parameter/undefined."""
  # boolean flags: locals only ever assigned True/False constants
  flag_vals: Dict[str, bool] = {}
  assigned: Dict[str, List[Optional[ast.AST]]] = {}
  for n in g.nodes:
    for nm, v in node_defs(n).items():
      assigned.setdefault(nm, []).append(v)
  flags = {nm for nm, vs in assigned.items()
           if vs and all(isinstance(v, ast.Constant) and isinstance(v.value, bool) for v in vs)}
  out = {}
  seen = set()
  stack = [(g.entry, (), None)]
  count = 0
  while stack:
    node, fstate, cur = stack.pop()
    key = (node.id, fstate, cur)
    if key in seen:
      continue
    seen.add(key)
    count += 1
    if count > max_states:
      raise RuntimeError('flag-aware reaching definitions: state bound exceeded')
    if node is use_node:
      out[cur] = True
      continue
    fs = dict(fstate)
    d = node_defs(node)
    for nm, v in d.items():
      if nm in flags and isinstance(v, ast.Constant):
        fs[nm] = v.value
    if name in d:
      cur = node.id
    nstate = tuple(sorted(fs.items()))
    for m, lab in node.succ:
      if lab == 'exc' and node.kind not in ('pad', 'raisestmt'):
        continue
      if node.kind == 'test' and isinstance(node.ast, ast.Name) and node.ast.id in fs:
        want = fs[node.ast.id]
        if (lab == 'true') != want:
          continue
      stack.append((m, nstate, cur))
  res = []
  for cur in out:
    if cur is None:
      res.append((None, None))
    else:
      dn = g.nodes[cur]
      res.append((dn, node_defs(dn).get(name)))
  return res
