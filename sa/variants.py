"""Thorough tier: two-way self-test of the checker on source variants.

Each variant is a single edit of one function, computed on the AST (the
function is unparsed to canonical text, one snippet is replaced, the result is
re-parsed and spliced back) and analysed through the in-memory overlay of the
index.  Nothing is written into /repo and nothing is executed.

  kind 'fire'   : the edit breaks a rule's necessary condition; the check must
                  report a NEW violation of that rule naming that construct.
  kind 'silent' : the edit preserves behaviour (rename a local, helper that
                  raises on all paths, early-return vs if-form, reorder
                  independent statements); the check must report nothing new.
"""
from __future__ import annotations

import ast
import multiprocessing as mp
import os
import random
import traceback

from sa import index as I
from sa import report as R
from sa import variant_table as T


class NotApplicable(Exception):
  pass


def apply_edit(base: I.Index, relfile: str, qualname: str, old: str, new: str,
               count: int = 1, more=None) -> str:
  m = base.by_relpath.get(relfile)
  if m is None:
    raise NotApplicable(f'no such file {relfile}')
  tree = ast.parse(m.src)
  if qualname == '<module>':
    src = ast.unparse(tree)
    if src.count(old) < 1:
      raise NotApplicable(f'snippet not found in module {relfile}')
    return src.replace(old, new, count if count > 0 else -1)
  parts = qualname.split('.')
  body = tree.body
  node = None
  parent_body = None
  for p in parts:
    found = None
    for n in body:
      if isinstance(n, (ast.FunctionDef, ast.AsyncFunctionDef, ast.ClassDef)) and n.name == p:
        found = n
    if found is None:
      # nested function anywhere below
      for n in ast.walk(node if node is not None else tree):
        if isinstance(n, (ast.FunctionDef, ast.AsyncFunctionDef, ast.ClassDef)) and n.name == p and n is not node:
          found = n
          break
    if found is None:
      raise NotApplicable(f'{qualname} not found in {relfile}')
    parent_body, node, body = body, found, found.body
  text = ast.unparse(node)
  if text.count(old) < 1:
    raise NotApplicable(f'snippet not found in {qualname}: {old[:40]!r}')
  text2 = text.replace(old, new, count if count > 0 else -1)
  for o2, n2 in (more or []):
    if text2.count(o2) < 1:
      raise NotApplicable(f'snippet not found in {qualname}: {o2[:40]!r}')
    text2 = text2.replace(o2, n2)
  try:
    newnode = ast.parse(text2).body[0]
  except SyntaxError as e:
    raise NotApplicable(f'edit does not parse: {e}')
  # splice
  for holder in ast.walk(tree):
    for field in ('body', 'orelse', 'finalbody'):
      lst = getattr(holder, field, None)
      if isinstance(lst, list):
        for i, x in enumerate(lst):
          if x is node:
            lst[i] = newnode
            return ast.unparse(ast.fix_missing_locations(tree))
  raise NotApplicable('could not splice the edited function')


def _violation_keys(ctx):
  return {(o.rule, o.construct) for o in ctx.obs if not o.ok and not o.info}


def _run_one(args):
  prop, v, root = args
  if v.get('kind') == 'rename-all':
    return _run_rename_all(args)
  from sa import cli
  res = dict(name=v['name'], expect=v['kind'], file=v['file'], function=v['function'],
             edit=dict(old=v['old'][:120], new=v['new'][:120]))
  try:
    base = I.load(root)
    mod = cli.load_rules(prop)
    try:
      src = apply_edit(base, v['file'], v['function'], v['old'], v['new'], v.get('count', 1), v.get('more'))
    except NotApplicable as e:
      res.update(outcome='not-applicable', detail=str(e))
      return res
    vidx = I.variant(base, {v['file']: src})
    bctx = R.Ctx(base, prop)
    mod.run(bctx)
    bkeys = _violation_keys(bctx)
    try:
      vctx = cli.run_rules(mod, vidx, prop)
      vkeys = _violation_keys(vctx)
      err = None
    except I.AnalysisError as e:
      vkeys, err = set(), str(e)
    new = sorted(vkeys - bkeys)
    res['new_violations'] = [f'{r} {c}' for r, c in new][:6]
    if v['kind'] == 'fire':
      rule, sub = v['expect']
      hit = [k for k in new if k[0] == rule and sub in k[1]]
      already = [k for k in bkeys if k[0] == rule and sub in k[1]]
      if hit:
        res['outcome'] = 'as-expected'
      elif already:
        res['outcome'] = 'already-firing'
      elif err:
        res.update(outcome='analysis-error-instead-of-violation', detail=err)
      else:
        res['outcome'] = 'MISSED'
    else:
      if err:
        res.update(outcome='FALSE-ANALYSIS-ERROR', detail=err)
      elif new:
        res['outcome'] = 'FALSE-ALARM'
      else:
        res['outcome'] = 'as-expected'
  except Exception as e:  # pylint: disable=broad-except
    res.update(outcome='internal-error', detail=traceback.format_exc()[-400:])
  return res


def _run_rename_all(args):
  """Whole-tree must-stay-silent variants: one behaviour-preserving rewrite is
  applied to every function of every module - all function-local names renamed
  (sa/rename.py) or one of the syntactic transforms of sa/transforms.py (the
  pinned suite passes on each such tree).  Expected: no new violation, no analysis error and
  the same number of obligations per rule (a rule that keys on a local's name
  would silently lose its instances)."""
  prop, v, root = args
  from sa import cli
  from sa import rename as RN
  from sa import transforms as TR
  which = (v or {}).get('transform', 'rename-locals')
  res = dict(name='whole-tree:' + which, expect='silent', file='<every module>', function='<every function>',
             edit=dict(old='<see sa/rename.py, sa/transforms.py>', new=which))
  try:
    base = I.load(root)
    mod = cli.load_rules(prop)
    overlay = {}
    for rel, m in base.by_relpath.items():
      if rel.endswith('_test.py'):
        continue
      try:
        overlay[rel] = (RN.rename_source(m.src, rel) if which == 'rename-locals'
                        else TR.transform_source(m.src, which))[0]
      except Exception:   # pylint: disable=broad-except
        continue
    vidx = I.variant(base, overlay)
    bctx = R.Ctx(base, prop)
    mod.run(bctx)
    strip = lambda c: c.replace('_rn', '')
    bkeys = {(r, strip(c)) for r, c in _violation_keys(bctx)}
    def counts(ctx):
      out = {}
      for o in ctx.obs:
        if not o.info:
          out[o.rule] = out.get(o.rule, 0) + 1
      return out
    try:
      vctx = cli.run_rules(mod, vidx, prop)
    except I.AnalysisError as e:
      res.update(outcome='FALSE-ANALYSIS-ERROR', detail=str(e))
      return res
    vviol = {(o.rule, o.construct) for o in vctx.obs if not o.ok and not o.info}
    # constructs that quote source text differ by the suffix (and by where the text is cut)
    new = sorted(k for k in vviol if (k[0], strip(k[1])) not in bkeys
                 and not any(k[0] == b[0] and strip(k[1])[:60] == b[1][:60] for b in bkeys))
    res['new_violations'] = [f'{r} {c}' for r, c in new][:6]
    bc, vc = counts(bctx), counts(vctx)
    lost = {r: (bc[r], vc.get(r, 0)) for r in bc if vc.get(r, 0) < bc[r]}   # new helper functions may add rows
    if new:
      res['outcome'] = 'FALSE-ALARM'
    elif lost:
      res.update(outcome='COVERAGE-DEPENDS-ON-LOCAL-NAMES', detail=str(lost))
    else:
      res['outcome'] = 'as-expected'
    res['modules_renamed'] = len(overlay)
  except Exception:  # pylint: disable=broad-except
    res.update(outcome='internal-error', detail=traceback.format_exc()[-400:])
  return res


def run_variants(mod, idx, prop, ctx, seed):
  variants = list(T.VARIANTS.get(prop, []))
  rnd = random.Random(seed)
  rnd.shuffle(variants)
  jobs = [(prop, v, idx.root) for v in variants]
  from sa import transforms as TR
  for which in ['rename-locals'] + sorted(TR.TRANSFORMS):
    jobs.append((prop, dict(name='whole-tree:' + which, kind='rename-all', transform=which), idx.root))
  n = min(16, len(jobs), os.cpu_count() or 4)
  if n <= 1:
    return [_run_one(j) for j in jobs]
  with mp.get_context('fork').Pool(n) as pool:
    out = pool.map(_run_one, jobs)
  return sorted(out, key=lambda r: r['name'])
