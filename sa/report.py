"""Obligations, findings, evidence and the known-findings file."""
from __future__ import annotations

import dataclasses
import json
import os
import re
import time
from typing import Any, Dict, List, Optional

VERIF = os.path.dirname(os.path.dirname(os.path.abspath(__file__)))
KNOWN_FILE = os.path.join(VERIF, 'known_findings.jsonl')


@dataclasses.dataclass
class Ob:
  """One obligation: a rule instantiated at one construct."""
  rule: str
  construct: str
  ok: bool
  what: str
  loc: str = ''
  detail: str = ''
  witness: Any = None
  info: bool = False     # information only (never a violation)

  @property
  def prop(self) -> str:
    return self.rule.split('.')[0]

  def key(self):
    return (self.prop, self.rule, self.construct)

  def to_json(self):
    d = dict(rule=self.rule, construct=self.construct,
             status='info' if self.info else ('ok' if self.ok else 'VIOLATED'),
             obligation=self.what, loc=self.loc)
    if self.detail:
      d['detail'] = self.detail
    if self.witness is not None:
      d['witness'] = self.witness
    return d


class Ctx:
  """Collects obligations for one property run."""

  def __init__(self, index, prop: str):
    self.index = index
    self.prop = prop
    self.obs: List[Ob] = []
    self.notes: List[str] = []
    self.assumptions: List[str] = []
    self.consulted: set = set()

  def ob(self, rule, construct, ok, what, loc='', detail='', witness=None):
    o = Ob(rule, construct, bool(ok), what, loc, detail if not ok else '',
           witness if not ok else None)
    self.obs.append(o)
    return o

  def info(self, rule, construct, what, loc=''):
    self.obs.append(Ob(rule, construct, True, what, loc, info=True))

  def note(self, s):
    self.notes.append(s)

  def assume(self, s):
    if s not in self.assumptions:
      self.assumptions.append(s)

  def consult(self, *relpaths):
    self.consulted.update(relpaths)


def load_known() -> List[Dict[str, Any]]:
  out = []
  if os.path.exists(KNOWN_FILE):
    with open(KNOWN_FILE) as f:
      for line in f:
        line = line.strip()
        if line and not line.startswith('#'):
          out.append(json.loads(line))
  return out


def known_index(known=None):
  known = load_known() if known is None else known
  return {(k['property'], k['rule'], k['construct']): k for k in known
          if k.get('status') == 'known'}


def sanitize(s: str) -> str:
  return re.sub(r'[^A-Za-z0-9_.-]+', '_', s)[:150]


def write_replay(prop: str, ob: Ob, index) -> str:
  d = os.path.join(VERIF, 'replay', prop)
  os.makedirs(d, exist_ok=True)
  p = os.path.join(d, sanitize(f'{ob.rule}-{ob.construct}') + '.json')
  relfile = ob.loc.split(':')[0] if ob.loc else ''
  rec = dict(property=prop, rule=ob.rule, construct=ob.construct,
             obligation=ob.what, loc=ob.loc, detail=ob.detail,
             witness=ob.witness,
             file_digest=index.digest([relfile]) if relfile else None,
             replay_cmd=f'./check {prop} --replay {p}')
  with open(p, 'w') as f:
    json.dump(rec, f, indent=1, default=str)
  return p


def write_evidence(prop: str, tier: str, seed: int, ctx: Ctx, stats, wall: float,
                   n_viol: int, explanation: str, extra: Optional[dict] = None,
                   known_hits=None):
  d = os.path.join(VERIF, 'evidence')
  os.makedirs(d, exist_ok=True)
  real = [o for o in ctx.obs if not o.info]
  constructs = {(o.rule, o.construct) for o in real}
  by_rule: Dict[str, Dict[str, int]] = {}
  for o in ctx.obs:
    r = by_rule.setdefault(o.rule, dict(obligations=0, ok=0, violated=0, info=0))
    if o.info:
      r['info'] += 1
    else:
      r['obligations'] += 1
      r['ok' if o.ok else 'violated'] += 1
  # samples: every violated obligation + first two ok obligations per rule
  samples = []
  seen: Dict[str, int] = {}
  for o in ctx.obs:
    if not o.ok and not o.info:
      samples.append(o.to_json())
  for o in ctx.obs:
    if o.ok and not o.info:
      if seen.get(o.rule, 0) < 2:
        seen[o.rule] = seen.get(o.rule, 0) + 1
        samples.append(o.to_json())
  cov = dict(
      explanation=explanation,
      evaluations=len(real),
      distinct_nontrivial=len(constructs),
      rule=('one obligation = one named structural rule instantiated at one '
            'construct (function / call site / table row) discovered in '
            '/repo on this run; distinct = distinct (rule, construct) pairs; '
            'information-only rows are not counted'),
      samples=samples,
      rules=by_rule,
      analysed=stats,
      consulted_files=sorted(ctx.consulted),
      consulted_digest=ctx.index.digest(ctx.consulted),
      notes=ctx.notes,
      known_findings_reported=known_hits or [],
  )
  if extra:
    cov.update(extra)
  ev = dict(property_id=prop, tier=tier, seed=seed, level='other',
            coverage=cov, assumptions=ctx.assumptions,
            wall_s=round(wall, 3), violations=n_viol)
  p = os.path.join(d, f'{prop}.json')
  tmp = f'{p}.{os.getpid()}.tmp'   # unique: two runs of one property may overlap
  with open(tmp, 'w') as f:
    json.dump(ev, f, indent=1, default=str)
  os.replace(tmp, p)
  return p
