"""Normal form of function bodies (applied by the index to every module).

The rules are stated over a canonical shape of the code, so that spellings
that mean the same are analysed alike.  Every rewrite below preserves
behaviour (same evaluation order, values and exceptions); original node
objects - and their line numbers - are kept wherever possible, so reports
still point into the file as it is on disk.

  N1  single-use temporary feeding the very next statement:
        X = E ; return X          ->  return E
        X = E ; if X: ...         ->  if E: ...          (also `if not X:`)
      when X is a plain local assigned exactly once in the function and read
      exactly once (in that next statement).  Nothing is evaluated between the
      assignment and the use, so the order of evaluation is unchanged.
  N2  negated two-armed conditional:
        if not T: B  else: A      ->  if T: A  else: B
      (both arms non-empty, else-arm not an `elif` chain).
  N3  nested one-armed conditionals:
        if a:                     ->  if a and b: X
          if b: X
      (no else on either; `and` evaluates b only when a holds, as the nesting does).
  N4  else after an arm that cannot fall through:
        if T: ...return           ->  if T: ...return
        else: B                       B
      (`return` / `raise` / `continue` / `break` as last statement of the arm).
  N6  `T = T op <number>`         ->  `T op= <number>`   (T a name or an attribute of a name)
  N7  `X = []` ; `for v in IT: [if C:] X.append(E)`  ->  `X = [E for v in IT if C]`
      (loop variables not used outside the loop; X not read by IT, C or E).
  N5  guard helpers: a call statement `_h(a, b)` / `self._h(a)` / a nested
      `_h()` whose callee (private; same function, same class or same module;
      defined once) consists only of `if T: raise E` statements, has plain
      positional parameters and no locals, and whose arguments are names,
      attribute chains or constants, is replaced by the callee's guards with
      the parameters substituted.  (A guard moved into such a helper and
      called at the same place is the same guard.)  The helper is resolved
      within the class body it is called from: an override in a subclass
      outside that body is not seen - stated limit.
"""
import ast


def _name_stats(fn):
  """name -> [stores, loads] inside fn, nested scopes included (a nested
  reader counts as a use, so such a temp is never inlined)."""
  stats = {}
  for n in ast.walk(fn):
    if isinstance(n, ast.Name):
      s = stats.setdefault(n.id, [0, 0])
      if isinstance(n.ctx, ast.Store):
        s[0] += 1
      else:
        s[1] += 1
    elif isinstance(n, (ast.Global, ast.Nonlocal)):
      for nm in n.names:
        stats.setdefault(nm, [0, 0])[0] += 2
    elif isinstance(n, ast.arg):
      stats.setdefault(n.arg, [0, 0])[0] += 2      # parameters are never temps
    elif isinstance(n, ast.ExceptHandler) and n.name:
      stats.setdefault(n.name, [0, 0])[0] += 2
  return stats


def _single_name_target(st):
  return (isinstance(st, ast.Assign) and len(st.targets) == 1 and isinstance(st.targets[0], ast.Name)
          and not isinstance(st.value, (ast.Yield, ast.YieldFrom, ast.Await)))


def _norm_block(stmts, stats):
  # N1 and N4 enable each other (a flattened else-arm exposes `X = E; if X:`):
  # iterate to a fixpoint at this level, then descend
  prev = None
  cur = list(stmts)
  while prev is None or len(prev) != len(cur) or any(a is not b for a, b in zip(prev, cur)):
    prev = cur
    cur = _flatten_else(_inline_temps(cur, stats))
  out = cur
  return _descend(out, stats)


def _count_loads(node, name):
  return sum(1 for n in ast.walk(node) if isinstance(n, ast.Name) and n.id == name and isinstance(n.ctx, ast.Load))


def _as_listcomp(init, loop, stats):
  """N7: `X = []` ; `for v in IT: [if C:] X.append(E)`  ->  `X = [E for v in IT if C]`."""
  if not (_single_name_target(init) and isinstance(init.value, ast.List) and not init.value.elts):
    return None
  if not (isinstance(loop, ast.For) and not loop.orelse and len(loop.body) == 1):
    return None
  x = init.targets[0].id
  inner = loop.body[0]
  cond = []
  if isinstance(inner, ast.If) and not inner.orelse and len(inner.body) == 1:
    cond = [inner.test]
    inner = inner.body[0]
  if not (isinstance(inner, ast.Expr) and isinstance(inner.value, ast.Call) and isinstance(inner.value.func, ast.Attribute)
          and inner.value.func.attr == 'append' and isinstance(inner.value.func.value, ast.Name)
          and inner.value.func.value.id == x and len(inner.value.args) == 1 and not inner.value.keywords):
    return None
  elt = inner.value.args[0]
  parts = [elt, loop.iter] + cond
  bad = (ast.NamedExpr, ast.Yield, ast.YieldFrom, ast.Await, ast.Lambda)
  if any(isinstance(n, bad) for e in parts for n in ast.walk(e)):
    return None
  if any(_count_loads(e, x) for e in parts):
    return None
  # the loop variables must not be used outside the loop (a comprehension keeps them private)
  for n in ast.walk(loop.target):
    if isinstance(n, ast.Name):
      st_ = stats.get(n.id)
      inside = _count_loads(loop, n.id)
      if st_ is None or st_[0] != 1 or st_[1] != inside:
        return None
    elif not isinstance(n, (ast.Tuple, ast.List, ast.Store, ast.Load)):
      return None
  comp = ast.ListComp(elt=elt, generators=[ast.comprehension(target=loop.target, iter=loop.iter, ifs=cond, is_async=0)])
  init.value = ast.copy_location(comp, loop)
  return init


def _inline_temps(stmts, stats):
  out = []
  i = 0
  while i < len(stmts):
    st = stmts[i]
    nxt = stmts[i + 1] if i + 1 < len(stmts) else None
    # N6: `T = T op <number>` -> `T op= <number>`
    if isinstance(st, ast.Assign) and len(st.targets) == 1 and isinstance(st.value, ast.BinOp) \
        and isinstance(st.value.right, ast.Constant) and isinstance(st.value.right.value, (int, float)) \
        and not isinstance(st.value.right.value, bool) \
        and (isinstance(st.targets[0], ast.Name) or (isinstance(st.targets[0], ast.Attribute)
                                                     and isinstance(st.targets[0].value, ast.Name))) \
        and ast.unparse(st.value.left) == ast.unparse(st.targets[0]):
      st = ast.copy_location(ast.AugAssign(target=st.targets[0], op=st.value.op, value=st.value.right), st)
    if nxt is not None:
      merged = _as_listcomp(st, nxt, stats)
      if merged is not None:
        out.append(merged)
        i += 2
        continue
    if nxt is not None and _single_name_target(st):
      x = st.targets[0].id
      if stats.get(x) == [1, 1]:
        if isinstance(nxt, ast.Return) and isinstance(nxt.value, ast.Name) and nxt.value.id == x:
          nxt.value = st.value
          i += 1
          continue
        if isinstance(nxt, ast.If):
          t = nxt.test
          if isinstance(t, ast.Name) and t.id == x:
            nxt.test = st.value
            i += 1
            continue
          if isinstance(t, ast.UnaryOp) and isinstance(t.op, ast.Not) and isinstance(t.operand, ast.Name) \
              and t.operand.id == x:
            t.operand = st.value
            i += 1
            continue
    out.append(st)
    i += 1
  return out


def _descend(out, stats):
  for st in out:
    if isinstance(st, (ast.FunctionDef, ast.AsyncFunctionDef, ast.ClassDef)):
      continue
    for fld in ('body', 'orelse', 'finalbody'):
      sub = getattr(st, fld, None)
      if isinstance(sub, list) and sub and all(isinstance(x, ast.stmt) for x in sub):
        setattr(st, fld, _norm_block(sub, stats))
    if isinstance(st, ast.Try):
      for h in st.handlers:
        h.body = _norm_block(h.body, stats)
    if hasattr(ast, 'Match') and isinstance(st, ast.Match):
      for c in st.cases:
        c.body = _norm_block(c.body, stats)
    # N3 (after the arms were normalised): nested one-armed conditionals
    while isinstance(st, ast.If) and not st.orelse and len(st.body) == 1 and isinstance(st.body[0], ast.If) \
        and not st.body[0].orelse:
      inner = st.body[0]
      vals = (st.test.values if isinstance(st.test, ast.BoolOp) and isinstance(st.test.op, ast.And) else [st.test]) + \
             (inner.test.values if isinstance(inner.test, ast.BoolOp) and isinstance(inner.test.op, ast.And) else [inner.test])
      st.test = ast.copy_location(ast.BoolOp(op=ast.And(), values=list(vals)), st.test)
      st.body = inner.body
    # N2 (after the arms were normalised)
    if isinstance(st, ast.If) and st.body and st.orelse \
        and isinstance(st.test, ast.UnaryOp) and isinstance(st.test.op, ast.Not) \
        and not (len(st.orelse) == 1 and isinstance(st.orelse[0], ast.If)):
      st.test = st.test.operand
      st.body, st.orelse = st.orelse, st.body
  return out


def _terminates(stmts):
  return bool(stmts) and isinstance(stmts[-1], (ast.Return, ast.Raise, ast.Continue, ast.Break))


def _flatten_else(stmts):
  """N4: `if T: ...<return|raise|continue|break>  else: B`  ->  `if T: ...` ; B
  (an `elif` chain of terminating arms becomes a sequence of one-armed ifs)."""
  out = []
  for st in stmts:
    out.append(st)
    while isinstance(out[-1], ast.If) and out[-1].orelse and _terminates(out[-1].body):
      cur = out[-1]
      tail, cur.orelse = cur.orelse, []
      out.extend(tail)
      # a flattened `elif` is itself an If at the end of `out` only if it was the single tail stmt
      if not (len(tail) == 1):
        break
  return out


# ---------------------------------------------------------------------------
# N5: guard helpers are inlined at their call sites
# ---------------------------------------------------------------------------

def _guard_body(fn):
  """The statements of a guard-only helper (optional docstring, then one or more
  `if T: raise E` without else), or None."""
  body = list(fn.body)
  if body and isinstance(body[0], ast.Expr) and isinstance(body[0].value, ast.Constant) \
      and isinstance(body[0].value.value, str):
    body = body[1:]
  if not body:
    return None
  for st in body:
    if not (isinstance(st, ast.If) and not st.orelse and len(st.body) == 1 and isinstance(st.body[0], ast.Raise)
            and st.body[0].exc is not None):
      return None
  a = fn.args
  if a.vararg or a.kwarg or a.kwonlyargs or a.defaults or a.posonlyargs:
    return None
  params = [x.arg for x in a.args]
  for n in ast.walk(fn):
    if isinstance(n, ast.Name) and isinstance(n.ctx, (ast.Store, ast.Del)):
      return None                     # a helper with locals of its own is not a pure guard
    if isinstance(n, (ast.NamedExpr, ast.Lambda, ast.Yield, ast.YieldFrom, ast.Await, ast.Global, ast.Nonlocal,
                      ast.ListComp, ast.SetComp, ast.DictComp, ast.GeneratorExp)):
      return None
  if fn.decorator_list and not all(isinstance(d, ast.Name) and d.id == 'staticmethod' for d in fn.decorator_list):
    return None
  return params, body


class _Subst(ast.NodeTransformer):

  def __init__(self, mapping):
    self.mapping = mapping

  def visit_Name(self, node):
    if isinstance(node.ctx, ast.Load) and node.id in self.mapping:
      import copy
      return ast.copy_location(copy.deepcopy(self.mapping[node.id]), node)
    return node


def _pure_arg(e):
  if isinstance(e, (ast.Name, ast.Constant)):
    return True
  if isinstance(e, ast.Attribute):
    return _pure_arg(e.value)
  return False


def _inline_guard_helpers(tree):
  import copy
  module_helpers = {}
  for st in tree.body:
    if isinstance(st, ast.FunctionDef) and st.name.startswith('_'):
      gb = _guard_body(st)
      if gb is not None:
        module_helpers[st.name] = gb
  # a name defined twice at module level is not a stable helper
  seen = {}
  for st in tree.body:
    if isinstance(st, (ast.FunctionDef, ast.AsyncFunctionDef, ast.ClassDef)):
      seen[st.name] = seen.get(st.name, 0) + 1
  module_helpers = {k: v for k, v in module_helpers.items() if seen.get(k) == 1}

  def expand(call, scope_helpers, class_helpers):
    f = call.func
    if call.keywords or not all(_pure_arg(a) for a in call.args):
      return None
    if isinstance(f, ast.Name):
      gb = scope_helpers.get(f.id) or module_helpers.get(f.id)
      args = list(call.args)
    elif isinstance(f, ast.Attribute) and isinstance(f.value, ast.Name) and f.value.id in ('self', 'cls') \
        and f.attr.startswith('_') and not f.attr.startswith('__'):
      gb = class_helpers.get(f.attr)
      if gb is not None and gb[2] != 'static':
        args = [f.value] + list(call.args)
      else:
        args = list(call.args)
      gb = gb[:2] if gb is not None else None
    else:
      return None
    if gb is None:
      return None
    params, body = gb
    if len(params) != len(args):
      return None
    sub = _Subst(dict(zip(params, args)))
    return [sub.visit(copy.deepcopy(st)) for st in body]

  def rewrite(stmts, scope_helpers, class_helpers):
    out = []
    for st in stmts:
      if isinstance(st, ast.Expr) and isinstance(st.value, ast.Call):
        ex = expand(st.value, scope_helpers, class_helpers)
        if ex is not None:
          out.extend(ex)
          continue
      out.append(st)
    return out

  def visit_function(fn, class_helpers):
    scope_helpers = {}
    for st in fn.body:
      if isinstance(st, ast.FunctionDef):
        gb = _guard_body(st)
        if gb is not None:
          scope_helpers[st.name] = gb
    def walk_block(stmts):
      stmts = rewrite(stmts, scope_helpers, class_helpers)
      for st in stmts:
        if isinstance(st, (ast.FunctionDef, ast.AsyncFunctionDef)):
          visit_function(st, class_helpers)
          continue
        if isinstance(st, ast.ClassDef):
          visit_class(st)
          continue
        for fld in ('body', 'orelse', 'finalbody'):
          sub = getattr(st, fld, None)
          if isinstance(sub, list) and sub and all(isinstance(x, ast.stmt) for x in sub):
            setattr(st, fld, walk_block(sub))
        if isinstance(st, ast.Try):
          for h in st.handlers:
            h.body = walk_block(h.body)
      return stmts
    fn.body = walk_block(fn.body)

  def visit_class(cls):
    helpers = {}
    for st in cls.body:
      if isinstance(st, ast.FunctionDef) and st.name.startswith('_') and not st.name.startswith('__'):
        gb = _guard_body(st)
        if gb is not None:
          kind = 'static' if st.decorator_list else 'method'
          helpers[st.name] = (gb[0], gb[1], kind)
    for st in cls.body:
      if isinstance(st, (ast.FunctionDef, ast.AsyncFunctionDef)):
        visit_function(st, helpers)
      elif isinstance(st, ast.ClassDef):
        visit_class(st)

  for st in tree.body:
    if isinstance(st, (ast.FunctionDef, ast.AsyncFunctionDef)):
      visit_function(st, {})
    elif isinstance(st, ast.ClassDef):
      visit_class(st)


def normalize(tree):
  """In-place normalisation of every function of a module tree."""
  _inline_guard_helpers(tree)
  for fn in ast.walk(tree):
    if isinstance(fn, (ast.FunctionDef, ast.AsyncFunctionDef)):
      stats = _name_stats(fn)
      fn.body = _norm_block(fn.body, stats)
  return tree
