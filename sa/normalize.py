"""Normal form of function bodies (applied by the index to every module).

The rules are stated over a canonical shape of the code, so that spellings
that mean the same are analysed alike.  Every rewrite below preserves
behaviour (same evaluation order, values and exceptions); original node
objects - and their line numbers - are kept wherever possible, so reports
still point into the file as it is on disk.

  N1  single-use temporary feeding the very next statement:
        X = E ; return X          ->  return E
        X = E ; if X: ...         ->  if E: ...          (also `if not X:`)
      when X is a plain local assigned exactly once in the function and read
      exactly once (in that next statement).  Nothing is evaluated between the
      assignment and the use, so the order of evaluation is unchanged.
  N2  negated two-armed conditional:
        if not T: B  else: A      ->  if T: A  else: B
      (both arms non-empty, else-arm not an `elif` chain).
  N3  nested one-armed conditionals:
        if a:                     ->  if a and b: X
          if b: X
      (no else on either; `and` evaluates b only when a holds, as the nesting does).
  N4  else after an arm that cannot fall through:
        if T: ...return           ->  if T: ...return
        else: B                       B
      (`return` / `raise` / `continue` / `break` as last statement of the arm).
"""
import ast


def _name_stats(fn):
  """name -> [stores, loads] inside fn, nested scopes included (a nested
  reader counts as a use, so such a temp is never inlined)."""
  stats = {}
  for n in ast.walk(fn):
    if isinstance(n, ast.Name):
      s = stats.setdefault(n.id, [0, 0])
      if isinstance(n.ctx, ast.Store):
        s[0] += 1
      else:
        s[1] += 1
    elif isinstance(n, (ast.Global, ast.Nonlocal)):
      for nm in n.names:
        stats.setdefault(nm, [0, 0])[0] += 2
    elif isinstance(n, ast.arg):
      stats.setdefault(n.arg, [0, 0])[0] += 2      # parameters are never temps
    elif isinstance(n, ast.ExceptHandler) and n.name:
      stats.setdefault(n.name, [0, 0])[0] += 2
  return stats


def _single_name_target(st):
  return (isinstance(st, ast.Assign) and len(st.targets) == 1 and isinstance(st.targets[0], ast.Name)
          and not isinstance(st.value, (ast.Yield, ast.YieldFrom, ast.Await)))


def _norm_block(stmts, stats):
  # N1 and N4 enable each other (a flattened else-arm exposes `X = E; if X:`):
  # iterate to a fixpoint at this level, then descend
  prev = None
  cur = list(stmts)
  while prev is None or len(prev) != len(cur) or any(a is not b for a, b in zip(prev, cur)):
    prev = cur
    cur = _flatten_else(_inline_temps(cur, stats))
  out = cur
  return _descend(out, stats)


def _inline_temps(stmts, stats):
  out = []
  i = 0
  while i < len(stmts):
    st = stmts[i]
    nxt = stmts[i + 1] if i + 1 < len(stmts) else None
    if nxt is not None and _single_name_target(st):
      x = st.targets[0].id
      if stats.get(x) == [1, 1]:
        if isinstance(nxt, ast.Return) and isinstance(nxt.value, ast.Name) and nxt.value.id == x:
          nxt.value = st.value
          i += 1
          continue
        if isinstance(nxt, ast.If):
          t = nxt.test
          if isinstance(t, ast.Name) and t.id == x:
            nxt.test = st.value
            i += 1
            continue
          if isinstance(t, ast.UnaryOp) and isinstance(t.op, ast.Not) and isinstance(t.operand, ast.Name) \
              and t.operand.id == x:
            t.operand = st.value
            i += 1
            continue
    out.append(st)
    i += 1
  return out


def _descend(out, stats):
  for st in out:
    if isinstance(st, (ast.FunctionDef, ast.AsyncFunctionDef, ast.ClassDef)):
      continue
    for fld in ('body', 'orelse', 'finalbody'):
      sub = getattr(st, fld, None)
      if isinstance(sub, list) and sub and all(isinstance(x, ast.stmt) for x in sub):
        setattr(st, fld, _norm_block(sub, stats))
    if isinstance(st, ast.Try):
      for h in st.handlers:
        h.body = _norm_block(h.body, stats)
    if hasattr(ast, 'Match') and isinstance(st, ast.Match):
      for c in st.cases:
        c.body = _norm_block(c.body, stats)
    # N3 (after the arms were normalised): nested one-armed conditionals
    while isinstance(st, ast.If) and not st.orelse and len(st.body) == 1 and isinstance(st.body[0], ast.If) \
        and not st.body[0].orelse:
      inner = st.body[0]
      vals = (st.test.values if isinstance(st.test, ast.BoolOp) and isinstance(st.test.op, ast.And) else [st.test]) + \
             (inner.test.values if isinstance(inner.test, ast.BoolOp) and isinstance(inner.test.op, ast.And) else [inner.test])
      st.test = ast.copy_location(ast.BoolOp(op=ast.And(), values=list(vals)), st.test)
      st.body = inner.body
    # N2 (after the arms were normalised)
    if isinstance(st, ast.If) and st.body and st.orelse \
        and isinstance(st.test, ast.UnaryOp) and isinstance(st.test.op, ast.Not) \
        and not (len(st.orelse) == 1 and isinstance(st.orelse[0], ast.If)):
      st.test = st.test.operand
      st.body, st.orelse = st.orelse, st.body
  return out


def _terminates(stmts):
  return bool(stmts) and isinstance(stmts[-1], (ast.Return, ast.Raise, ast.Continue, ast.Break))


def _flatten_else(stmts):
  """N4: `if T: ...<return|raise|continue|break>  else: B`  ->  `if T: ...` ; B
  (an `elif` chain of terminating arms becomes a sequence of one-armed ifs)."""
  out = []
  for st in stmts:
    out.append(st)
    while isinstance(out[-1], ast.If) and out[-1].orelse and _terminates(out[-1].body):
      cur = out[-1]
      tail, cur.orelse = cur.orelse, []
      out.extend(tail)
      # a flattened `elif` is itself an If at the end of `out` only if it was the single tail stmt
      if not (len(tail) == 1):
        break
  return out


def normalize(tree):
  """In-place normalisation of every function of a module tree."""
  for fn in ast.walk(tree):
    if isinstance(fn, (ast.FunctionDef, ast.AsyncFunctionDef)):
      stats = _name_stats(fn)
      fn.body = _norm_block(fn.body, stats)
  return tree
