"""Entry point: ./check <Cnn|all> --tier quick|thorough [--replay file]."""
from __future__ import annotations

import argparse
import importlib
import json
import os
import sys
import time
import traceback

sys.path.insert(0, os.path.dirname(os.path.dirname(os.path.abspath(__file__))))

from sa import index as I      # noqa: E402
from sa import report as R     # noqa: E402

ALL = ['C%02d' % i for i in range(1, 21)]


_CHECKED_MODULES = set()


def load_rules(prop):
  mod = importlib.import_module('sa.rules.' + prop.lower())
  if mod.__name__ not in _CHECKED_MODULES:
    # a rule function defined twice silently replaces the first one (it happened: a new
    # `rule_i` shadowed an existing one and its obligations vanished without a trace)
    import ast as _ast
    import collections as _c
    tree = _ast.parse(open(mod.__file__).read())
    dup = [n for n, k in _c.Counter(x.name for x in tree.body if isinstance(x, _ast.FunctionDef)).items() if k > 1]
    if dup:
      raise I.AnalysisError(f'{mod.__name__}: function(s) defined twice: {dup}')
    _CHECKED_MODULES.add(mod.__name__)
  return mod


def run_rules(mod, idx, prop):
  ctx = R.Ctx(idx, prop)
  mod.run(ctx)
  # instance floors: a rule matching fewer sites than confirmed by reading
  counts = {}
  for o in ctx.obs:
    if not o.info:
      counts[o.rule] = counts.get(o.rule, 0) + 1
  for rule, floor in getattr(mod, 'FLOORS', {}).items():
    if counts.get(rule, 0) < floor:
      raise I.AnalysisError(
          f'rule {rule} matched {counts.get(rule, 0)} < floor {floor}')
  return ctx


def check(prop, tier, seed, replay=None, root='/repo', quiet=False):
  t0 = time.time()
  mod = load_rules(prop)
  idx = I.load(root)
  ctx = run_rules(mod, idx, prop)
  known = R.known_index()
  stats = idx.stats()
  viol = [o for o in ctx.obs if not o.ok and not o.info]
  if replay:
    with open(replay) as f:
      rec = json.load(f)
    viol = [o for o in viol if o.rule == rec['rule'] and o.construct == rec['construct']]
    print(f'replay {rec["rule"]} {rec["construct"]}: '
          + ('still violated' if viol else 'no longer violated'))
  new, hits = [], []
  seen_keys = set()
  for o in viol:
    k = o.key()
    if k in seen_keys:
      continue
    seen_keys.add(k)
    if k in known:
      hits.append(o)
    else:
      new.append(o)
  by_rule = {}
  for o in ctx.obs:
    if not o.info:
      by_rule.setdefault(o.rule, [0, 0])
      by_rule[o.rule][0] += 1
      by_rule[o.rule][1] += 0 if o.ok else 1
  if not quiet:
    print(f'[{prop}] analysed {stats["files"]} files, {stats["functions"]} '
          f'functions, {stats["classes"]} classes; '
          f'{sum(v[0] for v in by_rule.values())} obligations over '
          f'{len(by_rule)} rules')
    for r in sorted(by_rule):
      print(f'  {r}: {by_rule[r][0]} obligations, {by_rule[r][1]} violated')
  for o in hits:
    k = known[o.key()]
    print(f'KNOWN-FINDING: property={prop} rule={o.rule} construct={o.construct} '
          f'-- {k.get("what_fails", o.detail)}')
  extra = {}
  if tier == 'thorough' and not replay:
    from sa import variants as V
    vres = V.run_variants(mod, idx, prop, ctx, seed)
    extra['variants'] = vres
    nfire = sum(1 for v in vres if v['expect'] == 'fire')
    nsil = sum(1 for v in vres if v['expect'] == 'silent')
    miss = [v for v in vres if v['outcome'] not in ('as-expected', 'already-firing')]   # a variant whose snippet is gone tests nothing: reported
    print(f'  self-test: {len(vres)} source variants analysed '
          f'({nfire} must-fire, {nsil} must-stay-silent), {len(miss)} not as expected')
    for v in miss:
      print(f'SELFTEST-MISS property={prop} variant={v["name"]} outcome={v["outcome"]}')
    extra['variants_summary'] = dict(total=len(vres), must_fire=nfire,
                                     must_stay_silent=nsil, unexpected=len(miss))
  for o in new:
    p = R.write_replay(prop, o, idx)
    print(f'  {o.rule} {o.construct} @ {o.loc}: {o.what} -- {o.detail}')
    print(f'VIOLATION property={prop} replay={p}')
  wall = time.time() - t0
  if not replay:
    R.write_evidence(prop, tier, seed, ctx, stats, wall, len(new),
                     getattr(mod, 'EXPLANATION', ''), extra,
                     [dict(rule=o.rule, construct=o.construct) for o in hits])
  return 1 if new else 0


def main(argv=None):
  ap = argparse.ArgumentParser()
  ap.add_argument('prop')
  ap.add_argument('--tier', default=os.environ.get('VERIF_TIER', 'quick'),
                  choices=['quick', 'thorough'])
  ap.add_argument('--replay')
  ap.add_argument('--root', default=os.environ.get('VERIF_REPO', '/repo'))
  args = ap.parse_args(argv)
  try:
    seed = int(os.environ.get('VERIF_SEED', '0'))
  except ValueError:
    seed = 0
  props = ALL if args.prop == 'all' else [args.prop.upper()]
  rc = 0
  for p in props:
    try:
      r = check(p, args.tier, seed, args.replay, args.root)
    except I.AnalysisError as e:
      print(f'ANALYSIS-ERROR property={p}: {e}')
      r = 2
    except Exception:  # pylint: disable=broad-except
      print(f'ANALYSIS-ERROR property={p}: internal error')
      traceback.print_exc()
      r = 2
    rc = max(rc, r) if r != 1 else (1 if rc != 2 else 2)
  sys.stdout.flush()
  return rc


if __name__ == '__main__':
  sys.exit(main())
