"""Whole-module behaviour-preserving AST transforms (robustness inputs).

Each transform keeps the behaviour of every function (same evaluation order,
same values, same exceptions) and is applied to every non-test module; the
pinned suite passes on the transformed trees (checked with
tools/transform_tree.py + tools/suite.py).  They are used as whole-tree
must-stay-silent inputs: a rule that alarms on one of them, or loses
obligations on it, keys on incidental syntax.

  return-temp   `return <expr>`           ->  `_ret = <expr>; return _ret`
  test-temp     `if <call/compare>: ...`  ->  `_cond = <test>; if _cond: ...`
  swap-else     `if T: A else: B`         ->  `if not T: B else: A`
  split-and     `if a and b: X`           ->  `if a:` / `if b: X`      (no else)
  drop-else     `if T: ..return else: B`  ->  `if T: ..return` ; B
  add-else      `if T: ..return` ; rest   ->  `if T: ..return else: rest`
  augassign-expand  `T += 1`              ->  `T = T + 1`   (numeric constants only)
  listcomp-to-loop  `X = [E for v in IT]`  ->  `X = []` / `for v_: X.append(E)`
  extract-guard `if T: raise E`           ->  `_guardN(a, b)` + module-level `def _guardN(a, b): if T: raise E`
"""
import ast


class _Base(ast.NodeTransformer):
  """Statement-list rewriting; never descends into class bodies' own level
  statements (only into functions)."""

  def __init__(self):
    self.count = 0
    self.depth = 0     # function nesting depth
    self.uid = 0

  def fresh(self, stem):
    self.uid += 1
    return f'_{stem}{self.uid}'

  def visit_FunctionDef(self, node):
    self.depth += 1
    try:
      self.generic_visit(node)
      node.body = self.rewrite_block(node.body)
    finally:
      self.depth -= 1
    return node

  visit_AsyncFunctionDef = visit_FunctionDef

  def visit_Lambda(self, node):
    return node

  def rewrite_block(self, stmts):
    out = []
    for st in stmts:
      for fld in ('body', 'orelse', 'finalbody'):
        sub = getattr(st, fld, None)
        if isinstance(sub, list) and sub and not isinstance(st, (ast.FunctionDef, ast.AsyncFunctionDef, ast.ClassDef)):
          setattr(st, fld, self.rewrite_block(sub))
      if isinstance(st, ast.Try):
        for h in st.handlers:
          h.body = self.rewrite_block(h.body)
      if hasattr(ast, 'Match') and isinstance(st, ast.Match):
        for c in st.cases:
          c.body = self.rewrite_block(c.body)
      out.extend(self.rewrite_stmt(st))
    return out

  def rewrite_stmt(self, st):
    return [st]


class ReturnTemp(_Base):
  name = 'return-temp'

  def rewrite_stmt(self, st):
    if self.depth and isinstance(st, ast.Return) and st.value is not None \
        and not isinstance(st.value, (ast.Name, ast.Constant)):
      t = self.fresh('ret')
      self.count += 1
      return [ast.Assign(targets=[ast.Name(id=t, ctx=ast.Store())], value=st.value, lineno=st.lineno),
              ast.Return(value=ast.Name(id=t, ctx=ast.Load()), lineno=st.lineno)]
    return [st]


class TestTemp(_Base):
  name = 'test-temp'

  def rewrite_stmt(self, st):
    if self.depth and isinstance(st, ast.If) and isinstance(st.test, (ast.Call, ast.Compare)) \
        and not any(isinstance(x, (ast.NamedExpr, ast.Yield, ast.YieldFrom, ast.Await)) for x in ast.walk(st.test)):
      t = self.fresh('cond')
      self.count += 1
      asg = ast.Assign(targets=[ast.Name(id=t, ctx=ast.Store())], value=st.test, lineno=st.lineno)
      st.test = ast.Name(id=t, ctx=ast.Load())
      return [asg, st]
    return [st]


class SwapElse(_Base):
  name = 'swap-else'

  def rewrite_stmt(self, st):
    if self.depth and isinstance(st, ast.If) and st.orelse and st.body \
        and not (len(st.orelse) == 1 and isinstance(st.orelse[0], ast.If)):
      self.count += 1
      st.test = ast.UnaryOp(op=ast.Not(), operand=st.test)
      st.body, st.orelse = st.orelse, st.body
    return [st]


def _terminates(stmts):
  return bool(stmts) and isinstance(stmts[-1], (ast.Return, ast.Raise, ast.Continue, ast.Break))


class SplitAnd(_Base):
  """`if a and b: X` (no else)  ->  `if a:\n  if b: X`."""
  name = 'split-and'

  def rewrite_stmt(self, st):
    if self.depth and isinstance(st, ast.If) and not st.orelse and isinstance(st.test, ast.BoolOp) \
        and isinstance(st.test.op, ast.And) and len(st.test.values) >= 2:
      self.count += 1
      first, rest = st.test.values[0], st.test.values[1:]
      inner_test = rest[0] if len(rest) == 1 else ast.BoolOp(op=ast.And(), values=rest)
      inner = ast.If(test=inner_test, body=st.body, orelse=[], lineno=st.lineno)
      st.test = first
      st.body = [inner]
    return [st]


class DropElse(_Base):
  """`if T: ...return/raise/continue/break  else: B`  ->  `if T: ...` ; B."""
  name = 'drop-else'

  def rewrite_stmt(self, st):
    if self.depth and isinstance(st, ast.If) and st.orelse and _terminates(st.body):
      self.count += 1
      tail, st.orelse = st.orelse, []
      return [st] + tail
    return [st]


class AddElse(_Base):
  """`if T: ...return/raise` ; rest-of-block  ->  `if T: ... else: rest-of-block`."""
  name = 'add-else'

  def rewrite_block(self, stmts):
    stmts = super().rewrite_block(stmts)
    for i, st in enumerate(stmts):
      if self.depth and isinstance(st, ast.If) and not st.orelse and _terminates(st.body) \
          and isinstance(st.body[-1], (ast.Return, ast.Raise)) and i + 1 < len(stmts) \
          and not any(isinstance(x, (ast.FunctionDef, ast.AsyncFunctionDef, ast.ClassDef)) for x in stmts[i + 1:]):
        self.count += 1
        st.orelse = stmts[i + 1:]
        return stmts[:i + 1]
    return stmts


class ExtractGuard(_Base):
  """`if T: raise E` (no else; T and E read only plain names)  ->  `_guardN(a, b)`
  with a new module-level function `_guardN(a, b): if T: raise E`."""
  name = 'extract-guard'

  def __init__(self):
    super().__init__()
    self.new_funcs = []
    self.module_names = set()

  def rewrite_stmt(self, st):
    if not (self.depth and isinstance(st, ast.If) and not st.orelse and len(st.body) == 1
            and isinstance(st.body[0], ast.Raise) and st.body[0].exc is not None):
      return [st]
    bad = (ast.NamedExpr, ast.Lambda, ast.Yield, ast.YieldFrom, ast.Await, ast.ListComp, ast.SetComp,
           ast.DictComp, ast.GeneratorExp, ast.Starred)
    if any(isinstance(x, bad) for x in ast.walk(st)):
      return [st]
    names = []
    for x in ast.walk(st):
      if isinstance(x, ast.Name):
        if not isinstance(x.ctx, ast.Load):
          return [st]
        if x.id not in names:
          names.append(x.id)
    import builtins
    params = [n for n in names if n not in self.module_names and not hasattr(builtins, n)]
    if any(p.startswith('__') for p in params):
      return [st]
    self.count += 1
    fname = self.fresh('guard')
    fn = ast.FunctionDef(
        name=fname,
        args=ast.arguments(posonlyargs=[], args=[ast.arg(arg=p) for p in params], kwonlyargs=[],
                           kw_defaults=[], defaults=[]),
        body=[st], decorator_list=[], lineno=st.lineno, type_params=[])
    self.new_funcs.append(fn)
    call = ast.Expr(value=ast.Call(func=ast.Name(id=fname, ctx=ast.Load()),
                                   args=[ast.Name(id=p, ctx=ast.Load()) for p in params], keywords=[]),
                    lineno=st.lineno)
    return [call]

  def visit_Module(self, node):
    # names bound at module level (imports, defs, classes, assignments) stay global in the helper
    for st in node.body:
      if isinstance(st, (ast.Import, ast.ImportFrom)):
        for a in st.names:
          self.module_names.add((a.asname or a.name).split('.')[0])
      elif isinstance(st, (ast.FunctionDef, ast.AsyncFunctionDef, ast.ClassDef)):
        self.module_names.add(st.name)
      elif isinstance(st, (ast.Assign, ast.AnnAssign, ast.AugAssign)):
        for t in (st.targets if isinstance(st, ast.Assign) else [st.target]):
          for x in ast.walk(t):
            if isinstance(x, ast.Name):
              self.module_names.add(x.id)
      elif isinstance(st, (ast.If, ast.Try)):
        for x in ast.walk(st):
          if isinstance(x, (ast.Import, ast.ImportFrom)):
            for a in x.names:
              self.module_names.add((a.asname or a.name).split('.')[0])
    self.generic_visit(node)
    # helpers go right after the leading docstring / imports: they may be called while
    # the module is still being imported (class creation hooks)
    k = 0
    for i, st in enumerate(node.body):
      if isinstance(st, (ast.Import, ast.ImportFrom)) or (
          isinstance(st, ast.Expr) and isinstance(st.value, ast.Constant) and isinstance(st.value.value, str)):
        k = i + 1
      else:
        break
    node.body = node.body[:k] + self.new_funcs + node.body[k:]
    return node


class AugAssignExpand(_Base):
  """`T += <number>`  ->  `T = T + <number>`  (T a name or an attribute of a name;
  numbers only: for lists `+=` is in place and not the same thing)."""
  name = 'augassign-expand'

  def rewrite_stmt(self, st):
    if self.depth and isinstance(st, ast.AugAssign) and isinstance(st.value, ast.Constant) \
        and isinstance(st.value.value, (int, float)) and not isinstance(st.value.value, bool) \
        and (isinstance(st.target, ast.Name) or (isinstance(st.target, ast.Attribute)
                                                 and isinstance(st.target.value, ast.Name))):
      import copy
      self.count += 1
      load = copy.deepcopy(st.target)
      load.ctx = ast.Load()
      return [ast.Assign(targets=[st.target], value=ast.BinOp(left=load, op=st.op, right=st.value),
                         lineno=st.lineno)]
    return [st]


class ListCompToLoop(_Base):
  """`X = [E for v in IT if C]` (one generator, plain name target) ->
  `X = []` / `for v_ in IT: if C: X.append(E)` with a fresh loop variable."""
  name = 'listcomp-to-loop'

  def rewrite_stmt(self, st):
    if not (self.depth and isinstance(st, ast.Assign) and len(st.targets) == 1 and isinstance(st.targets[0], ast.Name)
            and isinstance(st.value, ast.ListComp) and len(st.value.generators) == 1
            and not st.value.generators[0].is_async):
      return [st]
    lc = st.value
    gen = lc.generators[0]
    x = st.targets[0].id
    bad = (ast.NamedExpr, ast.Lambda, ast.Yield, ast.YieldFrom, ast.Await, ast.ListComp, ast.SetComp,
           ast.DictComp, ast.GeneratorExp)
    inner = [lc.elt] + list(gen.ifs) + [gen.iter]
    if any(isinstance(n, bad) for e in inner for n in ast.walk(e)):
      return [st]
    # X itself must not be read by the comprehension (it would see the empty list)
    if any(isinstance(n, ast.Name) and n.id == x for e in inner for n in ast.walk(e)):
      return [st]
    tv = [n.id for n in ast.walk(gen.target) if isinstance(n, ast.Name)]
    self.uid += 1
    ren = {v: f'{v}_lc{self.uid}' for v in tv}

    class R(ast.NodeTransformer):
      def visit_Name(self, node):
        if node.id in ren:
          node.id = ren[node.id]
        return node
    r = R()
    target = r.visit(gen.target)
    elt = r.visit(lc.elt)
    ifs = [r.visit(c) for c in gen.ifs]
    self.count += 1
    body = [ast.Expr(value=ast.Call(func=ast.Attribute(value=ast.Name(id=x, ctx=ast.Load()), attr='append',
                                                        ctx=ast.Load()), args=[elt], keywords=[]))]
    if ifs:
      test = ifs[0] if len(ifs) == 1 else ast.BoolOp(op=ast.And(), values=ifs)
      body = [ast.If(test=test, body=body, orelse=[])]
    return [ast.Assign(targets=[ast.Name(id=x, ctx=ast.Store())], value=ast.List(elts=[], ctx=ast.Load()),
                       lineno=st.lineno),
            ast.For(target=target, iter=gen.iter, body=body, orelse=[], lineno=st.lineno)]


TRANSFORMS = {c.name: c for c in (ReturnTemp, TestTemp, SwapElse, SplitAnd, DropElse, AddElse, ExtractGuard,
                                  AugAssignExpand, ListCompToLoop)}


def transform_source(src, name):
  tree = ast.parse(src)
  t = TRANSFORMS[name]()
  tree = t.visit(tree)
  ast.fix_missing_locations(tree)
  out = ast.unparse(tree) + '\n'
  compile(out, '<transformed>', 'exec')
  return out, t.count
