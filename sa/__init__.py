"""Static-analysis engine for deciding the pyglove properties (see DESIGN.md).

Nothing in this package imports or executes `pyglove`; every deciding step is
an analysis of the source text of the repository (ast / class hierarchy /
call graph / CFG / def-use).
"""
