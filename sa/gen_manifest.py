"""Regenerates /verif/MANIFEST.json from the rule modules that exist."""
import importlib
import json
import os
import subprocess
import sys

sys.path.insert(0, os.path.dirname(os.path.dirname(os.path.abspath(__file__))))
VERIF = os.path.dirname(os.path.dirname(os.path.abspath(__file__)))

NOT_APPLICABLE = {}


def fix_commits():
  try:
    out = subprocess.run(['git', '-C', '/repo', 'log', '--format=%H %s'],
                         capture_output=True, text=True, check=True).stdout
  except Exception:  # pylint: disable=broad-except
    return []
  return [l.split()[0] for l in out.splitlines() if l.split(' ', 1)[1].startswith('fix:')]


def main():
  checks = []
  na = []
  for i in range(1, 21):
    p = 'C%02d' % i
    try:
      mod = importlib.import_module('sa.rules.' + p.lower())
    except ModuleNotFoundError:
      na.append(dict(property_id=p, reason=NOT_APPLICABLE.get(
          p, 'static rules for this property are designed (DESIGN.md §3) but '
             'not implemented yet; nothing is claimed until they are')))
      continue
    if getattr(mod, 'NOT_CLAIMED', None):
      na.append(dict(property_id=p, reason=mod.NOT_CLAIMED))
      continue
    rules = sorted(getattr(mod, 'FLOORS', {}))
    checks.append(dict(
        property_id=p,
        quick_cmd=f'./check {p} --tier quick',
        thorough_cmd=f'./check {p} --tier thorough',
        evidence_file=f'/verif/evidence/{p}.json',
        replay_cmd_template=f'./check {p} --replay {{path}}',
        engine='sa',
        technique=getattr(mod, 'TECHNIQUE',
                          'static analysis: repository-specific AST / class-hierarchy / '
                          'call-graph / CFG-dominance / def-use rules over /repo source'),
        level_claimed=dict(
            category='other',
            text=('Decides, from source and for all inputs/paths/callers, the '
                  'structural clauses ' + ', '.join(rules) + ' that are necessary '
                  'conditions of the property; ' + mod.EXPLANATION),
            design_ref=f'DESIGN.md §3 {p}'),
        level_note=getattr(mod, 'LEVEL_NOTE',
                           'Trusted base: CPython ast module, the engine under /verif/sa. '
                           'A pass means the structural clauses hold on this tree, not that '
                           'the full behavioural property was established; dynamic features '
                           '(metaclass-generated code, user subclasses outside the repo) are '
                           'out of scope. Thorough tier additionally self-tests each rule on '
                           'AST-computed source variants (must-fire / must-stay-silent).')))
  man = dict(
      version=1,
      setup_cmd='/venv/bin/python -m compileall -q /verif/sa >/dev/null 2>&1; test -x /verif/check',
      hooks=dict(
          guard='GOOGLE_PYGLOVE_VERIF',
          enable='no hooks are needed: checks read /repo source only (guard reserved, unused)',
          baseline_off_cmd=('cd /repo && /venv/bin/python -m pytest -ra -q -p no:cacheprovider '
                            '--timeout=900 --continue-on-collection-errors'),
          source_commits=fix_commits(),
          add_only=True),
      engines=[dict(name='sa', path='/verif/sa',
                    serves_properties=[c['property_id'] for c in checks],
                    kind_free_text='custom static analyser for pyglove: source index, '
                    'C3 class hierarchy incl. builtin bases, callee resolution, '
                    'statement CFG with short-circuit desugaring and exceptional '
                    'edges, reachability-based dominance / must-pass-through, '
                    'reaching definitions, table extraction')],
      checks=checks,
      notes=('Technique family: static analysis only. Nothing in a deciding step '
             'imports or executes pyglove. Known genuine defects are listed in '
             '/verif/known_findings.jsonl keyed by (property, rule, construct).'),
      not_applicable=na)
  with open(os.path.join(VERIF, 'MANIFEST.json'), 'w') as f:
    json.dump(man, f, indent=1)
  print(f'{len(checks)} checks, {len(na)} not applicable')


if __name__ == '__main__':
  main()
