"""Rename every function-local variable of a module (behaviour preserving).

Used by the thorough tier (whole-tree must-stay-silent variant) and by
tools/rename_locals.py <tree root> [suffix], which

Rewrites, in place, every non-test module under <root>/pyglove so that each
function-local name that is not a parameter (assigned locals, loop and
comprehension variables, with/except targets, nested helper functions) gets
the suffix (default `_rn`).  Names are resolved with `symtable`, so globals,
builtins, attributes, parameters (keyword API), class-level names and
imported names are left alone; a free variable of a nested function is renamed
together with its definition.  The result is behaviour preserving (the pinned
suite passes on it) and is used as a whole-tree must-stay-silent input:
`./check all --root <root>` has to report nothing on it.
"""
import ast
import os
import symtable
import sys


def scope_key(st):
  return (st.get_name(), st.get_lineno(), st.get_type())


class Renamer(ast.NodeTransformer):

  def __init__(self, top, suffix):
    self.suffix = suffix
    self.stack = [top]
    self.count = 0
    self.local_classes = set()

  # -- scope helpers
  def _child(self, name, lineno):
    for c in self.stack[-1].get_children():
      if c.get_name() == name and c.get_lineno() == lineno:
        return c
    # decorators shift lineno in some versions: fall back to name only
    cands = [c for c in self.stack[-1].get_children() if c.get_name() == name]
    if len(cands) == 1:
      return cands[0]
    raise KeyError((name, lineno, [scope_key(c) for c in self.stack[-1].get_children()]))

  def _renamable(self, name, depth=None):
    """Is `name`, used in the current scope, a function-local non-parameter?"""
    i = len(self.stack) - 1 if depth is None else depth
    st = self.stack[i]
    if st.get_type() != 'function':
      return False
    try:
      sym = st.lookup(name)
    except KeyError:
      return False
    if sym.is_global() or sym.is_declared_global() or sym.is_imported():
      return False
    if sym.is_parameter():
      return False
    if sym.is_free():
      # defined in an enclosing function scope
      for j in range(i - 1, -1, -1):
        if self.stack[j].get_type() == 'function':
          try:
            s2 = self.stack[j].lookup(name)
          except KeyError:
            continue
          if s2.is_local() or s2.is_parameter():
            if s2.is_free():
              continue
            return (not s2.is_parameter()) and not s2.is_imported() and not s2.is_global()
        elif self.stack[j].get_type() == 'class':
          continue
      return False
    if name.startswith('__') and not name.endswith('__'):
      return False   # name mangling
    return sym.is_local()

  def _new(self, name):
    self.count += 1
    return name + self.suffix

  # -- scopes
  def _visit_scope(self, node, name, body_fields, outer_fields):
    # things evaluated in the enclosing scope
    for fld in outer_fields:
      v = getattr(node, fld, None)
      if isinstance(v, list):
        setattr(node, fld, [self.visit(x) for x in v])
      elif v is not None:
        setattr(node, fld, self.visit(v))
    st = self._child(name, node.lineno)
    self.stack.append(st)
    try:
      for fld in body_fields:
        v = getattr(node, fld, None)
        if isinstance(v, list):
          setattr(node, fld, [self.visit(x) for x in v])
        elif v is not None:
          setattr(node, fld, self.visit(v))
    finally:
      self.stack.pop()
    return node

  def visit_FunctionDef(self, node):
    # the def name itself is a binding in the ENCLOSING scope
    if self._renamable(node.name):
      new_name = self._new(node.name)
    else:
      new_name = node.name
    # defaults / decorators / annotations are evaluated outside
    node.decorator_list = [self.visit(d) for d in node.decorator_list]
    a = node.args
    a.defaults = [self.visit(d) for d in a.defaults]
    a.kw_defaults = [self.visit(d) if d is not None else None for d in a.kw_defaults]
    for arg in a.posonlyargs + a.args + a.kwonlyargs + [x for x in (a.vararg, a.kwarg) if x]:
      if arg.annotation is not None:
        arg.annotation = self.visit(arg.annotation)
    if node.returns is not None:
      node.returns = self.visit(node.returns)
    st = self._child(node.name, node.lineno)
    self.stack.append(st)
    try:
      node.body = [self.visit(x) for x in node.body]
    finally:
      self.stack.pop()
    node.name = new_name
    return node

  visit_AsyncFunctionDef = visit_FunctionDef

  def visit_Lambda(self, node):
    a = node.args
    a.defaults = [self.visit(d) for d in a.defaults]
    a.kw_defaults = [self.visit(d) if d is not None else None for d in a.kw_defaults]
    st = self._child('lambda', node.lineno)
    self.stack.append(st)
    try:
      node.body = self.visit(node.body)
    finally:
      self.stack.pop()
    return node

  def visit_ClassDef(self, node):
    new_name = node.name     # class names are observable (__name__, type names)
    node.decorator_list = [self.visit(d) for d in node.decorator_list]
    node.bases = [self.visit(b) for b in node.bases]
    node.keywords = [self.visit(k) for k in node.keywords]
    st = self._child(node.name, node.lineno)
    self.stack.append(st)
    try:
      node.body = [self.visit(x) for x in node.body]
    finally:
      self.stack.pop()
    node.name = new_name
    return node

  def _visit_comp(self, node, kind):
    # first iterable is evaluated in the enclosing scope
    gens = node.generators
    gens[0].iter = self.visit(gens[0].iter)
    try:
      st = self._child(kind, node.lineno)
    except KeyError:
      st = None   # inlined comprehension without its own table
    if st is not None:
      self.stack.append(st)
    try:
      for i, g in enumerate(gens):
        g.target = self.visit(g.target)
        if i > 0:
          g.iter = self.visit(g.iter)
        g.ifs = [self.visit(x) for x in g.ifs]
      if isinstance(node, ast.DictComp):
        node.key = self.visit(node.key)
        node.value = self.visit(node.value)
      else:
        node.elt = self.visit(node.elt)
    finally:
      if st is not None:
        self.stack.pop()
    return node

  def visit_ListComp(self, node):
    return self._visit_comp(node, 'listcomp')

  def visit_SetComp(self, node):
    return self._visit_comp(node, 'setcomp')

  def visit_DictComp(self, node):
    return self._visit_comp(node, 'dictcomp')

  def visit_GeneratorExp(self, node):
    return self._visit_comp(node, 'genexpr')

  # -- names
  def visit_Name(self, node):
    if self._renamable(node.id) and node.id not in self.local_classes:
      node.id = self._new(node.id)
    return node

  def visit_ExceptHandler(self, node):
    if node.type is not None:
      node.type = self.visit(node.type)
    if node.name and self._renamable(node.name):
      node.name = self._new(node.name)
    node.body = [self.visit(x) for x in node.body]
    return node

  def visit_Nonlocal(self, node):
    node.names = [n + self.suffix if self._renamable_nonlocal(n) else n for n in node.names]
    return node

  def _renamable_nonlocal(self, name):
    for j in range(len(self.stack) - 2, -1, -1):
      if self.stack[j].get_type() == 'function':
        try:
          s2 = self.stack[j].lookup(name)
        except KeyError:
          continue
        if s2.is_local() and not s2.is_free():
          return not s2.is_parameter() and not s2.is_imported()
    return False


def rename_source(src, filename, suffix='_rn'):
  tree = ast.parse(src)
  top = symtable.symtable(src, filename, 'exec')
  r = Renamer(top, suffix)
  r.local_classes = {n.name for n in ast.walk(tree) if isinstance(n, ast.ClassDef)}
  tree = r.visit(tree)
  ast.fix_missing_locations(tree)
  return ast.unparse(tree) + '\n', r.count
