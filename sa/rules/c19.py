"""C19 — permission-gated code execution (DESIGN §3 C19)."""
from __future__ import annotations

import ast

from sa import astutil as A
from sa import cfg as C
from sa import dataflow as D
from sa.index import AnalysisError
from sa.rules import c17

PROP = 'C19'
EXPLANATION = (
    'The (AST node class -> permission flag) table is extracted from the '
    'validator and compared with a family table that is tied to the running '
    'interpreter\'s `ast` grammar (field signatures; every stmt/expr class '
    'must be triaged).  Further: every node is visited (no early return in '
    'the visitor), every exec/eval/compile is dominated by parse(code, '
    'permission) with the permission derived from the argument or the scope, '
    'errors are wrapped, the last-statement rewrite of evaluate is exhaustive '
    'over what it admits, the flag tables are complete, an empty permission '
    'set is not mistaken for "no permission given", and the permission scope '
    'restores / is outermost-wins.  Result equality with plain exec is not '
    'decided.')
FLOORS = {'C19.a': 10, 'C19.b': 1, 'C19.c': 1, 'C19.d': 1, 'C19.e': 2,
          'C19.f': 4, 'C19.g': 1, 'C19.h': 1, 'C19.i': 1}
FILES = ['pyglove/core/coding/parsing.py', 'pyglove/core/coding/permissions.py',
         'pyglove/core/coding/execution.py', 'pyglove/core/coding/errors.py']

FAMILIES = {
    'ASSIGN': ['Assign', 'AugAssign', 'AnnAssign', 'NamedExpr'],
    # IfExp and the comprehension forms were first filed under NOT_GATED ("a judgement"); a
    # conditional expression is a condition and a comprehension is a loop (it has a for-clause and
    # runs its element expression once per item), so a program using them with the permission
    # withheld must be refused like the statement forms
    'CONDITION': ['If', 'IfExp', 'Match'],
    'LOOP': ['For', 'AsyncFor', 'While', 'ListComp', 'SetComp', 'DictComp', 'GeneratorExp'],
    'EXCEPTION': ['Try', 'TryStar', 'Raise', 'Assert'],
    'CALL': ['Call'],
    'CLASS_DEFINITION': ['ClassDef'],
    'FUNCTION_DEFINITION': ['FunctionDef', 'AsyncFunctionDef', 'Lambda', 'Return',
                            'Yield', 'YieldFrom'],
    'IMPORT': ['Import', 'ImportFrom'],
}
# classification is a judgement: reported as information, not armed
NOT_GATED = {
    'BoolOp',
    'With', 'AsyncWith', 'Delete', 'Await', 'TypeAlias', 'Global', 'Nonlocal',
    # plain expressions / statements with no permission family
    'Expr', 'Pass', 'Break', 'Continue', 'BinOp', 'UnaryOp', 'Dict', 'Set',
    'Compare', 'FormattedValue', 'JoinedStr', 'Constant', 'Attribute',
    'Subscript', 'Starred', 'Name', 'List', 'Tuple', 'Slice',
    # deprecated aliases kept by the interpreter
    'Num', 'Str', 'Bytes', 'NameConstant', 'Ellipsis', 'Index', 'ExtSlice',
    'Suite', 'AugLoad', 'AugStore', 'Param',
}


def _concrete(base):
  out = []
  for name in dir(ast):
    c = getattr(ast, name)
    if (isinstance(c, type) and issubclass(c, base) and c is not base
        and c.__name__ == name and not name.startswith('_')):
      out.append(name)
  return out


def _check_reference_against_interpreter():
  """Tie the family table to the running interpreter's grammar."""
  present = lambda n: hasattr(ast, n)
  fam_members = {m for ms in FAMILIES.values() for m in ms}
  # (2) every stmt/expr class is triaged
  for name in _concrete(ast.stmt) + _concrete(ast.expr):
    if name not in fam_members and name not in NOT_GATED:
      raise AnalysisError(f'ast.{name} of this interpreter is not triaged '
                          f'(neither in a permission family nor in the not-gated list)')
  # (1) field signatures
  assign_sig = set()
  handlers_sig = set()
  loop_sig = set()
  for name in _concrete(ast.stmt) + _concrete(ast.expr):
    c = getattr(ast, name)
    fields = set(getattr(c, '_fields', ()))
    if ('target' in fields or 'targets' in fields) and 'value' in fields:
      assign_sig.add(name)
    if 'handlers' in fields:
      handlers_sig.add(name)
    if 'iter' in fields and 'body' in fields and issubclass(c, ast.stmt):
      loop_sig.add(name)
  want_assign = {m for m in FAMILIES['ASSIGN'] if present(m)}
  if assign_sig != want_assign:
    raise AnalysisError(f'ASSIGN family {sorted(want_assign)} != grammar signature {sorted(assign_sig)}')
  if not handlers_sig <= set(FAMILIES['EXCEPTION']):
    raise AnalysisError(f'EXCEPTION family misses {sorted(handlers_sig - set(FAMILIES["EXCEPTION"]))}')
  if not loop_sig <= set(FAMILIES['LOOP']):
    raise AnalysisError(f'LOOP family misses {sorted(loop_sig - set(FAMILIES["LOOP"]))}')


def _node_types(expr):
  """ast.X / (ast.X, ...) / getattr(ast, 'X', None) -> names."""
  out = []
  if isinstance(expr, (ast.Tuple, ast.List)):
    for e in expr.elts:
      out += _node_types(e)
  elif isinstance(expr, ast.Attribute) and isinstance(expr.value, ast.Name) and expr.value.id == 'ast':
    out.append(expr.attr)
  elif isinstance(expr, ast.Call) and A.call_name(expr) == 'getattr' and len(expr.args) >= 2:
    s = A.const_str(expr.args[1])
    if s and isinstance(expr.args[0], ast.Name) and expr.args[0].id == 'ast':
      out.append(s)
  return out


def _checker(idx):
  """The method of _CodeValidator that checks ONE node against the permission:
  found by what it does (it makes the `self.verify(node, <flag>, <classes>)`
  calls), whatever it is called."""
  cls = idx.cls('pyglove.core.coding.parsing._CodeValidator')
  best, nbest = None, 0
  for m in cls.methods.values():
    k = sum(1 for c in A.calls_in(m.node) if A.call_name(c) == 'self.verify' and len(c.args) >= 3)
    if k > nbest:
      best, nbest = m, k
  if best is None or nbest < 5:
    raise AnalysisError('the per-node permission checks of _CodeValidator were not found')
  return best


def gate_table(ctx):
  idx = ctx.index
  f = _checker(idx)
  table = {}
  for c in A.calls_in(f.node):
    if A.call_name(c) == 'self.verify' and len(c.args) >= 3:
      flag = A.dotted(c.args[1]) or ''
      flag = flag.split('.')[-1]
      for t in _node_types(c.args[2]):
        table.setdefault(t, set()).add(flag)
  if len(table) < 15:
    raise AnalysisError(f'gate table extraction found only {len(table)} node classes')
  return f, table


def rule_a(ctx):
  _check_reference_against_interpreter()
  f, table = gate_table(ctx)
  for fam, members in FAMILIES.items():
    for m in members:
      if not hasattr(ast, m):
        continue
      ok = fam in table.get(m, set())
      ctx.ob('C19.a', f'gate:{fam}:{m}', ok,
             f'ast.{m} is gated under CodePermission.{fam}', f.loc,
             f'ast.{m} is ' + (f'gated under {sorted(table[m])} only' if m in table else 'not gated at all')
             + f': a program using it runs without the {fam} permission')
  for m, flags in sorted(table.items()):
    fams = [fam for fam, ms in FAMILIES.items() if m in ms]
    if not fams:
      ctx.info('C19.a', f'gate:extra:{m}', f'ast.{m} gated under {sorted(flags)} beyond the family table (not a violation)', f.loc)
  # the verify helper raises iff isinstance(node, types) and flag not granted
  v = ctx.index.func('pyglove.core.coding.parsing._CodeValidator.verify')
  g = C.cfg_of(v.node)
  tests = [n for n in g.nodes if n.kind == 'test']
  txt = ' && '.join(A.unparse(t.ast) for t in tests[:3])
  problems = []
  isinst = [t for t in tests if A.unparse(t.ast) == 'isinstance(node, node_type)']
  grant = [t for t in tests if A.unparse(t.ast) == 'self.permission & flag']
  if not isinst or not grant:
    # the predicate may have been extracted into a private helper
    from sa import surface as S3
    ct = S3.closure_text(ctx.index, v)
    raises = [n for n in g.nodes if n.kind == 'raisestmt']
    if not ('isinstance(node, node_type)' in ct and 'self.permission & flag' in ct and raises):
      problems.append(f'verify condition changed: {txt}')
    else:
      ctx.note('C19.a: verify predicate lives in a helper; checked at closure level')
  else:
    # isinstance true and (permission & flag) false must always raise
    for m2, lab in grant[0].succ:
      if lab == 'false':
        seen, _ = g.reach(m2)
        if g.exit.id in seen:
          problems.append('verify can return normally for an ungranted node')
    raises = [n for n in g.nodes if n.kind == 'raisestmt']
    if not raises:
      problems.append('verify never raises')
  ctx.ob('C19.a', v.fq, not problems,
         'verify raises exactly when the node is of a gated class and the flag is not granted',
         v.loc, '; '.join(problems))
  return table


def rule_b(ctx):
  idx = ctx.index
  f = _checker(idx)
  cls = idx.cls('pyglove.core.coding.parsing._CodeValidator')
  g = C.cfg_of(f.node)
  if f.name == 'generic_visit':
    sup = lambda n: any(A.call_name(c) == 'super().generic_visit' and c.args
                        and isinstance(c.args[0], ast.Name) and c.args[0].id == f.node.args.args[1].arg
                        for c in n.calls())
    wit = g.can_skip(g.entry, sup)
    ctx.ob('C19.b', cls.fq + '#every-node', wit is None,
           'every node is checked: the per-node checks sit in generic_visit, which descends into the children of every '
           'node on every normal path', f.loc, f'a path returns without super().generic_visit(node): {wit}', wit)
  else:
    # the per-node checks were moved out of generic_visit: whoever drives them must get
    # the children from the interpreter's own enumeration (ast.walk / ast.iter_child_nodes /
    # NodeVisitor.generic_visit), which knows about optional fields and lists with holes
    drivers = [m for m in cls.methods.values() if m is not f and any(
        A.call_name(c) == f'self.{f.name}' for c in A.calls_in(m.node))]
    problems = []
    if not drivers:
      problems.append(f'nothing calls {f.name}')
    for m in drivers:
      lib = any((A.call_name(c) or '') in ('ast.walk', 'ast.iter_child_nodes', 'super().generic_visit', 'self.generic_visit')
                for c in A.calls_in(m.node))
      hand = any((A.call_name(c) or '') in ('ast.iter_fields',) for c in A.calls_in(m.node)) or any(
          isinstance(n, ast.Attribute) and n.attr == '_fields' for n in ast.walk(m.node))
      if hand or not lib:
        problems.append(f'{m.name} enumerates the children of a node by hand (ast.iter_fields / _fields): a field whose '
                        f'list starts with a hole (`{{**a, k: v}}`, keyword-only defaults) or mixes kinds is skipped '
                        f'unvalidated')
    ctx.ob('C19.b', cls.fq + '#every-node', not problems,
           'every node is checked: the traversal that drives the per-node checks takes the children from the '
           'interpreter\'s own enumeration', f.loc, '; '.join(problems))
  bad = []
  for name, m in cls.methods.items():
    if name.startswith('visit_') or name == 'visit':
      gm = C.cfg_of(m.node)
      desc = lambda n: any((A.call_name(c) or '') in ('self.generic_visit', 'super().generic_visit',
                                                      'super().visit') for c in n.calls())
      if gm.can_skip(gm.entry, desc):
        bad.append(name)
  ctx.ob('C19.b', cls.fq + '#visit_overrides', not bad,
         'no visit_<Class> override returns without descending/validating', cls.loc,
         f'visitor methods that can skip validation of a subtree: {bad}')
  mro = idx.mro(cls.fq)
  ok = any(b.endswith('NodeVisitor') for b in mro[1:2])
  ctx.ob('C19.b', cls.fq + '#base', ok, 'the validator is an ast.NodeVisitor', cls.loc,
         f'bases are {mro[1:]}')


EXEC_NAMES = ('exec', 'eval', 'compile')


def rule_c(ctx):
  idx = ctx.index
  n = 0
  for f in idx.all_funcs():
    if not f.module.name.startswith('pyglove.core.coding.'):
      continue
    sites = [c for c in A.calls_in(f.node) if A.call_name(c) in EXEC_NAMES]
    if not sites:
      continue
    if 'code' not in A.param_names(f.node):
      ctx.info('C19.c', f.fq, 'exec of library-generated source (no user `code` parameter): '
               'outside the permission-gated evaluation path', f.loc)
      continue
    n += 1
    g = C.cfg_of(f.node)
    parse_nodes = [k for k in g.nodes if any((A.call_name(c) or '').split('.')[-1] == 'parse'
                                             and 'parsing' in (A.call_name(c) or '') for c in k.calls())]
    problems = []
    if not parse_nodes:
      problems.append('no parsing.parse call')
    else:
      pn = parse_nodes[0]
      pc = [c for c in pn.calls() if (A.call_name(c) or '').endswith('parse')][0]
      perm = pc.args[1] if len(pc.args) > 1 else A.kwarg(pc, 'permission')
      if perm is None:
        problems.append('parse is called without a permission argument')
      else:
        names, exprs = D.backward_slice_names(f.node, A.names_read(perm))
        src_ok = 'permission' in names and ('permission' in A.param_names(f.node))
        if not src_ok:
          problems.append(f'permission passed to parse (`{A.unparse(perm)}`) does not derive from the `permission` parameter')
        if not any(A.has_call(e, lambda d: d.endswith('get_permission')) for e in exprs + [perm]):
          problems.append('the scoped permission (get_permission()) is not consulted')
      seen, parent = g.reach(g.entry, blocked_nodes={p.id for p in parse_nodes}, follow_exc=False)
      for k in g.nodes:
        if k.ast is not None and any(c in sites for c in k.calls()) and k.id in seen:
          problems.append(f'{A.unparse(k.ast, 60)} at line {k.lineno} reachable without parse')
          break
      # what is executed derives from the parsed (validated) tree
      parsed_vars = set()
      if pn.kind == 'stmt' and isinstance(pn.ast, ast.Assign):
        parsed_vars = set(A.assigned_names(pn.ast.targets[0]))
      for c in sites:
        if A.call_name(c) == 'compile' and c.args:
          nm, _ = D.backward_slice_names(f.node, A.names_read(c.args[0]))
          if not (nm & parsed_vars):
            problems.append(f'compile() at line {c.lineno} does not compile the validated tree')
    ctx.ob('C19.c', f.fq, not problems,
           'every exec/eval/compile is dominated by parsing.parse(code, permission) '
           'with the permission from the argument or the enclosing scope, and '
           'executes the validated tree', f.loc, '; '.join(problems))
  if n < 1:
    raise AnalysisError('no exec/eval site found in pyglove.core.coding')
  # parse(): validator dominates the return whenever permission is not None
  f = idx.func('pyglove.core.coding.parsing.parse')
  g = C.cfg_of(f.node)
  def _ctor_of(c):
    v = c.func.value if isinstance(c.func, ast.Attribute) else None
    if isinstance(v, ast.Name):
      ds = [x for _, x in D.defs_of(f.node, v.id) if x is not None]
      v = ds[0] if len(ds) == 1 else None
    return v if isinstance(v, ast.Call) and (A.call_name(v) or '').endswith('_CodeValidator') else None

  def is_visit(c):
    return isinstance(c.func, ast.Attribute) and c.func.attr == 'visit' and _ctor_of(c) is not None
  visit = {k.id for k in g.nodes if k.ast is not None and any(is_visit(c) for c in k.calls())}
  problems = []
  if not visit:
    problems.append('validator call vanished')
  tests = [k for k in g.nodes if k.kind == 'test' and A.unparse(k.ast) == 'permission is not None']
  blocked = set()
  for t in tests:
    for m, lab in t.succ:
      if lab == 'false':
        blocked.add((t.id, m.id, lab))
  if not tests:
    problems.append('`permission is not None` test vanished')
  seen, parent = g.reach(g.entry, blocked_nodes=visit, blocked_edges=blocked, follow_exc=False)
  if g.exit.id in seen:
    problems.append('parse can return without validating although a permission was given: '
                    + str(g.witness_str(parent, g.exit)))
  # validator constructed with (code, permission) and visits the parsed tree
  for k in g.nodes:
    if k.id in visit:
      for c in k.calls():
        if is_visit(c):
          ctor = _ctor_of(c)
          if not (isinstance(ctor, ast.Call) and len(ctor.args) == 2
                  and A.unparse(ctor.args[1]) == 'permission'):
            problems.append('validator is not constructed with the given permission')
          arg = c.args[0] if c.args else None
          if not (isinstance(arg, ast.Name) and D.derives_from_call_at(
              g, f.node, k, arg, lambda d: d == 'ast.parse')):
            problems.append('validator does not visit the tree returned by ast.parse')
  rets = [k for k in g.nodes if k.kind == 'return']
  for r in rets:
    if not (isinstance(r.ast.value, ast.Name) and D.derives_from_call_at(
        g, f.node, r, r.ast.value, lambda d: d == 'ast.parse')):
      problems.append('parse does not return the validated tree')
  ctx.ob('C19.c', f.fq, not problems,
         'parse validates the whole parsed tree whenever a permission is given '
         'and returns that same tree', f.loc, '; '.join(problems))
  # SyntaxError from the validator becomes a CodeError
  hs = [h for h in ast.walk(f.node) if isinstance(h, ast.ExceptHandler)]
  ok = any('SyntaxError' in A.unparse(h.type) and any(
      isinstance(s, ast.Raise) and 'CodeError' in A.unparse(s.exc) for s in h.body) for h in hs)
  ctx.ob('C19.c', f.fq + '#refusal', ok, 'a refused program surfaces as CodeError', f.loc,
         'validator errors are no longer converted to CodeError')


def rule_d(ctx):
  idx = ctx.index
  for f in idx.all_funcs():
    if not f.module.name.startswith('pyglove.core.coding.'):
      continue
    if 'code' not in A.param_names(f.node):
      continue
    g = C.cfg_of(f.node)
    for k in g.nodes:
      if k.ast is None:
        continue
      for c in k.calls():
        if A.call_name(c) in ('exec', 'eval'):
          ok = False
          why = 'not inside a try'
          for t, kind in k.trys:
            if kind != 'body':
              continue
            for h in t.handlers:
              ht = A.unparse(h.type) if h.type is not None else ''
              if ht in ('Exception', 'BaseException') and h.name:
                for s in h.body:
                  if (isinstance(s, ast.Raise) and isinstance(s.exc, ast.Call)
                      and (A.call_name(s.exc) or '').endswith('CodeError')
                      and len(s.exc.args) == 2 and A.unparse(s.exc.args[0]) == 'code'
                      and A.unparse(s.exc.args[1]) == h.name
                      and s.cause is not None and A.unparse(s.cause) == h.name):
                    ok = True
                why = 'handler does not `raise CodeError(code, e) from e`'
          ctx.ob('C19.d', f'{f.fq}#{A.call_name(c)}@{A.unparse(c.args[0], 40) if c.args else ""}', ok,
                 'exec/eval is inside `try ... except Exception as e: raise '
                 'CodeError(code, e) from e`', f'{f.module.relpath}:{c.lineno}', why)


def _stmt_classes_with_field(field):
  out = []
  for name in _concrete(ast.stmt):
    if field in getattr(getattr(ast, name), '_fields', ()):
      out.append(name)
  return sorted(out)


def rule_e(ctx):
  idx = ctx.index
  f = idx.func('pyglove.core.coding.execution.evaluate')
  # the admitting test
  admit = None
  for n in ast.walk(f.node):
    if isinstance(n, ast.If) and 'body[-1]' in A.unparse(n.test, 300) and any(
        'pop' in A.unparse(s, 200) for s in n.body[:3]):
      admit = n
      break
  if admit is None:
    raise AnalysisError('evaluate: cannot find the last-statement admitting test')
  admitted, target_forms = _admitted(admit.test)
  handled = set()
  handled_forms = set()
  for n in ast.walk(admit):
    if isinstance(n, ast.Call) and A.call_name(n) == 'isinstance' and len(n.args) == 2:
      for t in _node_types(n.args[1]):
        if hasattr(ast, t) and issubclass(getattr(ast, t), ast.stmt):
          handled.add(t)
        else:
          handled_forms.add(t)
  # generic re-execution of the assignment with its original targets
  generic = any(isinstance(n, ast.Call) and A.call_name(n) == 'ast.Assign'
                and isinstance(A.kwarg(n, 'targets'), ast.Attribute)
                and A.kwarg(n, 'targets').attr == 'targets' for n in ast.walk(admit))
  if generic and not any(isinstance(n, ast.Call) and A.call_name(n) == 'exec' and any(
      'assign' in A.unparse(a).lower() for a in n.args) for n in ast.walk(admit)):
    generic = False
  loc = f'{f.module.relpath}:{admit.lineno}'
  for cls in admitted:
    ok = cls == 'Expr' or cls in handled
    ctx.ob('C19.e', f'{f.fq}#last-stmt:{cls}', ok,
           f'a final ast.{cls} admitted by the last-statement rewrite is either '
           f'an expression statement or handled explicitly', loc,
           f'a final {cls} statement is replaced by its `.value` expression: the '
           f'statement itself is never executed (binding/side effect lost)')
  # the value expression of the last statement is compiled into ONE code object: using it
  # again (e.g. as the value of the synthesized assignment) evaluates it twice
  popped = {nm for st in ast.walk(admit) if isinstance(st, ast.Assign) and isinstance(st.value, ast.Call)
            and isinstance(st.value.func, ast.Attribute) and st.value.func.attr == 'pop'
            for nm in A.assigned_names(st.targets[0])}
  uses = [n for n in ast.walk(admit) if isinstance(n, ast.Attribute) and n.attr == 'value'
          and isinstance(n.value, ast.Name) and n.value.id in popped]
  ctx.ob('C19.e', f'{f.fq}#last-stmt:evaluated-once', len(uses) == 1,
         'the value expression of the last statement is evaluated exactly once (the synthesized assignment stores the '
         'result, it does not re-evaluate the expression)', loc,
         f'the expression is used {len(uses)} times (lines {[u.lineno for u in uses]}): `y = print(x)` prints twice, '
         f'`b = next(it)` skips an item')
  if 'Assign' in admitted:
    forms = target_forms or ['Name', 'Attribute', 'Subscript', 'Starred', 'Tuple', 'List']
    for form in forms:
      ok = form in handled_forms or generic
      ctx.ob('C19.e', f'{f.fq}#last-stmt:Assign-target:{form}', ok,
             f'a final assignment with an ast.{form} target is handled', loc,
             f'a final assignment to an ast.{form} target is evaluated as an '
             f'expression only: the store never happens')


def _admitted(test):
  """Statement classes let through by the admitting test, and target forms."""
  txt = A.unparse(test, 400)
  forms = None
  if isinstance(test, ast.Call) and A.call_name(test) == 'hasattr' and len(test.args) == 2:
    fld = A.const_str(test.args[1])
    return _stmt_classes_with_field(fld), forms
  if isinstance(test, ast.Call) and A.call_name(test) == 'isinstance':
    return sorted(_node_types(test.args[1])), forms
  if isinstance(test, ast.BoolOp):
    sets = [_admitted(v) for v in test.values]
    if isinstance(test.op, ast.Or):
      out = set()
      for s, fm in sets:
        out |= set(s)
        forms = forms or fm
      return sorted(out), forms
    out = None
    for s, fm in sets:
      if s is None:
        continue
      out = set(s) if out is None else out & set(s)
      forms = forms or fm
    return sorted(out or []), forms
  if isinstance(test, ast.Call) and A.call_name(test) == 'all':
    names = [t for n in ast.walk(test) if isinstance(n, ast.Call) and A.call_name(n) == 'isinstance'
             for t in _node_types(n.args[1])]
    return None, names
  raise AnalysisError(f'evaluate: unrecognised admitting test `{txt}`')


def rule_f(ctx):
  idx = ctx.index
  cls = idx.cls('pyglove.core.coding.permissions.CodePermission')
  members = [k for k, v in cls.class_attrs.items()
             if isinstance(v, ast.Call) and (A.call_name(v) or '').endswith('auto')]
  if len(members) < 8:
    raise AnalysisError(f'only {len(members)} CodePermission members found')
  def flags_of(meth):
    m = cls.methods.get(meth)
    if m is None:
      raise AnalysisError(f'CodePermission.{meth} vanished')
    out = set()
    for n in ast.walk(m.node):
      if isinstance(n, ast.Attribute) and isinstance(n.value, ast.Name) and n.value.id in ('CodePermission', 'cls'):
        out.add(n.attr)
    return out
  allf = flags_of('ALL')
  if 'BASIC' in allf:
    allf |= flags_of('BASIC')
  _, table = gate_table(ctx)
  used = {fl for fs in table.values() for fl in fs}
  for m in members:
    ctx.ob('C19.f', f'{cls.fq}.ALL:{m}', m in allf,
           f'CodePermission.ALL includes {m}', cls.loc, f'ALL does not include {m}')
    ctx.ob('C19.f', f'{cls.fq}.gates:{m}', m in used,
           f'{m} gates at least one node class', cls.loc, f'{m} gates nothing (a hole in the table)')
  # members are distinct bits (enum.auto) of an enum.Flag
  ok = any(b.endswith('Flag') for b in idx.bases(cls))
  ctx.ob('C19.f', cls.fq + '#flag', ok, 'CodePermission is an enum.Flag with auto() members',
         cls.loc, 'no longer an enum.Flag')


def rule_g(ctx):
  """An empty permission set is a set, not an absent argument."""
  idx = ctx.index
  n = 0
  for f in idx.all_funcs():
    if not f.module.name.startswith('pyglove.core.coding.'):
      continue
    if 'permission' not in A.param_names(f.node):
      continue
    bad = []
    for x in ast.walk(f.node):
      if isinstance(x, ast.BoolOp) and isinstance(x.op, ast.Or) \
          and isinstance(x.values[0], ast.Name) and x.values[0].id == 'permission':
        bad.append(x)
      if isinstance(x, (ast.If, ast.IfExp)) and isinstance(x.test, ast.Name) and x.test.id == 'permission':
        bad.append(x)
      if isinstance(x, (ast.If, ast.IfExp)) and isinstance(x.test, ast.UnaryOp) \
          and isinstance(x.test.op, ast.Not) and isinstance(x.test.operand, ast.Name) \
          and x.test.operand.id == 'permission':
        bad.append(x)
    uses_default = any(isinstance(x, ast.Call) and (A.call_name(x) or '').endswith('get_permission')
                       for x in ast.walk(f.node))
    if not uses_default and not bad:
      continue
    n += 1
    ctx.ob('C19.g', f.fq, not bad,
           'the fallback to the scoped permission tests `permission is None`, '
           'never the truthiness of the flag set (CodePermission(0) is falsy)',
           f.loc, '' if not bad else
           f'`{A.unparse(bad[0], 80)}` at line {bad[0].lineno}: an explicitly empty permission set '
           f'is treated as "not given", so nothing is validated')
  if n < 1:
    raise AnalysisError('C19.g: no permission-defaulting function found')


def rule_h(ctx):
  """The permission scope itself (C17.a/b/d applied to coding.permission)."""
  idx = ctx.index
  f = idx.func('pyglove.core.coding.permissions.permission')
  before = len(ctx.obs)
  c17.analyse_generator(ctx, f)
  c17.rule_d(ctx)
  for o in ctx.obs[before:]:
    o.rule = 'C19.h'
  g = idx.func('pyglove.core.coding.permissions.get_permission')
  ks = {A.unparse(c.args[0]) for c in A.calls_in(f.node) if (A.call_name(c) or '').endswith(
      ('thread_local_set', 'thread_local_get', 'thread_local_del'))}
  kg = {A.unparse(c.args[0]) for c in A.calls_in(g.node) if (A.call_name(c) or '').endswith('thread_local_get')}
  ctx.ob('C19.h', g.fq, len(ks) == 1 and ks == kg,
         'get_permission reads the key the permission scope sets', g.loc,
         f'scope uses {sorted(ks)}, getter reads {sorted(kg)}')


THREAD_DISPATCH = ('submit', 'Thread', 'apply_async', 'map_async', 'run_in_executor', 'start_new_thread', 'Timer')


def rule_i(ctx):
  """The permission scope is thread-local: code that is validated against the
  scoped permission must be parsed and run on the thread that entered the
  scope.  In coding/execution.py a callable is therefore called directly or
  handed to the process sandbox, never dispatched to another thread."""
  idx = ctx.index
  m = idx.by_relpath.get('pyglove/core/coding/execution.py')
  bad = []
  n = 0
  for f in m.funcs.values():
    n += 1
    for c in A.calls_in(f.node):
      d = A.call_name(c) or ''
      last = c.func.attr if isinstance(c.func, ast.Attribute) else (c.func.id if isinstance(c.func, ast.Name) else '')
      if d.split('.')[-1] in THREAD_DISPATCH or last in THREAD_DISPATCH:
        bad.append(f'{f.qualname}: `{A.unparse(c, 70)}` (line {c.lineno})')
  ctx.ob('C19.i', 'pyglove.core.coding.execution#thread-dispatch', not bad,
         'evaluation stays on the calling thread (or in the process sandbox): the thread-local permission scope is '
         'the one the code is validated against', m.relpath, 'work is dispatched to another thread: ' + '; '.join(bad) +
         ' - that thread sees no permission scope and the code is not validated')
  if n < 3:
    raise AnalysisError('coding/execution.py changed shape')


def rule_j(ctx):
  """An outer permission scope can only be narrowed: `evaluate` hands the validator a
  permission that was combined with the scope whenever a scope is set.  On the CFG of
  evaluate: starting at the entry and following only outcomes consistent with "the scope
  value is not None", the call of parsing.parse is not reachable without passing a
  definition of its permission argument that reads the scope (get_permission() itself or a
  local assigned from it).  Pre-fix the scope was read only `if permission is None`, so an
  explicit `permission=ALL` inside `with permission(BASIC)` ran an import."""
  idx = ctx.index
  f = idx.func('pyglove.core.coding.execution.evaluate')
  g = C.cfg_of(f.node)
  scope_names = set()
  for n in ast.walk(f.node):
    if isinstance(n, ast.Assign) and isinstance(n.value, ast.Call) and (A.call_name(n.value) or '').endswith('get_permission'):
      scope_names |= set(A.assigned_names(n.targets[0]))
  parse_nodes = [k for k in g.nodes if k.ast is not None and any((A.call_name(c) or '').endswith('parsing.parse') or A.call_name(c) == 'parse'
                                                                 for c in k.calls())]
  if not parse_nodes:
    raise AnalysisError('evaluate: the call of parsing.parse vanished')
  pc = [c for c in parse_nodes[0].calls() if (A.call_name(c) or '').endswith('parse')][0]
  parg = pc.args[1] if len(pc.args) > 1 else A.kwarg(pc, 'permission')
  if not isinstance(parg, ast.Name):
    ctx.ob('C19.j', 'evaluate#scope-narrows', False,
           'with a permission scope set, the permission handed to the validator was combined with the scope on every path',
           f.loc, f'parsing.parse is handed `{A.unparse(parg) if parg is not None else "nothing"}`, not a permission derived from the scope')
    return
  X = parg.id
  def reads_scope(v):
    return bool(A.names_read(v) & scope_names) or any(
        isinstance(c, ast.Call) and (A.call_name(c) or '').endswith('get_permission') for c in ast.walk(v))
  combining = {k.id for k in g.nodes if k.kind == 'stmt' and isinstance(k.ast, ast.Assign)
               and X in A.assigned_names(k.ast.targets[0]) and reads_scope(k.ast.value)}
  # outcomes that say "the scope value is None" are not followed
  blocked = set()
  for t in g.nodes:
    if t.kind == 'test' and isinstance(t.ast, ast.Compare) and len(t.ast.ops) == 1 and isinstance(t.ast.ops[0], (ast.Is, ast.IsNot)) \
        and isinstance(t.ast.left, ast.Name) and t.ast.left.id in scope_names \
        and isinstance(t.ast.comparators[0], ast.Constant) and t.ast.comparators[0].value is None:
      none_lab = 'true' if isinstance(t.ast.ops[0], ast.Is) else 'false'
      blocked |= {(t.id, m.id, l) for m, l in t.succ if l == none_lab}
  seen, parent = g.reach(g.entry, blocked_nodes=combining, blocked_edges=blocked, follow_exc=False)
  bad = parse_nodes[0].id in seen
  ctx.ob('C19.j', 'evaluate#scope-narrows', bool(combining) and not bad,
         'with a permission scope set, the permission handed to the validator was combined with the scope on every path',
         f.loc, 'a path reaches parsing.parse with the caller\'s `permission` argument alone: ' +
         (str(g.witness_str(parent, parse_nodes[0])) if bad else 'the scope is never read') +
         ' - evaluate(code, permission=ALL) inside `with permission(BASIC)` runs what the scope forbids')
  # and the combination narrows: `&` of the two, or the scope itself - never `|`
  widen = [k for k in g.nodes if k.id in combining and any(isinstance(b, ast.BinOp) and isinstance(b.op, ast.BitOr) for b in ast.walk(k.ast.value))]
  ctx.ob('C19.j', 'evaluate#combination', not widen,
         'the argument and the scope are combined by intersection', f.loc, 'the combination uses `|` (union widens the scope)')


def run(ctx):
  ctx.consult(*FILES)
  rule_j(ctx)
  rule_a(ctx)
  rule_b(ctx)
  rule_c(ctx)
  rule_d(ctx)
  rule_e(ctx)
  rule_f(ctx)
  rule_g(ctx)
  rule_h(ctx)
  rule_i(ctx)
  ctx.note('observation (not armed): evaluate(code, permission=X) inside `with permission(Y)` '
           'uses X (explicit argument wins over the scope); whether an explicit argument is an '
           '"inner scope" is a reading of the statement')
  ctx.assume('classification of IfExp/comprehensions/BoolOp/With/Delete/Await as ungated is a judgement, listed not armed')
