"""C12 — DNA views and alignment (DESIGN §3 C12)."""
from __future__ import annotations

import ast

from sa import astutil as A
from sa import cfg as C
from sa import dataflow as D
from sa.index import AnalysisError
from sa.rules import c14

PROP = 'C12'
EXPLANATION = (
    'Table agreement and binding rules: (a) for each option of DNA.to_dict the '
    'literals accepted by its validation list equal the literals the body (or '
    'the delegate format_candidate) branches on, and from_dict looks a decision '
    'up under each key form the writer produces (id, spec, name); (b) the keys '
    'of the compact JSON form written by sym_jsonify equal the keys read by '
    'from_json; (c) every producer of DNAs (first/next/random, from_dict, '
    'from_numbers, clone) binds the spec; (d) search operators re-bind a node '
    'placed at a new position or rebuild the DNA through from_dict; (e) what '
    'the literal views print is what the parser compares with, and clones do '
    'not inherit lookup caches.  '
    'Losslessness of each view over all specs and DNAs is not decided.')
FLOORS = {'C12.a': 4, 'C12.b': 2, 'C12.c': 3, 'C12.d': 2, 'C12.e': 1, 'C12.f': 2, 'C12.g': 1}
FILES = ['pyglove/core/geno/base.py', 'pyglove/core/geno/categorical.py',
         'pyglove/ext/evolution/mutators.py', 'pyglove/ext/evolution/recombinators.py']
G = 'pyglove.core.geno.'


def _accepted(f, opt):
  for n in ast.walk(f.node):
    if isinstance(n, ast.Compare) and isinstance(n.left, ast.Name) and n.left.id == opt \
        and isinstance(n.ops[0], ast.NotIn) and isinstance(n.comparators[0], (ast.List, ast.Tuple)):
      return [A.const_str(e) for e in n.comparators[0].elts]
  return None


def _compared(f, opt, skip_validation=True):
  out = set()
  for n in ast.walk(f.node):
    if isinstance(n, ast.Compare) and isinstance(n.left, ast.Name) and n.left.id == opt \
        and isinstance(n.ops[0], (ast.Eq, ast.NotEq)) and A.const_str(n.comparators[0]):
      out.add(A.const_str(n.comparators[0]))
  return out


def rule_a(ctx):
  idx = ctx.index
  f = idx.func(G + 'base.DNA.to_dict')
  fc = idx.func(G + 'categorical.Choices.format_candidate')
  for opt, implicit_else in (('key_type', 1), ('value_type', 0), ('multi_choice_key', 1)):
    acc = _accepted(f, opt)
    if not acc:
      raise AnalysisError(f'to_dict: validation list for {opt} vanished')
    # default value must be accepted
    d = A.params_with_defaults(f.node).get(opt)
    ctx.ob('C12.a', f'{f.fq}#{opt}:default', d is not None and A.const_str(d) in acc,
           f'the default of `{opt}` is one of its accepted values', f.loc,
           f'default {A.unparse(d)} not in {acc}')
    cmp_ = _compared(f, opt)
    handled = set(cmp_)
    if opt == 'value_type':
      # the remaining formats are delegated to format_candidate(display_format=value_type)
      delegated = any(A.call_name(c) and A.call_name(c).endswith('format_candidate')
                      and A.unparse(A.kwarg(c, 'display_format')) == 'value_type'
                      for c in ast.walk(f.node) if isinstance(c, ast.Call))
      facc = _accepted(fc, 'display_format') or []
      if delegated:
        handled |= set(facc)
        fcmp = _compared(fc, 'display_format')
        miss_fc = set(facc) - fcmp
        ctx.ob('C12.a', f'{fc.fq}#display_format', len(miss_fc) <= 1,
               'format_candidate branches on every display format it accepts (one may be the fallback)',
               fc.loc, f'accepted {facc}, branched on {sorted(fcmp)}')
    extra = handled - set(acc)
    missing = set(acc) - handled
    ok = not extra and len(missing) <= implicit_else
    ctx.ob('C12.a', f'{f.fq}#{opt}', ok,
           f'literals accepted for `{opt}` == literals the body handles'
           + (' (one value may be the final else)' if implicit_else else ''), f.loc,
           f'accepted {acc}; handled {sorted(handled)}; unhandled {sorted(missing)}; unknown {sorted(extra)}')
  # from_dict: decision looked up under id, spec and name (helper found by what it
  # does: the nested function that reads the caller's dict)
  fd = idx.func(G + 'base.DNA.from_dict')
  dparam = [p for p in A.param_names(fd.node) if p not in ('cls', 'self')][0]
  cands = [n for n in ast.walk(fd.node) if isinstance(n, ast.FunctionDef) and n is not fd.node and any(
      A.call_name(c) == f'{dparam}.get' for c in A.calls_in(n))]
  if len(cands) != 1:
    raise AnalysisError(f'DNA.from_dict: {len(cands)} nested helpers read {dparam}.get (expected 1)')
  gd = cands[0]
  sp = A.param_names(gd)[0]
  looked = [A.unparse(c.args[0]) for c in A.calls_in(gd) if A.call_name(c) == f'{dparam}.get' and c.args]
  forms = {'id': f'{sp}.id' in looked, 'spec': sp in looked, 'name': f'{sp}.name' in looked}
  for k, ok in forms.items():
    ctx.ob('C12.a', f'{fd.fq}#lookup:{k}', ok,
           f'from_dict finds a decision stored under the `{k}` key form that to_dict can produce',
           f'{fd.module.relpath}:{gd.lineno}', f'no lookup by {k} (lookups: {looked})')
  # to_dict key forms
  td = idx.func(G + 'base.DNA.to_dict')
  def key_forms(fn):
    if not A.param_names(fn):
      return set()
    q = A.param_names(fn)[0]
    out = set()
    for r in ast.walk(fn):
      if isinstance(r, ast.Return) and r.value is not None:
        v = r.value
        t = A.unparse(v)
        if t == f'{q}.id.path':
          out.add('id')
        elif t == q:
          out.add('spec')
        elif (isinstance(v, ast.IfExp) and A.unparse(v.test) == f'{q}.name' and A.unparse(v.body) == f'{q}.name'
              and A.unparse(v.orelse) == f'{q}.id.path') or \
             (isinstance(v, ast.BoolOp) and isinstance(v.op, ast.Or) and [A.unparse(x) for x in v.values] == [f'{q}.name', f'{q}.id.path']):
          out.add('name_or_id')
        else:
          out.add('other:' + t)
    return out
  kcands = [n for n in ast.walk(td.node) if isinstance(n, ast.FunctionDef) and n is not td.node and 'id' in key_forms(n)]
  if len(kcands) != 1:
    raise AnalysisError(f'DNA.to_dict: {len(kcands)} nested helpers build keys (expected 1)')
  kf = key_forms(kcands[0])
  ctx.ob('C12.a', td.fq + '#key-forms', kf == {'id', 'name_or_id', 'spec'},
         'to_dict keys are id path / name-or-id / the spec itself', f'{td.module.relpath}:{kcands[0].lineno}',
         f'key forms are {sorted(kf)}')


def rule_b(ctx):
  idx = ctx.index
  w = idx.func(G + 'base.DNA.sym_jsonify')
  r = idx.func(G + 'base.DNA.from_json')
  written = set()
  for n in ast.walk(w.node):
    if isinstance(n, ast.Dict):
      written |= {A.const_str(k) for k in n.keys if k is not None and A.const_str(k)}
    if isinstance(n, ast.Subscript) and isinstance(n.ctx, ast.Store) and A.const_str(n.slice):
      written.add(A.const_str(n.slice))
  read = set()
  for c in A.calls_in(r.node):
    d = A.call_name(c) or ''
    if d in ('json_value.get', 'json_value.pop') and c.args and A.const_str(c.args[0]):
      read.add(A.const_str(c.args[0]))
  for n in ast.walk(r.node):
    if isinstance(n, ast.Compare) and isinstance(n.ops[0], ast.In) and A.unparse(n.comparators[0]) == 'json_value' \
        and A.const_str(n.left):
      read.add(A.const_str(n.left))
  for k in sorted(written | read):
    ctx.ob('C12.b', f'compact-json:{k}', k in written and k in read,
           f'compact JSON key `{k}` is both written by sym_jsonify and read by from_json', w.loc,
           f'written={k in written}, read={k in read}')
  lits = A.str_constants(w.node)
  ok = 'compact' in lits and any(isinstance(n, ast.Compare) and A.const_str(n.comparators[0]) == 'compact'
                                 for n in ast.walk(r.node))
  ctx.ob('C12.b', 'compact-json:format-tag', ok, "the 'compact' format tag is written and tested", w.loc,
         'format tag mismatch')


def rule_c(ctx, rule_id='C12.c'):
  idx = ctx.index
  fd = idx.func(G + 'base.DNA.from_dict')
  rvals = [r.value for r in fd.node.body if isinstance(r, ast.Return)]
  rets = [A.unparse(r) for r in rvals]
  spec_param = [p for p in A.param_names(fd.node) if 'spec' in p][:1]
  ok = len(rvals) == 1 and isinstance(rvals[0], ast.Call) and isinstance(rvals[0].func, ast.Attribute) \
      and rvals[0].func.attr == 'use_spec' and [A.unparse(a) for a in rvals[0].args] == spec_param
  ctx.ob('C12.c', fd.fq, ok, 'from_dict returns the DNA bound to the spec',
         fd.loc, f'returns {rets}')
  fn = idx.func(G + 'base.DNA.from_numbers.<locals>._bind_decisions')
  rvals = [r.value for r in ast.walk(fn.node) if isinstance(r, ast.Return)]
  rets = [A.unparse(r) for r in rvals]
  own_spec = A.param_names(fn.node)[0]
  ok = bool(rvals) and all(isinstance(r, ast.Call) and A.call_name(r) == 'DNA'
                           and any(k.arg == 'spec' and A.unparse(k.value) == own_spec for k in r.keywords) for r in rvals)
  ctx.ob('C12.c', fn.fq, ok,
         'from_numbers builds every node with spec=<the spec of its position>', fn.loc, f'returns {rets}')
  cl = idx.func(G + 'base.DNA._sym_clone')
  clone_locals = {nm for st in ast.walk(cl.node) if isinstance(st, ast.Assign) and isinstance(st.value, ast.Call)
                  and (A.call_name(st.value) or '').endswith('_sym_clone') for nm in A.assigned_names(st.targets[0])}
  ok = any(isinstance(n, ast.Assign) and isinstance(n.targets[0], ast.Attribute) and n.targets[0].attr == '_spec'
           and isinstance(n.targets[0].value, ast.Name) and n.targets[0].value.id in clone_locals
           and A.unparse(n.value) == 'self._spec' for n in ast.walk(cl.node))
  ctx.ob('C12.c', cl.fq, ok, 'a cloned DNA keeps the spec binding', cl.loc, '_spec not copied')
  for meth in ('first_dna', 'next_dna', 'random_dna'):
    f = idx.func(G + 'base.DNASpec.' + meth)
    d = A.params_with_defaults(f.node).get('attach_spec')
    binds_here = any(isinstance(c.func, ast.Attribute) and c.func.attr == 'use_spec' and isinstance(c.func.value, ast.Name)
                     and [A.unparse(a) for a in c.args] == ['self'] for c in A.calls_in(f.node))
    delegates = any((A.call_name(c) or '') in ('self.next_dna', 'self.first_dna', 'self.random_dna')
                    and any(A.unparse(a) == 'attach_spec' for a in list(c.args) + [k.value for k in c.keywords])
                    for c in A.calls_in(f.node))
    ok = isinstance(d, ast.Constant) and d.value is True and (binds_here or delegates)
    ctx.ob('C12.c', f.fq, ok, f'{meth} binds the produced DNA to the spec by default', f.loc,
           'attach_spec default / use_spec changed')
  # use_spec stores the spec after the checks on every normal path
  us = idx.func(G + 'base.DNA.use_spec')
  g = C.cfg_of(us.node)
  st = lambda k: k.kind == 'stmt' and isinstance(k.ast, ast.Assign) and A.unparse(k.ast.targets[0]) == 'self._spec'
  early = [k for k in g.nodes if k.kind == 'test' and A.unparse(k.ast) == 'self._spec is spec']
  starts = [m for m, l in early[0].succ if l == 'false'] if early else [g.entry]
  w = None
  for s in starts:
    w = w or (g.can_skip(s, st) if not st(s) else None)
  ctx.ob('C12.c', us.fq, w is None, 'use_spec records the spec on every path that validated the node', us.loc,
         f'a path returns without storing _spec: {w}')
  # the shortcut "already bound to this spec" is an identity question: decision points of
  # different positions of a multi-choice are equal as values (same candidates) yet distinct
  shortcut_bad = []
  for k in g.nodes:
    if k.kind == 'test' and any(m2.kind == 'return' for m2, _ in k.succ) and '_spec' in A.unparse(k.ast):
      for c in ast.walk(k.ast):
        if isinstance(c, ast.Compare) and not all(isinstance(o, (ast.Is, ast.IsNot)) for o in c.ops):
          shortcut_bad.append(f'line {k.lineno}: `{A.unparse(k.ast, 60)}`')
        if isinstance(c, ast.Call) and (A.call_name(c) or '').split('.')[-1] in ('eq', 'sym_eq', '__eq__'):
          shortcut_bad.append(f'line {k.lineno}: `{A.unparse(k.ast, 60)}`')
  ctx.ob(rule_id, us.fq + '#identity-shortcut', not shortcut_bad,
         'use_spec skips re-binding only for the very same spec object (identity), never for an equal one', us.loc,
         '; '.join(shortcut_bad) + ': a sub-tree moved to another position keeps the decision points of its old position')
  # exactly one place records the spec, and it lies behind the dispatch that
  # validates/binds the children (no fast path that re-labels the node only)
  stores = [k for k in g.nodes if st(k)]
  disp = {k.id for k in g.nodes if k.kind == 'test' and A.unparse(k.ast) in ('spec.is_space', 'spec.is_categorical')}
  seen_, _ = g.reach(g.entry, blocked_nodes=disp, follow_exc=False)
  early_store = [k for k in stores if k.id in seen_]
  # ... i.e. nothing that can still fail comes after it: once the node is labelled no
  # check and no binding of a descendant remains (a failed use_spec must leave the node
  # unbound, or the `self._spec is spec` shortcut accepts the half-bound tree next time)
  for k in stores:
    after, _ = g.reach(k, follow_exc=False)
    later = [g.nodes[i] for i in after if i != k.id and g.nodes[i].ast is not None
             and (g.nodes[i].kind == 'raisestmt' or list(g.nodes[i].calls()))]
    if later:
      early_store.append(k)
  ctx.ob('C12.c', us.fq + '#single-binding-point', len(stores) == 1 and not early_store,
         'the spec is recorded in exactly one place, after the per-kind dispatch that binds every '
         'descendant to the decision point of its own position', us.loc,
         f'{len(stores)} stores of self._spec, {len(early_store)} reachable before the dispatch: a node can '
         f'be re-labelled while its descendants stay bound to the old position')
  # child specs: each child is bound to the spec of its own position
  # index consistency, whatever the locals are called: in every
  # `for i, e in enumerate(...)` loop that binds children, either the child IS e
  # and its spec is <spec>.subchoice(i), or the child is <children>[i] and its spec is e
  problems = []
  nloops = 0
  for lp in [n for n in ast.walk(us.node) if isinstance(n, ast.For)]:
    if not (isinstance(lp.iter, ast.Call) and A.call_name(lp.iter) == 'enumerate' and isinstance(lp.target, ast.Tuple)
            and len(lp.target.elts) == 2 and all(isinstance(e, ast.Name) for e in lp.target.elts)):
      continue
    iv, ev = lp.target.elts[0].id, lp.target.elts[1].id
    binds = [c for c in A.calls_in(lp) if isinstance(c.func, ast.Attribute) and c.func.attr == 'use_spec' and c.args]
    if not binds:
      continue
    nloops += 1
    for c in binds:
      recv, arg = c.func.value, c.args[0]
      if isinstance(arg, ast.Name) and arg.id != ev:
        ds = [v for st in ast.walk(lp) if isinstance(st, ast.Assign) and A.assigned_names(st.targets[0]) == [arg.id]
              for v in [st.value]]
        arg = ds[0] if len(ds) == 1 else arg
      caseA = isinstance(recv, ast.Name) and recv.id == ev and isinstance(arg, ast.Call) \
          and isinstance(arg.func, ast.Attribute) and arg.func.attr == 'subchoice' \
          and len(arg.args) == 1 and A.unparse(arg.args[0]) == iv
      caseB = isinstance(recv, ast.Subscript) and A.unparse(recv.slice) == iv and isinstance(arg, ast.Name) and arg.id == ev
      if not (caseA or caseB):
        problems.append(f'line {c.lineno}: `{A.unparse(c, 70)}` does not pair child {iv} with spec {iv}')
      # every child is bound: the call is a plain statement of the loop body, and nothing skips it
      if not any(isinstance(st, ast.Expr) and st.value is c for st in lp.body):
        problems.append(f'line {c.lineno}: the binding of child {iv} is conditional')
    if any(isinstance(x, (ast.Continue, ast.Break)) for x in ast.walk(lp)):
      problems.append(f'line {lp.lineno}: the child-binding loop can skip children (a sub-tree moved to another '
                      f'position of the same multi-choice keeps the decision points of its old position)')
  ctx.ob('C12.c', us.fq + '#children', nloops >= 3 and not problems,
         'use_spec binds child i to subchoice(i) / element i of the spec', us.loc,
         '; '.join(problems) or f'only {nloops} child-binding loops found')


def rule_e(ctx):
  """View strings can be parsed back: what format_candidate prints is what
  candidate_index compares with; a cloned DNA does not inherit lookup caches."""
  idx = ctx.index
  f = idx.func(G + 'categorical.Choices.format_candidate')
  allowed = {'index', 'len(self.candidates)', 'self.literal_values[index]'}
  bad = []
  n = 0
  for r in [x for x in ast.walk(f.node) if isinstance(x, ast.Return) and x.value is not None]:
    v = r.value
    if isinstance(v, ast.JoinedStr):
      for fv in v.values:
        if isinstance(fv, ast.FormattedValue):
          n += 1
          t = A.unparse(fv.value)
          if t not in allowed or fv.format_spec is not None or fv.conversion not in (-1, 115):
            bad.append(f'`{{{t}}}` at line {r.lineno}')
    elif A.unparse(v) not in allowed:
      bad.append(f'`{A.unparse(v)}` at line {r.lineno}')
  ctx.ob('C12.e', f.fq, not bad and n >= 4,
         'the choice / literal views print the index, the candidate count and the literal value '
         'verbatim, so candidate_index can match them back exactly', f.loc,
         'a transformed value is printed: ' + ', '.join(bad) + ': from_dict rejects (or mis-reads) the '
         'view of a DNA produced by to_dict')
  ci = idx.func(G + 'categorical.Choices.candidate_index')
  def is_str_of_literal(e):
    return isinstance(e, ast.Call) and A.call_name(e) == 'str' and len(e.args) == 1 \
        and isinstance(e.args[0], ast.Subscript) and A.unparse(e.args[0].value) in ('self.literal_values', 'self._literal_values') \
        and isinstance(e.args[0].slice, ast.Name)
  cmp_ok = any(isinstance(c, ast.Compare) and len(c.ops) == 1 and isinstance(c.ops[0], (ast.NotEq, ast.Eq))
               and ((isinstance(c.left, ast.Name) and is_str_of_literal(c.comparators[0]))
                    or (isinstance(c.comparators[0], ast.Name) and is_str_of_literal(c.left)))
               for c in ast.walk(ci.node))
  parses = any(isinstance(c.func, ast.Attribute) and c.func.attr in ('match', 'fullmatch') for c in A.calls_in(ci.node))
  ok = cmp_ok and parses
  ctx.ob('C12.e', ci.fq, ok,
         'candidate_index compares the parsed literal with str(literal_values[index])', ci.loc,
         'literal comparison changed')
  # the literal index is keyed by the literal values themselves, and looked up with the
  # value as given: any normalisation (lower(), strip(), str()) merges candidates whose
  # literals differ only in what it removes
  ob_ = idx.lookup_method(G + 'categorical.Choices', '_on_bound')
  probs = []
  builds = [st for st in ast.walk(ob_.node) if isinstance(st, ast.Assign) and A.unparse(st.targets[0]) == 'self._literal_index'
            and isinstance(st.value, ast.DictComp)]
  if not builds:
    probs.append('literal index construction not found')
  for st in builds:
    dc = st.value
    tv = A.assigned_names(dc.generators[0].target)
    if not (isinstance(dc.key, ast.Name) and dc.key.id in tv):
      probs.append(f'line {st.lineno}: the key is `{A.unparse(dc.key, 40)}`, not the literal itself')
  for c in A.calls_in(ci.node):
    if isinstance(c.func, ast.Attribute) and c.func.attr in ('get', '__getitem__') and A.unparse(c.func.value) == 'self._literal_index':
      if not (c.args and isinstance(c.args[0], ast.Name)):
        probs.append(f'line {c.lineno}: looked up with `{A.unparse(c.args[0], 40) if c.args else "?"}`')
  for n_ in ast.walk(ci.node):
    if isinstance(n_, ast.Subscript) and A.unparse(n_.value) == 'self._literal_index' and not isinstance(n_.slice, ast.Name):
      probs.append(f'line {n_.lineno}: looked up with `{A.unparse(n_.slice, 40)}`')
  ctx.ob('C12.e', ci.fq + '#literal-index', not probs,
         'the literal-to-index table is keyed by, and looked up with, the literal value as it is', ci.loc, '; '.join(probs))
  from sa.rules import c07
  c = idx.cls(G + 'base.DNA')
  m = c.methods.get('_sym_clone')
  before = len(ctx.obs)
  c07.rule_d(ctx, [(c, m)])
  for o in ctx.obs[before:]:
    o.rule = 'C12.e'


def rule_d(ctx):
  idx = ctx.index
  before = len(ctx.obs)
  c14.rule_b(ctx)
  for o in ctx.obs[before:]:
    o.rule = 'C12.d'
  # recombinators: every returned DNA is rebuilt through from_dict / from_numbers
  E = 'pyglove.ext.evolution.recombinators'
  m = idx.module(E)
  n = 0
  for c in m.classes.values():
    f = c.methods.get('recombine') or c.methods.get('_recombine')
    for name in ('recombine', 'permutate', 'merge'):
      f = c.methods.get(name)
      if f is None:
        continue
      builds = [x for x in A.calls_in(f.node) if (A.call_name(x) or '').endswith('DNA.from_dict')
                or (A.call_name(x) or '').endswith('DNA.from_numbers')]
      delegates = [x for x in A.calls_in(f.node) if (A.call_name(x) or '').startswith('self.') and
                   (A.call_name(x) or '').split('.')[1] in ('permutate', 'merge', '_recombine')]
      rets = [r for r in ast.walk(f.node) if isinstance(r, ast.Return) and r.value is not None]
      if not rets:
        continue
      n += 1
      raw_nodes = [x for x in A.calls_in(f.node) if (A.call_name(x) or '') in ('pg.DNA', 'DNA')]
      ok = bool(builds or delegates) and not raw_nodes or all(
          isinstance(r.value, (ast.List, ast.ListComp)) and not A.names_read(r.value) - {'parents'}
          for r in rets) and not raw_nodes
      if not (builds or delegates or raw_nodes):
        # returns parents / empty list
        ok = True
      ctx.ob('C12.d', f.fq, ok,
             'offspring are rebuilt from per-decision dictionaries through DNA.from_dict (which binds '
             'every node to its own decision point), never assembled from raw DNA nodes', f.loc,
             'offspring assembled with raw pg.DNA(...) nodes and no from_dict/use_spec')
  if n < 2:
    raise AnalysisError(f'only {n} recombine functions found')


def rule_f(ctx):
  """Identity of decision points and lookup by it:
  (1) the id of a sub-space under a categorical parent always carries the
  conditional key [=i/n] (no shortcut for one-candidate choices: the child
  would share its parent's id and the views by id would merge two decisions);
  (2) a lookup with a decision point / id / name as key is answered from the
  id and name tables only, so every key form gives the same answer."""
  idx = ctx.index
  c = idx.cls(G + 'base.DNASpec')
  f = c.methods.get('id')
  g = C.cfg_of(f.node)
  problems = []
  sp = [k for k in g.nodes if k.kind == 'test' and A.unparse(k.ast) == 'self.is_space']
  ck = [k for k in g.nodes if k.ast is not None and k.kind != 'test' and any(
      (A.call_name(cl) or '').endswith('ConditionalKey') for cl in k.calls())]
  stores = [k for k in g.nodes if k.kind == 'stmt' and isinstance(k.ast, ast.Assign)
            and any(A.dotted(t) == 'self._id' for t in k.ast.targets)]
  if not sp or not ck:
    problems.append('the sub-space branch or the conditional key vanished')
  else:
    for m, lab in sp[0].succ:
      if lab != 'true':
        continue
      # from the is_space outcome, every path to a store of the id passes the conditional key
      for st in stores:
        if st in ck:
          continue
        seen, _ = g.reach(m, blocked_nodes={k.id for k in ck}, follow_exc=False)
        seen.add(m.id)
        if st.id in seen and m not in ck:
          problems.append(f'a sub-space can get its id (line {st.lineno}) without the conditional key: it then '
                          f'shares the id of its parent choice')
    # the key is built unconditionally: not inside a conditional (sub-)expression
    for n in ast.walk(f.node):
      if isinstance(n, (ast.IfExp, ast.BoolOp)) and any(
          isinstance(x, ast.Call) and (A.call_name(x) or '').endswith('ConditionalKey') for x in ast.walk(n)):
        problems.append(f'the conditional key is built only under `{A.unparse(n.test if isinstance(n, ast.IfExp) else n, 60)}`')
    for k in ck:
      for cl in k.calls():
        if (A.call_name(cl) or '').endswith('ConditionalKey'):
          args = [A.unparse(a) for a in cl.args]
          parent_locals = {nm for st2 in ast.walk(f.node) if isinstance(st2, ast.Assign)
                           and A.unparse(st2.value) in ('self.parent_spec', 'self._parent_spec')
                           for nm in A.assigned_names(st2.targets[0])} | {'self.parent_spec'}
          if not (len(args) == 2 and args[0] == 'self.index'
                  and args[1] in {f'len({pl}.candidates)' for pl in parent_locals}):
            problems.append(f'conditional key built from {args}')
  ctx.ob('C12.f', f.fq, not problems,
         'the id of a sub-space always contains the conditional key of its position under the parent choice', f.loc,
         '; '.join(problems))
  f = idx.func(G + 'base.DNA.__getitem__')
  g = C.cfg_of(f.node)
  problems = []
  for k in g.nodes:
    if k.kind != 'return' or k.ast.value is None:
      continue
    v = k.ast.value
    vals = [v]
    if isinstance(v, ast.Name):
      vals = [val for _, val in D.reaching_defs(g, k, v.id) if val is not None] or [v]
    # both arms of a conditional expression are answers
    flat = []
    for val in vals:
      stack = [val]
      while stack:
        x = stack.pop()
        if isinstance(x, ast.IfExp):
          stack += [x.body, x.orelse]
        elif isinstance(x, ast.BoolOp):
          stack += list(x.values)
        else:
          flat.append(x)
    for val in flat:
      t = A.unparse(val)
      if not (t.startswith('self.children[') or '_decision_by_id' in t or 'named_decisions' in t):
        problems.append(f'line {k.lineno}: returns `{t}`, which is not read from the children / id / name tables')
  # a decision point is looked up by its id (names are not unique: the sub-choices
  # of a named multi-choice share one)
  for t in g.nodes:
    if t.kind == 'test' and isinstance(t.ast, ast.Call) and A.call_name(t.ast) == 'isinstance' \
        and 'DNASpec' in A.unparse(t.ast.args[1]) + '' or (t.kind == 'test' and 'DecisionPoint' in A.unparse(t.ast)):
      for m, lab in t.succ:
        if lab != 'true':
          continue
        seen, _ = g.reach(m, follow_exc=False)
        seen.add(m.id)
        for i in seen:
          k = g.nodes[i]
          if k.ast is not None and any('named_decisions' in A.unparse(e, 200) for e in k.exprs()):
            problems.append(f'a decision-point key can be answered from the name table (line {k.lineno}): same-named '
                            f'decisions (sub-choices of a named multi-choice) are then returned together')
            break
  ctx.ob('C12.f', f.fq, not problems,
         'DNA[key] is answered from the children list, the id table or the name table only '
         '(every key form of one decision gives the same answer)', f.loc, '; '.join(problems))


def rule_g(ctx):
  """The nested-numbers view mirrors the tree: the view of a child is placed
  into the parent's view as ONE element.  Re-packing it (`list(child_view)`,
  `tuple(...)`, `*child_view`, `.extend(child_view)`) splices a (value,
  children) pair into siblings, and the view no longer parses back."""
  idx = ctx.index
  f = idx.func(G + 'base.DNA.to_numbers')
  g = C.cfg_of(f.node)
  flat_param = [p for p in A.param_names(f.node) if p != 'self'][0]
  blocked = {(k.id, m.id, l) for k in g.nodes if k.kind == 'test' and A.unparse(k.ast) == flat_param
             for m, l in k.succ if l == 'true'}
  seen, _ = g.reach(g.entry, blocked_edges=blocked, follow_exc=False)
  def is_rec(e):
    return isinstance(e, ast.Call) and isinstance(e.func, ast.Attribute) and e.func.attr == f.node.name
  rec_locals = {nm for st in ast.walk(f.node) if isinstance(st, ast.Assign) and is_rec(st.value)
                for nm in A.assigned_names(st.targets[0])}
  def is_view(e):
    return is_rec(e) or (isinstance(e, ast.Name) and e.id in rec_locals)
  bad = []
  n = 0
  for k in g.nodes:
    if k.id not in seen or k.ast is None:
      continue
    for e in k.exprs():
      for c in ast.walk(e):
        if isinstance(c, ast.Call):
          d = A.call_name(c) or ''
          if is_rec(c):
            n += 1
          if (d in ('list', 'tuple', 'set') or d.endswith('.extend')) and c.args and is_view(c.args[0]):
            bad.append(f'line {c.lineno}: `{A.unparse(c, 50)}` re-packs the view of a child')
        if isinstance(c, ast.Starred) and is_view(c.value):
          bad.append(f'line {c.lineno}: `*{A.unparse(c.value, 40)}` splices the view of a child')
  ctx.ob('C12.g', f.fq + '#nested', n >= 2 and not bad,
         'in the nested-numbers view the view of a child is one element of its parent\'s view (never re-packed or '
         'spliced), so the view parses back to the same tree', f.loc,
         '; '.join(bad) or 'recursive calls of the nested branch not found')


def rule_h(ctx):
  """Parsing a view does not consume it: the loaders of DNA (from_dict, from_numbers,
  from_parameters, parse, from_json) never write to the value they are given - directly or
  in a nested helper - unless the parameter was first re-bound to a copy.  Otherwise the
  exported view cannot be parsed a second time ("each exported view ... reconstructs")."""
  from sa.rules import c05 as _c05
  idx = ctx.index
  cls = idx.cls('pyglove.core.geno.base.DNA')
  n = 0
  for name in ('from_dict', 'from_numbers', 'from_parameters', 'parse', 'from_json'):
    f = cls.methods.get(name)
    if f is None:
      continue
    ps = [p for p in A.param_names(f.node)[1:2]]     # the view is the first argument after cls
    if not ps:
      continue
    view = ps[0]
    n += 1
    # re-bound to a copy at the top level of the body, before anything else uses it?
    copied_at = None
    for i, st in enumerate(f.node.body):
      if isinstance(st, ast.Assign) and len(st.targets) == 1 and isinstance(st.targets[0], ast.Name) \
          and st.targets[0].id == view and isinstance(st.value, ast.Call) \
          and ((A.call_name(st.value) or '') in _c05.COPIERS_L or (A.call_name(st.value) or '').endswith('.copy')):
        copied_at = i
        break
    bad = []
    for i, st in enumerate(f.node.body):
      if copied_at is not None and i > copied_at:
        break
      if copied_at is not None and i == copied_at:
        continue
      for x in ast.walk(st):
        if isinstance(x, ast.Call) and isinstance(x.func, ast.Attribute) and x.func.attr in _c05.CONSUMING \
            and isinstance(x.func.value, ast.Name) and x.func.value.id == view:
          bad.append(f'`{A.unparse(x, 60)}` (line {x.lineno})')
        if isinstance(x, (ast.Assign, ast.AugAssign, ast.Delete)):
          tg = x.targets if not isinstance(x, ast.AugAssign) else [x.target]
          for t in tg:
            if isinstance(t, ast.Subscript) and isinstance(t.value, ast.Name) and t.value.id == view:
              bad.append(f'`{A.unparse(x, 60)}` (line {x.lineno})')
    ctx.ob('C12.h', f'{f.qualname}#input-kept', not bad,
           f'the loader does not modify the view `{view}` it is given (only a copy)', f.loc,
           'the caller\'s view is consumed: ' + ', '.join(bad) + ' - parsing the same view again fails or differs')
  if n < 2:
    raise AnalysisError(f'C12.h: only {n} DNA loaders found')


def _lazy_caches(cls):
  """Attributes of the class filled on demand: `if self.X is None: ... self.X = <value>`."""
  out = set()
  for f in cls.methods.values():
    for n in ast.walk(f.node):
      if isinstance(n, ast.If) and isinstance(n.test, ast.Compare) and len(n.test.ops) == 1 \
          and isinstance(n.test.ops[0], ast.Is) and isinstance(n.test.comparators[0], ast.Constant) \
          and n.test.comparators[0].value is None:
        d = A.dotted(n.test.left) or ''
        if d.startswith('self._') and d.count('.') == 1:
          attr = d.split('.')[1]
          if any(isinstance(x, ast.Assign) and A.dotted(x.targets[0]) == d
                 and not (isinstance(x.value, ast.Constant) and x.value.value is None)
                 for b in n.body for x in ast.walk(b)):
            out.add(attr)
  return out


def rule_i(ctx):
  """Lookups return the decision actually made: the lookup tables of a DNA
  (by id, by name) are filled lazily and depend on its spec and its children.
  (1) Every method that stores a new `_spec` also drops every lazily filled
  table of the class; (2) the library's search operators change the children of
  a DNA with notification on - `_on_bound` is what drops the tables of the
  ancestors, so no rebind of DNA nodes with skip_notification=True (nor under
  notify_on_change(False)) in geno/ and ext/evolution/."""
  idx = ctx.index
  cls = idx.cls('pyglove.core.geno.base.DNA')
  caches = _lazy_caches(cls)
  if len(caches) < 2:
    raise AnalysisError(f'DNA: lazily filled lookup tables not found ({sorted(caches)})')
  n = 0
  for name, f in sorted(cls.methods.items()):
    writes = [x for x in ast.walk(f.node) if isinstance(x, ast.Assign) and any(A.dotted(t) == 'self._spec' for t in x.targets)
              and not (isinstance(x.value, ast.Constant) and x.value.value is None)]
    if not writes:
      continue
    n += 1
    reset = {A.dotted(t).split('.')[1] for x in ast.walk(f.node) if isinstance(x, ast.Assign)
             and isinstance(x.value, ast.Constant) and x.value.value is None
             for t in x.targets if (A.dotted(t) or '').startswith('self._')}
    missing = sorted(caches - reset)
    ctx.ob('C12.i', f'DNA.{name}#tables-follow-spec', not missing,
           'a method that binds the DNA to a spec drops the lookup tables derived from the previous one', f.loc,
           f'{missing} survive the new spec: d.use_spec(A); d[\'a\']; d.use_spec(B); d[\'b\'] raises KeyError and '
           f'd.get(\'a\') still answers')
  if n < 1:
    raise AnalysisError('DNA: no method stores _spec')
  bad = []
  m = 0
  for f in idx.all_funcs():
    if not (f.module.name.startswith('pyglove.core.geno.') or f.module.name.startswith('pyglove.ext.evolution.')) \
        or f.module.relpath.endswith('_test.py'):
      continue
    for c in A.calls_in(f.node):
      d = (A.call_name(c) or '').split('.')[-1]
      if d in ('rebind', 'sym_rebind'):
        # only rebinds that change the decisions: the `children` member of a node (metadata
        # and the bookkeeping of specs - literal_values, index - derive no lookup table)
        recv = (A.call_name(c) or '').rsplit('.', 1)[0]
        on_children = recv.endswith('children') or any(kw.arg in ('children', 'value') for kw in c.keywords)
        if not on_children:
          continue
        m += 1
        for kw in c.keywords:
          if kw.arg == 'skip_notification' and A.unparse(kw.value) != 'False':
            bad.append(f'{f.module.relpath}:{c.lineno} `{A.unparse(c, 70)}`')
  ctx.ob('C12.i', 'geno+evolution#rebinds-notify', not bad,
         f'DNA nodes are changed with notification on ({m} rebinds examined): the ancestors drop their lookup tables',
         'pyglove/ext/evolution/mutators.py:1',
         '; '.join(bad) + ' - a lookup cached before the change (e.g. by a `where` function) answers with the old decision')


def rule_j(ctx):
  """None is a stored value, not "absent": the lookup tables of a DNA are built with
  include_inactive_decisions=True, so an inactive decision is stored as None ("None if the
  decision point exists but it's inactive").  A table that can hold None is probed with `in`;
  `v = table.get(k, None)` followed by `if v is None:` takes an inactive decision for a
  missing one - the lookup raises KeyError, or an accumulator forgets the inactive copy."""
  idx = ctx.index
  cls = idx.cls('pyglove.core.geno.base.DNA')
  # tables: attributes/properties/locals filled from a to_dict(..., include_inactive_decisions=True)
  tables = set()
  for name, f in cls.methods.items():
    for c in A.calls_in(f.node):
      if (A.call_name(c) or '').endswith('to_dict') and any(
          kw.arg == 'include_inactive_decisions' and A.unparse(kw.value) == 'True' for kw in c.keywords):
        tables.add(name)                         # the property itself: self.<name>
        tables.add(name.lstrip('_'))
        for x in ast.walk(f.node):               # locals accumulated in it and returned / stored
          if isinstance(x, ast.Assign) and isinstance(x.value, ast.Dict) and not x.value.keys:
            tables.update(A.assigned_names(x.targets[0]))
  if len(tables) < 2:
    raise AnalysisError(f'DNA: tables that store inactive decisions not found ({sorted(tables)})')
  n = 0
  for name, f in sorted(cls.methods.items()):
    for st in ast.walk(f.node):
      if not (isinstance(st, ast.Assign) and isinstance(st.value, ast.Call) and isinstance(st.value.func, ast.Attribute)
              and st.value.func.attr == 'get'):
        continue
      recv = A.dotted(st.value.func.value) or ''
      if recv.split('.')[-1] not in tables:
        continue
      dflt = st.value.args[1] if len(st.value.args) > 1 else None
      if dflt is not None and not (isinstance(dflt, ast.Constant) and dflt.value is None):
        continue
      var = A.assigned_names(st.targets[0])
      tested = [t for t in ast.walk(f.node) if isinstance(t, ast.Compare) and len(t.ops) == 1
                and isinstance(t.ops[0], (ast.Is, ast.IsNot)) and isinstance(t.left, ast.Name) and t.left.id in var
                and isinstance(t.comparators[0], ast.Constant) and t.comparators[0].value is None]
      n += 1
      ctx.ob('C12.j', f'DNA.{name}#absent-vs-none', not tested,
             f'`{recv}` stores None for an inactive decision; presence of a key is tested with `in`', f'{f.module.relpath}:{st.lineno}',
             f'`{A.unparse(st, 70)}` then `{A.unparse(tested[0]) if tested else ""}`: an inactive decision is taken for a missing key')
  ctx.ob('C12.j', 'DNA#tables', True, f'{len(tables)} None-storing tables, {n} probes with .get(k, None)', cls.methods['__getitem__'].loc)


SPEC_PARAMS = ('spec', 'dna_spec')


def _local_returns(fn_node):
  return [r for r in A.walk_local(fn_node) if isinstance(r, ast.Return) and r.value is not None]


def _branch_of(fn_node, node):
  """Statements of the outermost if/elif/else branch of the function that contains `node`
  (the whole body when it is not inside an if)."""
  stmts = fn_node.body
  for st in stmts:
    if isinstance(st, ast.If) and any(x is node for x in ast.walk(st)):
      cur = st
      while True:
        if any(x is node for b in cur.body for x in ast.walk(b)):
          return cur.body
        if len(cur.orelse) == 1 and isinstance(cur.orelse[0], ast.If):
          cur = cur.orelse[0]
          continue
        return cur.orelse
  return stmts


def _bound_expr(e, fn_node, factory_names, specs, depth=0):
  """Is the value of `e` a DNA that was bound to (one of) `specs`?"""
  if depth > 3:
    return False
  if isinstance(e, ast.Call):
    d = A.call_name(e) or ''
    last = d.split('.')[-1]
    if last == 'use_spec' and e.args:
      return True
    if last in ('DNA', 'cls') or d == 'cls':
      return any(kw.arg == 'spec' for kw in e.keywords)
    if last in factory_names and d.split('.')[0] in ('cls', 'DNA'):
      return True                                     # another factory (decided on its own)
    # a nested helper of this function: all its returns are bound
    for n in ast.walk(fn_node):
      if isinstance(n, ast.FunctionDef) and n is not fn_node and n.name == d:
        hs = {a.arg for a in n.args.args} & set(SPEC_PARAMS) | set(specs)
        rs = _local_returns(n)
        return bool(rs) and all(_bound_expr(r.value, n, factory_names, hs or specs, depth + 1) for r in rs)
    return False
  if isinstance(e, ast.Name):
    defs = [v for _, v in D.defs_of(fn_node, e.id) if v is not None]
    if not defs:
      return False
    return all(_bound_expr(v, fn_node, factory_names, specs, depth + 1) for v in defs)
  if isinstance(e, ast.Subscript) and isinstance(e.value, ast.Name):
    # an element of a list that only collects bound DNAs (appended results of factories);
    # the list is looked at within the if-branch that holds the expression (the same local
    # name may collect something else in a sibling branch)
    lst = e.value.id
    scope = _branch_of(fn_node, e)
    apps = [c for st in scope for c in A.calls_in(st) if A.call_name(c) == f'{lst}.append' and c.args]
    comps = [x.value.elt for st in scope for x in ast.walk(st) if isinstance(x, ast.Assign)
             and lst in A.assigned_names(x.targets[0]) and isinstance(x.value, ast.ListComp)]
    elems = [c.args[0] for c in apps] + comps
    return bool(elems) and all(_bound_expr(x, fn_node, factory_names, specs, depth + 1) for x in elems)
  return False


def rule_k(ctx):
  """Every DNA handed out by a factory that is given the spec is bound to it: each
  return of a DNA classmethod with a spec parameter is a DNA constructed with
  `spec=`, the result of `use_spec(...)`, the result of another such factory, or a
  nested helper / collected element of which that holds.  (`from_fn` validated the
  DNA against the spec and returned it unbound.)"""
  idx = ctx.index
  cls = idx.cls('pyglove.core.geno.base.DNA')
  facts = {}
  for name, f in cls.methods.items():
    if 'classmethod' in [d.split('.')[-1] for d in A.decorator_names(f.node)]:
      sp = [p for p in A.param_names(f.node) if p in SPEC_PARAMS]
      if sp:
        facts[name] = (f, sp)
  if len(facts) < 4:
    raise AnalysisError(f'DNA: only {len(facts)} factories with a spec parameter found')
  for name, (f, sp) in sorted(facts.items()):
    rets = _local_returns(f.node)
    bad = [r for r in rets if not _bound_expr(r.value, f.node, set(facts), sp)]
    optional = A.params_with_defaults(f.node).get(sp[0]) is not None
    ctx.ob('C12.k', f'DNA.{name}#returns-bound', not bad,
           'the factory returns a DNA bound to the spec it was given' + (' (when one is given)' if optional else ''), f.loc,
           'unbound return: ' + ', '.join(f'`{A.unparse(r.value, 50)}` (line {r.lineno})' for r in bad) +
           ' - .spec is None, so to_dict / lookups raise although the factory was handed the spec')


def run(ctx):
  ctx.consult(*FILES)
  rule_a(ctx)
  rule_b(ctx)
  rule_c(ctx)
  rule_d(ctx)
  rule_e(ctx)
  rule_f(ctx)
  rule_g(ctx)
  rule_h(ctx)
  rule_i(ctx)
  rule_j(ctx)
  rule_k(ctx)
  ctx.assume('losslessness of each view over all specs/DNAs is not decided')
