"""C08 — write protection (DESIGN §3 C08)."""
from __future__ import annotations

import ast

from sa import astutil as A
from sa import cfg as C
from sa import dataflow as _D
from sa import surface as S
from sa.index import AnalysisError

PROP = 'C08'
EXPLANATION = (
    'Static decision of the structural clauses of C08: (a) every mutating slot '
    'of builtin list/dict is overridden by pg.List/pg.Dict; (b) on every '
    'call-graph/CFG path from a public mutator to a raw storage write or to '
    'the unchecked write primitive, a treats_as_sealed(<receiver>) test whose '
    'true branch raises WritePermissionError is passed first; (c) the accessor '
    'mutators are also dominated by a writtable_via_accessors test and the '
    'rebind path contains none; (d) who-may-call the unchecked primitive; (e) '
    'scope-over-flag precedence in the three predicates; (f) deep seal. '
    'Decides the shape of the code for all inputs; does not decide that the '
    'tree is bit-identical after a refused call.')
FLOORS = {'C08.k': 1, 'C08.j': 2, 'C08.a': 10, 'C08.b': 10, 'C08.c': 4, 'C08.d': 4, 'C08.e': 1,
          'C08.f': 1, 'C08.g': 1, 'C08.h': 2}

FILES = ['pyglove/core/symbolic/base.py', 'pyglove/core/symbolic/list.py',
         'pyglove/core/symbolic/dict.py', 'pyglove/core/symbolic/object.py',
         'pyglove/core/symbolic/flags.py', 'pyglove/core/symbolic/functor.py']

OBJ_UNCHECKED = ('_sym_rebind', S.PRIMITIVE, '_set_item_of_current_tree')


def _raw_of_call(idx, func, call):
  cls = idx.enclosing_class(func)
  if cls is None:
    return None
  kind = S.builtin_kind(idx, cls.fq)
  if kind is None:
    return None
  n = A.call_name(call)
  if n is None:
    return None
  parts = n.split('.')
  if len(parts) != 2 or parts[1] not in S.mutators_of(kind):
    return None
  if parts[0] == 'super()':
    if idx.lookup_method_owner(cls.fq, parts[1], after=cls.fq) == f'builtins.{kind}':
      return f'{kind}.{parts[1]}'
  elif (parts[0] == kind and call.args and isinstance(call.args[0], ast.Name)
        and call.args[0].id == 'self'):
    return f'{kind}.{parts[1]}'
  return None


def is_missing_cmp(e, names=None):
  """`MISSING_VALUE == x` / `x == MISSING_VALUE` (x optionally restricted)."""
  if not (isinstance(e, ast.Compare) and len(e.ops) == 1 and isinstance(e.ops[0], ast.Eq)):
    return False
  l, r = A.unparse(e.left), A.unparse(e.comparators[0])
  for a, b in ((l, r), (r, l)):
    if a.endswith('MISSING_VALUE') and (names is None or b in names):
      return True
  return False


def sweeps_only_placeholders(idx, f):
  """Every raw list.__delitem__ of f deletes an index taken from a collection
  that only ever receives indices whose item compared equal to the MISSING
  marker (loop + guarded append, or a filtering comprehension)."""
  g = C.cfg_of(f.node)
  dels = [c for c in A.calls_in(f.node) if _raw_of_call(idx, f, c) == 'list.__delitem__']
  if not dels:
    return False
  for c in dels:
    ia = c.args[-1]
    if not isinstance(ia, ast.Name):
      return False
    loops = [n for n in ast.walk(f.node) if isinstance(n, ast.For) and any(x is c for x in ast.walk(n))
             and ia.id in A.assigned_names(n.target)]
    if not loops:
      return False
    it = loops[-1].iter
    while isinstance(it, ast.Call) and (A.call_name(it) or '') in ('reversed', 'sorted', 'list', 'tuple') and it.args:
      it = it.args[0]
    if not isinstance(it, ast.Name):
      return False
    coll = it.id
    for _, v in _D.defs_of(f.node, coll):
      if isinstance(v, ast.List) and not v.elts:
        continue
      if isinstance(v, ast.ListComp) and any(is_missing_cmp(i) for gen in v.generators for i in gen.ifs):
        continue
      return False
    # appends happen only under a MISSING comparison
    tests = [n for n in g.nodes if n.kind == 'test' and is_missing_cmp(n.ast)]
    blocked = {(n.id, m.id, l) for n in tests for m, l in n.succ if l == 'true'}
    seen, _ = g.reach(g.entry, blocked_edges=blocked, follow_exc=False)
    for n in g.nodes:
      if n.ast is not None and n.id in seen and any(
          (A.call_name(x) or '') in (coll + '.append', coll + '.extend', coll + '.insert') for x in n.calls()):
        return False
  return True


def make_sink_finder(idx, accessor: bool = False):
  """Sinks = raw storage writes, calls of the unchecked primitive on any
  receiver, unchecked calls into an Object's attribute container.  With
  accessor=True also plain item stores into the attribute container (whose own
  accessor flag is always on, so the Object must check its own)."""

  def find(func, node):
    out = []
    loc = f'{func.module.relpath}:{node.lineno}'
    for call in node.calls():
      raw = _raw_of_call(idx, func, call)
      if raw:
        out.append((f'raw {raw}', loc, 'self'))
        continue
      n = A.call_name(call)
      if not n:
        continue
      recv, _, meth = n.rpartition('.')
      if meth == S.PRIMITIVE and recv and recv != 'super()':
        if recv == 'self._sym_attributes':
          out.append((f'{recv}.{meth}', loc, recv))
        else:
          out.append((f'{recv}.{meth}', loc, recv))
      elif recv == 'self._sym_attributes' and meth in OBJ_UNCHECKED:
        out.append((f'{recv}.{meth}', loc, recv))
    if accessor:
      for e in node.exprs():
        for site, meth, recv in S.self_delegations(idx, func, [e]):
          if recv == 'self._sym_attributes' and meth in ('__setitem__', '__delitem__'):
            out.append((f'{recv}.{meth}', loc, recv))
    return out
  return find


def entry_points(ctx):
  idx = ctx.index
  eps = []
  for cls_fq, kind in ((S.LIST, 'list'), (S.DICT, 'dict')):
    idx.cls(cls_fq)
    names = list(S.mutators_of(kind)) + ['_sym_rebind', 'rebind', 'sym_rebind']
    if kind == 'dict':
      names += ['__setattr__', '__delattr__']
    for name in names:
      f = idx.lookup_method(cls_fq, name)
      if f is not None:
        eps.append((cls_fq, name, f))
  idx.cls(S.OBJECT)
  for name in ('__setattr__', '__delattr__', '_sym_rebind', 'rebind', 'sym_rebind'):
    f = idx.lookup_method(S.OBJECT, name)
    if f is not None:
      eps.append((S.OBJECT, name, f))
  return eps


def rule_a(ctx, prefix='C08.a'):
  """M1 override completeness."""
  idx = ctx.index
  S.check_builtin_tables()
  for cls_fq, kind in ((S.LIST, 'list'), (S.DICT, 'dict')):
    c = idx.cls(cls_fq)
    if S.builtin_kind(idx, cls_fq) != kind:
      raise AnalysisError(f'{cls_fq} no longer derives from builtin {kind}')
    for slot in S.mutators_of(kind):
      owner = idx.lookup_method_owner(cls_fq, slot)
      ok = owner is not None and not owner.startswith('builtins.')
      ctx.ob(prefix, f'{cls_fq}.{slot}', ok,
             f'mutating slot {kind}.{slot} is overridden below the builtin base',
             c.loc,
             f'{slot} resolves to {owner}.{slot}: the inherited C slot mutates '
             f'storage with no seal check, no relocation, no type check and no '
             f'notification')


def rule_b(ctx):
  idx = ctx.index
  ga = S.GuardAnalysis(
      idx, 'treats_as_sealed', make_sink_finder(idx),
      require_raise='WritePermissionError',
      recv_alias={'self._sym_attributes': ('self', 'self._sym_attributes')})
  n_sinks_total = 0
  for cls_fq, name, f in entry_points(ctx):
    res = ga.unguarded(f, cls_fq)
    construct = f'{cls_fq}.{name}'
    if res:
      chain, desc, loc, wit = res[0]
      ctx.ob('C08.b', construct, False,
             'treats_as_sealed guard (raising WritePermissionError) dominates '
             'every storage write reachable from this mutator',
             f.loc, f'{desc} at {loc} reachable with no seal guard via '
             + ' -> '.join(c.rsplit(".", 2)[-2] + '.' + c.rsplit(".", 1)[-1] for c in chain),
             dict(chain=chain, sink=desc, sink_loc=loc, path=wit,
                  others=[(d, l) for _, d, l, _ in res[1:6]]))
    else:
      ctx.ob('C08.b', construct, True,
             'treats_as_sealed guard (raising WritePermissionError) dominates '
             'every storage write reachable from this mutator', f.loc)
  if ga.bound_hit:
    raise AnalysisError('C08.b: call-graph depth bound hit')
  ctx.note(f'C08.b: {len(ga.visited)} functions traversed, '
           f'{len(ga.guards_seen)} seal-guard tests recognised')
  if len(ga.guards_seen) < 8:
    raise AnalysisError(f'C08.b recognised only {len(ga.guards_seen)} seal guards')


ACCESSOR_MUTATORS = [(S.LIST, '__setitem__'), (S.LIST, '__delitem__'),
                     (S.DICT, '__setitem__'), (S.DICT, '__delitem__'),
                     (S.OBJECT, '__setattr__'),
                     ('pyglove.core.symbolic.functor.Functor', '__delattr__'),
                     (S.DICT, '__setattr__'), (S.DICT, '__delattr__')]
REBIND_PATH = [(S.SYMBOLIC, 'rebind'), (S.SYMBOLIC, 'sym_rebind'),
               (S.SYMBOLIC, '_set_item_of_current_tree'),
               (S.LIST, '_sym_rebind'), (S.DICT, '_sym_rebind'),
               (S.OBJECT, '_sym_rebind'),
               (S.LIST, S.PRIMITIVE), (S.DICT, S.PRIMITIVE),
               (S.OBJECT, S.PRIMITIVE),
               (S.LIST, '_formalized_value'), (S.DICT, '_formalized_value')]


def rule_c(ctx):
  idx = ctx.index
  ga = S.GuardAnalysis(
      idx, 'writtable_via_accessors', make_sink_finder(idx, accessor=True),
      require_raise='WritePermissionError',
      recv_alias={'self._sym_attributes': ('self', 'self._sym_attributes')})
  for cls_fq, name in ACCESSOR_MUTATORS:
    f = idx.lookup_method(cls_fq, name)
    if f is None:
      raise AnalysisError(f'anchor vanished: {cls_fq}.{name}')
    res = ga.unguarded(f, cls_fq)
    ok = not res
    ctx.ob('C08.c', f'{cls_fq}.{name}', ok,
           'writtable_via_accessors guard (raising WritePermissionError) '
           'dominates every storage write of this accessor mutator', f.loc,
           '' if ok else f'{res[0][1]} at {res[0][2]} reachable with no accessor guard',
           None if ok else dict(chain=res[0][0], path=res[0][3]))
  for cls_fq, name in REBIND_PATH:
    f = idx.lookup_method(cls_fq, name)
    if f is None:
      raise AnalysisError(f'anchor vanished: {cls_fq}.{name}')
    bad = A.find_calls(f.node, lambda n: n.split('.')[-1] == 'writtable_via_accessors')
    reads = [n for n in ast.walk(f.node) if isinstance(n, ast.Attribute)
             and n.attr in ('accessor_writable', '_accessor_writable')
             and isinstance(n.ctx, ast.Load)]
    ok = not bad and not reads
    ctx.ob('C08.c', f'{cls_fq}.{name}#rebind-path', ok,
           'the rebind path never consults the accessor-writable permission '
           '(rebind must keep working when accessors are disabled)', f.loc,
           '' if ok else 'accessor permission consulted on the rebind path at line %d'
           % (bad[0].lineno if bad else reads[0].lineno))


ALLOWED_PRIMITIVE_CALLERS = {
    # construct -> reason
    'pyglove.core.symbolic.list.List.__init__': 'constructor: object not yet shared',
    'pyglove.core.symbolic.dict.Dict.__init__': 'constructor: object not yet shared',
    'pyglove.core.symbolic.object.Object._set_item_without_permission_check':
        'the primitive itself, delegating to the attribute container',
}


def _is_private(f):
  return f.name.startswith('_') and not f.name.startswith('__')


def _unguarded_callers(idx, ga, f, _depth=0, _seen=None):
  """Callers (in the symbolic package) that reach the private wrapper `f` on a
  path with no seal guard; a caller that is itself a private wrapper passes the
  obligation on to its own callers."""
  _seen = _seen or {f.fq}
  bad, n = [], 0
  for c in idx.all_funcs():
    if c is f or not c.module.name.startswith('pyglove.core.symbolic.') or c.module.relpath.endswith('_test.py'):
      continue
    if not any((A.call_name(x) or '').split('.')[-1] == f.name and '.' in (A.call_name(x) or '')
               for x in A.calls_in(c.node)):
      continue
    n += 1
    hits = [r for r in ga.unguarded(c) if f.fq in r[0]]
    if not hits:
      continue
    if _is_private(c) and _depth < 3 and c.fq not in _seen:
      bad += _unguarded_callers(idx, ga, c, _depth + 1, _seen | {c.fq})
    else:
      bad.append(f'{c.qualname} reaches {f.name} (-> the primitive) before any seal guard')
  if n == 0 and _depth == 0:
    return []     # no caller: dead wrapper, nothing reaches the primitive through it
  return bad


def rule_d(ctx):
  idx = ctx.index
  ga = S.GuardAnalysis(
      idx, 'treats_as_sealed', make_sink_finder(idx),
      require_raise='WritePermissionError',
      recv_alias={'self._sym_attributes': ('self', 'self._sym_attributes')})
  n = 0
  for f in idx.all_funcs():
    sites = []
    for call in A.calls_in(f.node):
      d = A.call_name(call)
      if d and d.split('.')[-1] == S.PRIMITIVE and '.' in d:
        sites.append(call)
    # string-based lookup: getattr(value, '_set_item_without_permission_check')
    getattr_sites = [c for c in A.calls_in(f.node)
                     if A.call_name(c) == 'getattr' and len(c.args) >= 2
                     and A.const_str(c.args[1]) == S.PRIMITIVE]
    if not sites and not getattr_sites:
      continue
    n += 1
    if f.fq in ALLOWED_PRIMITIVE_CALLERS:
      ctx.ob('C08.d', f.fq, True, 'caller of the unchecked primitive: allowed ('
             + ALLOWED_PRIMITIVE_CALLERS[f.fq] + ')', f.loc)
      continue
    if getattr_sites:
      # the receiver is a value of unknown state (it may be sealed) and no guard of
      # the symbolic layer is in reach of the caller: never allowed.  (typing
      # List._apply used to be tolerated here as "in-place formalisation of the
      # value being validated" - it converted the elements of a SEALED list.)
      ctx.ob('C08.d', f.fq, False,
             'the unchecked primitive is not looked up by name on a foreign value', f.loc,
             'string-resolved use of the unchecked primitive: the write skips the seal check of the receiver')
      continue
    if not f.module.name.startswith('pyglove.core.symbolic.'):
      ctx.ob('C08.d', f.fq, False,
             'the unchecked primitive is called only inside pyglove.core.symbolic',
             f.loc, 'caller outside the symbolic package')
      continue
    # must be guarded in this function on the same receiver
    res = [r for r in ga.unguarded(f) if len(r[0]) == 1 and S.PRIMITIVE in r[1]]
    ok = not res
    if res and _is_private(f) and all(r[1].startswith('self.') for r in res):
      # a private wrapper of the primitive ("the permission checks are up to the
      # caller"): it inherits the who-may-call rule - every caller, transitively
      # through further private wrappers, passes a seal guard before the call
      bad = _unguarded_callers(idx, ga, f)
      ctx.ob('C08.d', f.fq, not bad,
             'private wrapper of the unchecked primitive: every caller passes a seal guard on the same '
             'receiver before calling it', f.loc,
             '; '.join(bad))
      continue
    ctx.ob('C08.d', f.fq, ok,
           'call of the unchecked primitive is dominated by a seal guard on the '
           'same receiver', f.loc,
           '' if ok else f'{res[0][1]} at {res[0][2]} not dominated by a seal guard',
           None if ok else dict(path=res[0][3]))
  if n < 8:
    raise AnalysisError(f'C08.d found only {n} callers of the primitive')
  # methods of the containers that code outside the symbolic package resolves by
  # name (`getattr(value, '<name>', None)`, duck typing from the typing layer):
  # if such a method writes, it passes the seal guard itself
  reach = S.GuardAnalysis(idx, '__no_such_guard__', make_sink_finder(idx))
  for f in idx.all_funcs():
    if f.module.relpath.endswith('_test.py') or f.module.name.startswith('pyglove.core.symbolic.'):
      continue
    for c in A.calls_in(f.node):
      if A.call_name(c) != 'getattr' or len(c.args) < 2 or A.const_str(c.args[1]) is None:
        continue
      name = A.const_str(c.args[1])
      for cls_fq in (S.LIST, S.DICT):
        m = idx.cls(cls_fq).methods.get(name)
        if m is None or name == S.PRIMITIVE or not reach.unguarded(m, cls_fq):
          continue
        res = ga.unguarded(m, cls_fq)
        ctx.ob('C08.d', f'{f.fq}#getattr:{name}', not res,
               f'a writer of {cls_fq.split(".")[-1]} resolved by name from outside the symbolic package passes the '
               f'seal guard itself', f'{f.module.relpath}:{c.lineno}',
               '' if not res else f'{res[0][1]} at {res[0][2]} reachable with no seal guard through {m.qualname}')


PREDICATES = {
    'treats_as_sealed': ('is_under_sealed_scope', 'sym_sealed'),
    'writtable_via_accessors': ('is_under_accessor_writable_scope', 'accessor_writable'),
    'accepts_partial': ('is_under_partial_scope', 'allow_partial'),
}


def rule_e(ctx):
  """Each predicate: v = scope_getter(); return object flag iff v is None."""
  idx = ctx.index
  for name, (getter, flag) in PREDICATES.items():
    f = idx.func(f'pyglove.core.symbolic.base.{name}')
    g = C.cfg_of(f.node)
    problems = []
    # 1. the scope getter is read
    scope_vars = set()
    for n in ast.walk(f.node):
      if isinstance(n, ast.Assign) and A.has_call(n.value, lambda d: d.split('.')[-1] == getter):
        scope_vars.update(A.assigned_names(n.targets[0]))
    if not scope_vars:
      problems.append(f'scope getter {getter} is not read')
    # 2. every return: either scope var (when not None) or object flag (when None)
    rets = [n for n in ast.walk(f.node) if isinstance(n, ast.Return)]
    saw_flag = saw_scope = False
    for r in rets:
      v = r.value
      if isinstance(v, ast.IfExp):
        # `flag if scope is None else scope`
        test_none = _is_none_test(v.test, scope_vars)
        if test_none is None:
          problems.append('conditional return not keyed on `scope is None`')
          continue
        a, b = (v.body, v.orelse) if test_none else (v.orelse, v.body)
        if not _reads_attr(a, flag):
          problems.append(f'object flag {flag} not returned when scope is None')
        else:
          saw_flag = True
        if not (isinstance(b, ast.Name) and b.id in scope_vars):
          problems.append('scope value not returned when set')
        else:
          saw_scope = True
      elif isinstance(v, ast.Name) and v.id in scope_vars:
        saw_scope = True
      elif v is not None and _reads_attr(v, flag):
        saw_flag = True
        # must be under `scope is None` test
        gn = [k for k in g.nodes if k.kind == 'return' and k.ast is r]
        tests = [k for k in g.nodes if k.kind == 'test' and _is_none_test(k.ast, scope_vars) is not None]
        if not tests:
          problems.append('object flag returned without testing the scope value')
        else:
          t = tests[0]
          none_lab = 'true' if _is_none_test(t.ast, scope_vars) else 'false'
          other = 'false' if none_lab == 'true' else 'true'
          blocked = {(t.id, m.id, l) for m, l in t.succ if l == none_lab}
          seen, _ = g.reach(g.entry, blocked_edges=blocked)
          if gn and gn[0].id in seen:
            problems.append('object flag returned on the path where the scope value is set')
      else:
        problems.append(f'unrecognised return: {A.unparse(v)}')
    if not saw_flag:
      problems.append(f'object flag {flag} never returned')
    if not saw_scope:
      problems.append('scope value never returned')
    ctx.ob('C08.e', f.fq, not problems,
           f'returns the scoped override when it is not None, else the object '
           f'flag `{flag}`', f.loc, '; '.join(problems))


def _is_none_test(test, names):
  """True for `x is None`, False for `x is not None`, else None."""
  if (isinstance(test, ast.Compare) and len(test.ops) == 1
      and isinstance(test.left, ast.Name) and test.left.id in names
      and isinstance(test.comparators[0], ast.Constant)
      and test.comparators[0].value is None):
    if isinstance(test.ops[0], ast.Is):
      return True
    if isinstance(test.ops[0], ast.IsNot):
      return False
  return None


def _reads_attr(node, attr):
  return any(isinstance(n, ast.Attribute) and n.attr == attr for n in ast.walk(node))


SEAL_NAMES = ('seal', 'sym_seal')


def _alias_target(f):
  """`def m(self, x): return self.other(x)` -> 'other' (docstring allowed)."""
  body = [b for b in f.node.body if not (isinstance(b, ast.Expr) and isinstance(b.value, ast.Constant))]
  if len(body) == 1 and isinstance(body[0], ast.Return) and isinstance(body[0].value, ast.Call):
    d = A.call_name(body[0].value) or ''
    if d.startswith('self.') and d.count('.') == 1:
      return d.split('.')[1]
  return None


def _resolve_seal(idx, cls_fq, name):
  """What `value.<name>(flag)` runs for an instance of cls: aliases followed through the MRO."""
  seen = set()
  while name not in seen:
    seen.add(name)
    f = idx.lookup_method(cls_fq, name)
    if f is None:
      return None
    t = _alias_target(f)
    if t not in SEAL_NAMES:
      return f
    name = t
  return None


def _flag_param(f):
  a = f.node.args.args
  return a[1].arg if len(a) > 1 else None


def rule_f(ctx):
  """Deep seal: each seal override reaches every symbolic child + base seal,
  and BOTH public names (`seal`, `sym_seal` - documented as aliases) run it."""
  idx = ctx.index
  SUP = tuple(f'super().{n}' for n in SEAL_NAMES)
  deep = {}
  for cls_fq in (S.LIST, S.DICT, S.OBJECT):
    own = [idx.lookup_method(cls_fq, n) for n in SEAL_NAMES]
    own = [f for f in own if f is not None and idx.enclosing_class(f).fq == cls_fq and _alias_target(f) not in SEAL_NAMES]
    if not own:
      raise AnalysisError(f'{cls_fq}.seal override vanished')
    deep[cls_fq] = own[0]
    for n in SEAL_NAMES:
      r = _resolve_seal(idx, cls_fq, n)
      ctx.ob('C08.f', f'{cls_fq.split(".")[-1]}.{n}#deep', r is not None and r.fq == own[0].fq,
             f'`{n}` on a container/object runs the deep seal (the two names are documented as aliases)',
             (r or own[0]).loc,
             f'`{n}` resolves to {r.fq if r else "nothing"}, which only stores the flag of the node: the descendants '
             f'keep their state (d.{n}(True); d.child.x = 1 succeeds)')
  for cls_fq in (S.LIST, S.DICT):
    f = deep[cls_fq]
    flag = _flag_param(f)
    problems = []
    loops = [n for n in ast.walk(f.node) if isinstance(n, ast.For)
             and A.has_call(n.iter, lambda d: d in ('self.sym_values', 'self.sym_items'))]
    child_seal = False
    for lp in loops:
      tv = set(A.assigned_names(lp.target))
      for c in A.calls_in(lp):
        d = A.call_name(c)
        if d and d.split('.')[-1] in SEAL_NAMES and d.split('.')[0] in tv:
          if c.args and isinstance(c.args[0], ast.Name) and c.args[0].id == flag:
            child_seal = True
          elif any(isinstance(k.value, ast.Name) and k.value.id == flag for k in c.keywords):
            child_seal = True
    if not child_seal:
      problems.append('no loop over sym_values()/sym_items() sealing each child with the flag argument')
    sup = A.find_calls(f.node, lambda d: d in SUP)
    g = C.cfg_of(f.node)
    if not sup:
      problems.append('base seal not called')
    else:
      # no path skips the base seal - and none skips the walk over the children: the state of
      # the container says nothing about its descendants (a child that was sealed before it was
      # inserted, or inserted under as_sealed(False)), so `if self.is_sealed == sealed: return`
      # is NOT a harmless shortcut: p.seal(False) would leave a sealed child sealed
      pass_pred = lambda n: any(A.call_name(c) in SUP for c in n.calls())
      wit = g.can_skip(g.entry, pass_pred)
      if wit:
        problems.append(f'a path skips the base seal: {wit}')
      heads = [n for n in g.nodes if n.kind == 'iter' and any(n.ast is lp for lp in loops)]
      wl = g.can_skip(g.entry, lambda n: n in heads) if heads else 'no child loop'
      if wl:
        problems.append(f'a path returns without visiting the children: {wl} - unsealing (or sealing) the container '
                        f'leaves descendants in the other state')
    ctx.ob('C08.f', f'{cls_fq}.seal', not problems,
           'seal visits every symbolic child with the same flag and then the '
           'base seal', f.loc, '; '.join(problems))
  f = deep[S.OBJECT]
  flag = _flag_param(f)
  is_cont_name = lambda d: d in tuple(f'self._sym_attributes.{n}' for n in SEAL_NAMES)
  cont = A.find_calls(f.node, is_cont_name)
  sup = A.find_calls(f.node, lambda d: d in SUP)
  ok_arg = all(c.args and isinstance(c.args[0], ast.Name) and c.args[0].id == flag
               for c in cont + sup)
  g = C.cfg_of(f.node)
  # no early return on an equal flag is tolerated (it was, until the same shortcut in
  # Dict/List.seal turned out to be a defect: the object's flag says nothing about a child)
  is_cont = lambda n: any(is_cont_name(A.call_name(c) or '') for c in n.calls())
  is_sup = lambda n: any(A.call_name(c) in SUP for c in n.calls())
  skip = g.can_skip(g.entry, is_cont)
  skip2 = g.can_skip(g.entry, is_sup)
  ok = bool(cont) and bool(sup) and ok_arg and not skip and not skip2
  ctx.ob('C08.f', S.OBJECT + '.seal', ok,
         'Object.seal seals the attribute container and the object itself with '
         'the same flag on every path', f.loc,
         'container/base seal missing, skipped on some path, or called with a different flag')
  early = [n for n in g.nodes if n.kind == 'test' and _reads_attr(n.ast, 'is_sealed')]
  # construction: an object born sealed has a sealed attribute container.
  fi = idx.lookup_method(S.OBJECT, '__init__')
  ctor = [c for c in A.calls_in(fi.node) if (A.call_name(c) or '').endswith('Dict')
          and A.kwarg(c, 'as_object_attributes_container') is not None]
  problems = []
  if len(ctor) != 1:
    problems.append('attribute container construction not found')
  else:
    sk = A.kwarg(ctor[0], 'sealed')
    sup_init = [c for c in A.calls_in(fi.node) if A.call_name(c) == 'super().__init__']
    born = bool(sup_init) and isinstance(A.kwarg(sup_init[0], 'sealed'), ast.Name)
    same = (isinstance(sk, ast.Name) and born and sk.id == A.kwarg(sup_init[0], 'sealed').id)
    final = [c for c in A.calls_in(fi.node) if A.call_name(c) in ('self.seal', 'self.sym_seal') and c.args
             and isinstance(c.args[0], ast.Name) and born and c.args[0].id == A.kwarg(sup_init[0], 'sealed').id]
    if not same and not (final and not early):
      problems.append('the attribute container is not created with the object\'s sealed flag, and the '
                      'final self.seal(sealed) is a no-op once the flag is already set'
                      if early else 'neither the container is created sealed nor self.seal(sealed) is called')
  ctx.ob('C08.f', fi.fq + '#born-sealed', not problems,
         'an object constructed sealed has its attribute container (hence all '
         'descendants) sealed', fi.loc, '; '.join(problems))
  # construction of containers: List(..., sealed=True) / Dict(..., sealed=True)
  # deep-seal through the final self.seal(sealed); because seal() returns early
  # when the own flag already equals the argument, the base constructor must
  # not set the flag first.
  for cls_fq in (S.LIST, S.DICT):
    fi = idx.lookup_method(cls_fq, '__init__')
    fs = _resolve_seal(idx, cls_fq, 'seal')
    gi = C.cfg_of(fi.node)
    problems = []
    seal_calls = [k for k in gi.nodes if k.ast is not None and any(A.call_name(c) in ('self.seal', 'self.sym_seal') for c in k.calls())]
    if not seal_calls:
      problems.append('the constructor no longer calls self.seal(sealed)')
    else:
      if gi.can_skip(gi.entry, lambda n: n in seal_calls):
        problems.append('a normal path through the constructor skips self.seal(sealed)')
      c = [c for c in seal_calls[0].calls() if A.call_name(c) in ('self.seal', 'self.sym_seal')][0]
      flag = c.args[0] if c.args else A.kwarg(c, 'sealed')
      if not isinstance(flag, ast.Name):
        problems.append('self.seal is not called with the constructor\'s sealed argument')
    has_early = any(n.kind == 'test' and 'is_sealed' in A.unparse(n.ast) for n in C.cfg_of(fs.node).nodes)
    sup_init = [c for c in A.calls_in(fi.node) if (A.call_name(c) or '') in ('super().__init__', 'base.Symbolic.__init__')]
    for c in sup_init:
      sk = A.kwarg(c, 'sealed')
      if sk is None:
        # flags collected in a dict first: base.__init__(self, **flags)
        for kw in c.keywords:
          if kw.arg is None and isinstance(kw.value, ast.Name):
            for _, dv in _D.defs_of(fi.node, kw.value.id):
              if isinstance(dv, ast.Call) and A.call_name(dv) == 'dict' and A.kwarg(dv, 'sealed') is not None:
                sk = A.kwarg(dv, 'sealed')
              elif isinstance(dv, ast.Dict):
                for k_, v_ in zip(dv.keys, dv.values):
                  if k_ is not None and A.const_str(k_) == 'sealed':
                    sk = v_
            # flags['sealed'] = x
            for n_ in ast.walk(fi.node):
              if isinstance(n_, ast.Assign) and isinstance(n_.targets[0], ast.Subscript) \
                  and A.unparse(n_.targets[0].value) == kw.value.id and A.const_str(n_.targets[0].slice) == 'sealed':
                sk = n_.value
      if has_early and sk is not None and not (isinstance(sk, ast.Constant) and sk.value is False):
        problems.append(f'the base constructor already sets the flag (sealed={A.unparse(sk)}): the final '
                        f'self.seal(sealed) returns early and no child is sealed')
    ctx.ob('C08.f', fi.fq + '#born-sealed', not problems,
           'a container constructed sealed seals all its descendants (the deep seal at the end of the '
           'constructor is not short-circuited)', fi.loc, '; '.join(problems))
  # Symbolic.sym_seal stores the flag
  f = idx.func(S.SYMBOLIC + '.sym_seal')
  ok = any(A.call_name(c) == 'self._set_raw_attr' and c.args
           and A.const_str(c.args[0]) == '_sealed'
           and isinstance(c.args[1], ast.Name) and c.args[1].id == f.node.args.args[1].arg
           for c in A.calls_in(f.node))
  ctx.ob('C08.f', f.fq, ok, 'sym_seal stores its argument into _sealed', f.loc,
         '_sealed is not assigned from the argument')


FLAG_WRITERS = {
    S.SYMBOLIC + '.__init__': 'constructor',
    S.SYMBOLIC + '.sym_seal': 'the seal setter',
    S.SYMBOLIC + '.set_accessor_writable': 'the accessor-writable setter',
}


def rule_h(ctx):
  """Who may change the protection flags: `_sealed` / `_accessor_writable` are
  written only by the constructor and their setters (use_value_spec(None) used
  to re-open accessor writes as a side effect: the table allowed it with the
  reason 'documented', which it is not - corrected); and no mutator drops the
  value spec on the way (Dict.clear parks the spec in a local instead)."""
  idx = ctx.index
  flags_ = ('_sealed', '_accessor_writable')
  bad = []
  n = 0
  for rel in FILES:
    m = idx.by_relpath.get(rel)
    if m is None:
      continue
    for f in m.funcs.values():
      for x in ast.walk(f.node):
        hit = None
        if isinstance(x, ast.Assign):
          for t in x.targets:
            d = A.dotted(t)
            if d and d.startswith('self.') and d.split('.')[-1] in flags_:
              hit = d.split('.')[-1]
        elif isinstance(x, ast.Call) and (A.call_name(x) or '') in ('self._set_raw_attr', 'object.__setattr__', 'setattr'):
          for a_ in x.args[:2]:
            if A.const_str(a_) in flags_:
              hit = A.const_str(a_)
        if hit:
          n += 1
          if f.fq not in FLAG_WRITERS:
            bad.append(f'{f.qualname} writes {hit} (line {x.lineno})')
  ctx.ob('C08.h', 'protection-flag-writers', not bad and n >= 3,
         'the sealed / accessor-writable flags are written only by the constructor and their setters',
         'pyglove/core/symbolic/base.py:1', '; '.join(bad) or 'flag writers not found')
  # no container mutator drops the spec
  for cls_fq in (S.LIST, S.DICT):
    c = idx.cls(cls_fq)
    for name, f in sorted(c.methods.items()):
      if name in ('use_value_spec', '__init__', '__setstate__', '_sym_clone'):
        continue
      # use_value_spec(None) is no more than `self._value_spec = None` since fix
      # 5bec45b: a mutator may use either to park the spec (the obligation that
      # forbade the call was withdrawn with the side effect it guarded against)
      calls = [x for x in A.calls_in(f.node) if (A.call_name(x) or '') == 'self.use_value_spec' and x.args
               and isinstance(x.args[0], ast.Constant) and x.args[0].value is None]
      if (A.has_call(f.node, lambda d: d == 'self.use_value_spec')):
        # the re-application writes defaults through the item accessor
        # (Schema.apply: `dict_obj[key] = value`): not a user assignment, so it
        # runs with accessor writes allowed, else accessor_writable=False makes
        # the mutator fail half-way (storage already emptied)
        re_apply = [x for x in A.calls_in(f.node) if (A.call_name(x) or '') == 'self.use_value_spec' and x not in calls]
        def in_writable_scope(call):
          for w in ast.walk(f.node):
            if isinstance(w, ast.With) and any(call is y for b in w.body for y in ast.walk(b)):
              for it in w.items:
                e = it.context_expr
                if isinstance(e, ast.Call) and (A.call_name(e) or '').split('.')[-1] == 'allow_writable_accessors' \
                    and (not e.args or A.unparse(e.args[0]) == 'True'):
                  return True
          return False
        outside = [x.lineno for x in re_apply if not in_writable_scope(x)]
        ctx.ob('C08.h', f.fq + '#refill-scope', not outside,
               'a mutator re-applies the value spec (which writes defaults through the item accessor) under '
               'allow_writable_accessors(True): accessor_writable=False concerns user assignments only',
               f.loc, f'use_value_spec at line(s) {outside} runs with the object\'s own accessor_writable flag: on an '
               f'accessor_writable=False value the call raises after the storage was changed')


def rule_g(ctx):
  """Scoped overrides: each scope installs exactly its argument (None = no
  override) and its getter reads the same key."""
  from sa.rules import c17
  idx = ctx.index
  m = idx.module('pyglove.core.symbolic.flags')
  for scope, getter in (('as_sealed', 'is_under_sealed_scope'),
                        ('allow_writable_accessors', 'is_under_accessor_writable_scope'),
                        ('allow_partial', 'is_under_partial_scope')):
    fs, fg = m.funcs.get(scope), m.funcs.get(getter)
    if fs is None or fg is None:
      raise AnalysisError(f'flags.{scope}/{getter} vanished')
    problems = c17.scope_installs_param(fs, idx)
    ks = {c17.scope_key(idx, m, fs)}
    kg = {c17._const_value(idx, m, c.args[0]) for c in A.calls_in(fg.node)
          if (A.call_name(c) or '').endswith('thread_local_get') and c.args}
    if len(ks) != 1 or None in ks or ks != kg:
      problems.append(f'scope sets {sorted(ks)} but getter reads {sorted(kg)}')
    # getter default is None (no scope => per-object flag decides)
    for c in A.calls_in(fg.node):
      if (A.call_name(c) or '').endswith('thread_local_get'):
        if not (len(c.args) == 2 and isinstance(c.args[1], ast.Constant) and c.args[1].value is None):
          problems.append('getter default is not None')
    ctx.ob('C08.g', f'{m.name}.{scope}', not problems,
           'the scoped override installs exactly the value given (True/False/None) '
           'under the key its getter reads; outside any scope the getter yields None',
           fs.loc, '; '.join(problems))


def rule_j(ctx):
  """The scoped overrides (as_sealed, allow_writable_accessors) "take precedence
  ... exactly as documented" only if the scope manager behind them is sound: it
  saves what it sees WHEN IT IS ENTERED and puts exactly that back on every way
  out.  The generator managers of utils/thread_local.py are therefore decided
  here as well, with the scope rules of C17 (a: inverse on every exit, b: the
  restored value is a read taken at entry - not one captured when the manager
  object was created, c: per-thread storage)."""
  from sa.rules import c17
  idx = ctx.index
  m = idx.by_relpath.get('pyglove/core/utils/thread_local.py')
  if m is None:
    raise AnalysisError('utils/thread_local.py vanished')
  before = len(ctx.obs)
  n = 0
  for f in sorted(m.funcs.values(), key=lambda x: x.fq):
    if any(d.endswith('contextmanager') for d in A.decorator_names(f.node)):
      n += 1
      c17.analyse_generator(ctx, f)
  for o in ctx.obs[before:]:
    o.rule = 'C08.j'
  if n < 1:
    raise AnalysisError('no scope manager found in utils/thread_local.py')


PERMISSIVE = {'allow_writable_accessors': 'True', 'as_sealed': 'False'}
NOTIFIERS = ('_notify_field_updates', '_on_change', '_on_bound', '_on_parent_change', '_on_path_change')


def _reaches_notifier(idx, cls_fq, roots, depth=4):
  """A witness chain from the statements `roots` (of a method of cls) to a
  notification, following calls on the same object (incl. `del self[k]` and
  `self[k] = v`); None when no notifier is reachable within `depth`."""
  seen = set()
  frontier = [(roots, None, ())]
  for _ in range(depth):
    nxt = []
    for nodes, f, chain in frontier:
      for root in nodes:
        for c in A.calls_in(root):
          d = A.call_name(c) or ''
          if d.split('.')[0] == 'self' and d.split('.')[-1] in NOTIFIERS:
            return chain + (d,)
      for _, name, recv in S.self_delegations(idx, f, nodes):
        owner = cls_fq if recv == 'self' else S.DICT
        callee = idx.lookup_method(owner, name)
        if callee is None or callee.fq in seen:
          continue
        seen.add(callee.fq)
        nxt.append(([callee.node], callee, chain + (callee.qualname,)))
    frontier = nxt
  return None


def rule_l(ctx):
  """The library's own use of a permissive scope (allow_writable_accessors(True),
  as_sealed(False)) covers its own write only: no change notification - which runs
  user callbacks (onchange_callback, _on_change, _on_bound) - is reachable from the
  body of such a `with` unless notifications are switched off in the same scope.
  Otherwise a callback can write to ANOTHER protected value while the override,
  which "takes precedence over per-object flags", is still installed."""
  idx = ctx.index
  n = 0
  for rel in FILES:
    m = idx.by_relpath.get(rel)
    if m is None:
      continue
    for f in sorted(m.funcs.values(), key=lambda x: x.fq):
      cls = idx.enclosing_class(f)
      if cls is None:
        continue
      stack = []
      def visit(stmts, quiet):
        nonlocal n
        for st in stmts:
          if isinstance(st, (ast.FunctionDef, ast.AsyncFunctionDef, ast.ClassDef)):
            continue
          if isinstance(st, ast.With):
            perm, q = None, quiet
            for it in st.items:
              e = it.context_expr
              if not isinstance(e, ast.Call):
                continue
              nm = (A.call_name(e) or '').split('.')[-1]
              arg = A.unparse(e.args[0]) if e.args else None
              if nm in PERMISSIVE and arg == PERMISSIVE[nm]:
                perm = f'{nm}({arg})'
              if nm == 'notify_on_change' and arg == 'False':
                q = True
            if perm:
              n += 1
              wit = None if q else _reaches_notifier(idx, cls.fq, st.body)
              ctx.ob('C08.l', f'{f.qualname}#{perm}', wit is None,
                     'an internal permissive scope encloses no change notification (user callbacks do not run '
                     'with the override installed)', f'{rel}:{st.lineno}',
                     f'under {perm} the body reaches {" -> ".join(wit or ())}: a callback run from there may '
                     f'write to any other accessor-protected / sealed value')
            visit(st.body, q)
            continue
          for fld in ('body', 'orelse', 'finalbody'):
            visit(getattr(st, fld, []) or [], quiet)
          for h in getattr(st, 'handlers', []) or []:
            visit(h.body, quiet)
      visit(f.node.body, False)
  # zero scopes is a legitimate state (nothing can leak); the thorough tier keeps the positive
  # example `pop-under-permissive-scope`, which must be found and reported on every run
  ctx.ob('C08.l', 'internal-permissive-scopes', True, f'{n} internal permissive scope(s) examined',
         'pyglove/core/symbolic/dict.py:1')


def rule_m(ctx):
  """INFORMATION ONLY (was armed for an hour, withdrawn - see DESIGN C08):
  `obj.sym_init_args` returns the attribute container, which is accessor-writable
  by design (the NOTE in Object.__init__ says so, and independent demo authors use
  `o.sym_init_args[k] = v` as a write path); the property speaks of accessors OF
  the protected value, so this is reported as an observation, not decided.

  Which API hands out a mutable reference to the storage of a protected
  value: a public method/property of Object that returns the attribute
  container itself (`sym_init_args`) gives callers item/attribute accessors on
  the object's fields.  Those accessors are refused "in the same way" only if
  the container is not more permissive than its owner: either it is created
  with the owner's flag, or its `accessor_writable` consults the owner."""
  idx = ctx.index
  oc = idx.cls(S.OBJECT)
  handed = []
  for name, f in sorted(oc.methods.items()):
    if name.startswith('_'):
      continue
    for r in ast.walk(f.node):
      if isinstance(r, ast.Return) and r.value is not None and A.dotted(r.value) == 'self._sym_attributes':
        handed.append(f)
        break
  if not handed:
    return
  fi = idx.lookup_method(S.OBJECT, '__init__')
  ctor = [c for c in A.calls_in(fi.node) if (A.call_name(c) or '').endswith('Dict')
          and A.kwarg(c, 'as_object_attributes_container') is not None]
  created_with_owner_flag = False
  if ctor:
    aw = A.kwarg(ctor[0], 'accessor_writable')
    created_with_owner_flag = aw is not None and not isinstance(aw, ast.Constant)
  follows_owner = False
  prop = idx.cls(S.DICT).methods.get('accessor_writable')
  if prop is not None:
    g = C.cfg_of(prop.node)
    for n in g.nodes:
      if n.kind == 'test' and _reads_attr(n.ast, '_as_object_attributes_container'):
        for r in ast.walk(prop.node):
          if isinstance(r, ast.Return) and r.value is not None and _reads_attr(r.value, 'accessor_writable') \
              and any(isinstance(x, ast.Attribute) and x.attr in ('sym_parent', '_sym_parent') for x in ast.walk(r.value)):
            follows_owner = True
  for f in handed:
    if not (created_with_owner_flag or follows_owner):
      ctx.info('C08.m', f'{f.qualname}#container-permission',
               f'{f.qualname} returns self._sym_attributes, which is always accessor-writable: '
               f'`obj.{f.name}.x = v` works on an object whose attribute assignment is disabled (by design; not armed)',
               f.loc)


def run(ctx):
  ctx.consult(*FILES, 'pyglove/core/utils/thread_local.py', 'pyglove/core/symbolic/functor.py')
  rule_a(ctx)
  rule_g(ctx)
  rule_b(ctx)
  rule_c(ctx)
  rule_d(ctx)
  rule_e(ctx)
  rule_f(ctx)
  rule_h(ctx)
  rule_j(ctx)
  rule_l(ctx)
  rule_m(ctx)   # information only
  from sa.rules import c18 as _c18
  _c18.rule_k(ctx, 'C08.k')   # a refused `del functor.arg` leaves the functor as it was
  ctx.assume('user subclasses outside the repository are out of scope')
  ctx.assume('Object seal state mirrors its attribute container (checked by C08.f)')
