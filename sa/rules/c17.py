"""C17 — scoped settings restore exactly and stay per thread (DESIGN §3 C17)."""
from __future__ import annotations

import ast
from typing import List, Optional

from sa import astutil as A
from sa import cfg as C
from sa import dataflow as D
from sa.index import AnalysisError

PROP = 'C17'
EXPLANATION = (
    'Every context manager of the library (generator based and class based, '
    'public and private) is enumerated from the source.  For each: (a) every '
    'state change made before the yield has an inverse that is reached on '
    'both the normal and the exceptional edge out of the yield; (b) a '
    'restore-by-set restores the value read before the set; (c) the storage '
    'is thread-local unless the manager is documented process-wide; (d) '
    'outermost-wins of coding.permission; (e) no non-idempotent release '
    'without acquire; (f) one thread-local key per setting and getters read '
    'the key their scope sets; (g) the value read from the enclosing scope is '
    'never modified in place (the inner scope works on a copy, or undoes its '
    'registration in a shared per-thread container).  Interleavings are not explored.')
FLOORS = {'C17.a': 7, 'C17.b': 2, 'C17.c': 7, 'C17.d': 1, 'C17.e': 2, 'C17.f': 7, 'C17.g': 2, 'C17.h': 1, 'C17.i': 1}
FILES = [
    'pyglove/core/utils/thread_local.py', 'pyglove/core/symbolic/flags.py',
    'pyglove/core/utils/contextual.py', 'pyglove/core/utils/formatting.py',
    'pyglove/core/views/base.py', 'pyglove/core/coding/permissions.py',
    'pyglove/core/coding/execution.py', 'pyglove/core/detouring/class_detour.py',
    'pyglove/core/symbolic/class_wrapper.py', 'pyglove/core/hyper/dynamic_evaluation.py',
    'pyglove/core/hyper/base.py', 'pyglove/core/utils/timing.py',
    'pyglove/core/utils/error_utils.py', 'pyglove/core/utils/json_conversion.py',
    'pyglove/core/symbolic/functor.py', 'pyglove/core/typing/callable_ext.py',
    'pyglove/core/views/html/controls/base.py', 'pyglove/core/tuning/protocols.py']

# resource managers that only close a handle: not scoped settings
EXCLUDED_CLASSES = {
    'pyglove.core.io.file_system.File': 'resource handle (close), not a scoped setting',
    'pyglove.core.io.sequence.Sequence': 'resource handle (close), not a scoped setting',
}
# managers with no state of their own (exception filters)
STATELESS_OK = {
    'pyglove.core.utils.error_utils.catch_errors': 'exception filter: installs no state',
    'pyglove.core.tuning.protocols.Feedback.ignore_race_condition': 'exception filter: installs no state',
}
# documented process-wide managers (property statement)
PROCESS_WIDE = {
    'pyglove.core.utils.json_conversion._TypeRegistry.load_types_for_deserialization':
        'on-demand deserialization types are documented process-wide',
    'pyglove.core.hyper.dynamic_evaluation.dynamic_evaluate':
        'process-wide when per_thread=False (documented)',
    'pyglove.core.hyper.dynamic_evaluation.DynamicEvaluationContext.collect':
        'stack helper selects thread-local or global by per_thread (documented)',
    'pyglove.core.hyper.dynamic_evaluation.DynamicEvaluationContext.apply':
        'stack helper selects thread-local or global by per_thread (documented)',
    'pyglove.core.detouring.class_detour.detour':
        'the detour stack is thread-local; class __new__ patching is process-wide by design',
}

TLS_FUNCS = {
    'thread_local_set': 'tls_set', 'thread_local_del': 'tls_del',
    'thread_local_push': 'tls_push', 'thread_local_pop': 'tls_pop',
    'thread_local_increment': 'tls_inc', 'thread_local_decrement': 'tls_dec',
}
RELEASES = {
    'tls_set': {'tls_set', 'tls_del'},
    'tls_push': {'tls_pop'},
    'tls_inc': {'tls_dec'},
    'setattr': {'setattr', 'delattr'},
    'append': {'pop', 'remove'},
    'enter': {'leave'},
    'setfn': {'setfn'},
    'store_sub': {'store_sub', 'pop', 'del_sub'},
}
NON_IDEMPOTENT = {'tls_pop', 'pop', 'leave', 'tls_dec', 'remove'}
SET_RESTORES = {('tls_set', 'tls_set'), ('setattr', 'setattr'), ('setfn', 'setfn'),
                ('store_sub', 'store_sub')}


class Op:
  def __init__(self, kind, key, node, site, value=None):
    self.kind, self.key, self.node, self.site, self.value = kind, key, node, site, value

  def __repr__(self):
    return f'{self.kind}({self.key})@{getattr(self.site, "lineno", 0)}'


def _ops_of_exprs(node, roots) -> List[Op]:
  out = []
  for e in roots:
    for n in A.walk_local(e):
      if isinstance(n, ast.Call):
        d = A.call_name(n)
        if d is None:
          continue
        last = d.split('.')[-1]
        recv = d.rpartition('.')[0]
        if last in TLS_FUNCS and n.args:
          out.append(Op(TLS_FUNCS[last], A.unparse(n.args[0]), node, n,
                        n.args[1] if len(n.args) > 1 else None))
        elif d == 'setattr' and len(n.args) == 3:
          out.append(Op('setattr', A.unparse(n.args[0]) + ':' + A.unparse(n.args[1]), node, n, n.args[2]))
        elif d == 'delattr' and len(n.args) == 2:
          out.append(Op('delattr', A.unparse(n.args[0]) + ':' + A.unparse(n.args[1]), node, n))
        elif last in ('append', 'push') and recv and len(n.args) == 1 and '.' not in last:
          out.append(Op('append', recv, node, n, n.args[0]))
        elif last == 'pop' and recv:
          out.append(Op('pop', recv, node, n))
        elif last == 'remove' and recv:
          out.append(Op('remove', recv, node, n))
        elif last == 'enter_scope' and recv:
          out.append(Op('enter', recv, node, n))
        elif last == 'leave_scope' and recv:
          out.append(Op('leave', recv, node, n))
        elif last == 'set_dynamic_evaluate_fn':
          out.append(Op('setfn', 'dynamic_evaluate_fn', node, n, n.args[0] if n.args else None))
      elif isinstance(n, ast.Assign):
        for t in n.targets:
          if isinstance(t, ast.Subscript):
            out.append(Op('store_sub', A.unparse(t.value), node, n, n.value))
          elif isinstance(t, ast.Attribute):
            out.append(Op('store_attr', A.unparse(t), node, n, n.value))
      elif isinstance(n, ast.Delete):
        for t in n.targets:
          if isinstance(t, ast.Subscript):
            out.append(Op('del_sub', A.unparse(t.value), node, n))
  return out


_INLINE = {}     # (index id) -> context for helper inlining


def set_inline_context(idx, func):
  _INLINE['ctx'] = (idx, func)


def _subst(text, mapping):
  """Substitute whole-identifier parameter names in an expression text."""
  import re
  for k, v in mapping.items():
    text = re.sub(r'(?<![\w.])' + re.escape(k) + r'(?![\w])', v, text)
  return text


def _local_aliases(fn_node):
  """Locals with exactly one definition that is a plain name / dotted
  attribute / constant (key temporaries such as `tls_key = Cls._KEY`)."""
  out = {}
  counts = {}
  for n in ast.walk(fn_node):
    if isinstance(n, ast.Assign) and len(n.targets) == 1 and isinstance(n.targets[0], ast.Name):
      nm = n.targets[0].id
      counts[nm] = counts.get(nm, 0) + 1
      if isinstance(n.value, (ast.Name, ast.Attribute, ast.Constant)) and A.dotted(n.value) or isinstance(n.value, ast.Constant):
        out[nm] = A.unparse(n.value)
    elif isinstance(n, (ast.AugAssign, ast.For, ast.With, ast.NamedExpr)):
      for t in ([n.target] if hasattr(n, 'target') else []):
        for nm in A.assigned_names(t):
          counts[nm] = counts.get(nm, 0) + 2
  params = set(A.param_names(fn_node))
  return {k: v for k, v in out.items() if counts.get(k) == 1 and k not in params}


def ops_at(node) -> List[Op]:
  """State operations performed at a CFG node, including those of a small
  private helper it calls (one level): the helper's operations are reported at
  the call node with the helper's parameters replaced by the call arguments,
  but only operations the helper performs on EVERY path count (must-pass)."""
  out = _ops_of_exprs(node, node.exprs())
  ctx = _INLINE.get('ctx')
  if ctx is None:
    return out
  idx, func = ctx
  own = _local_aliases(func.node)
  if own:
    for op in out:
      op.key = _subst(op.key, own)
  cls = idx.enclosing_class(func)
  for call in node.calls():
    d = A.call_name(call)
    if not d or d.split('.')[-1] in TLS_FUNCS:
      continue
    callee = None
    offset = 0
    parts = d.split('.')
    if parts[0] == 'self' and len(parts) == 2 and cls is not None:
      callee = idx.lookup_method(cls.fq, parts[1])
      offset = 1
    elif len(parts) == 1:
      r = idx.resolve_name_in_func(func, d, call)
      callee = idx.find_func(r) if r else None
    if callee is None or callee is func or len(list(ast.walk(callee.node))) > 400:
      continue
    if any(isinstance(x, (ast.Yield, ast.YieldFrom)) for x in ast.walk(callee.node)):
      continue
    ps = A.param_names(callee.node)
    mapping = {}
    for i, a in enumerate(call.args):
      if i + offset < len(ps):
        mapping[ps[i + offset]] = A.unparse(a)
    argmap = {}
    for i, a in enumerate(call.args):
      if i + offset < len(ps):
        argmap[ps[i + offset]] = a
    for kw in call.keywords:
      if kw.arg:
        mapping[kw.arg] = A.unparse(kw.value)
        argmap[kw.arg] = kw.value
    for k_, v_ in _local_aliases(callee.node).items():
      mapping.setdefault(k_, v_)
    g = C.cfg_of(callee.node)
    by_kind = {}
    for k in g.nodes:
      if k.ast is None:
        continue
      for op in _ops_of_exprs(k, k.exprs()):
        by_kind.setdefault((op.kind, _subst(op.key, mapping)), []).append((k, op))
    # group release alternatives that together cover every path
    all_ops = [(k, op) for lst in by_kind.values() for k, op in lst]
    for (kind, key), lst in by_kind.items():
      same_key = [(k, op) for k, op in all_ops if _subst(op.key, mapping) == key]
      nodes_same = {k.id for k, _ in same_key}
      must = g.can_skip(g.entry, lambda n_, ids=nodes_same: n_.id in ids) is None
      if not must:
        continue
      for k, op in lst:
        v = op.value
        if isinstance(v, ast.Name) and v.id in argmap:
          v = argmap[v.id]
        out.append(Op(kind, key, node, call, v))
  return out


def context_managers(idx):
  gens, classes = [], []
  for f in idx.all_funcs():
    if any(d.endswith('contextmanager') for d in A.decorator_names(f.node)):
      gens.append(f)
  for c in idx.all_classes():
    if '__enter__' in c.methods and '__exit__' in c.methods:
      classes.append(c)
  return gens, classes


def _before_after(g, ys):
  """Nodes that can reach a yield (before) / are reachable from one (after)."""
  before, after = set(), set()
  for y in ys:
    seen, _ = g.reach(y)
    after |= seen
  for n in g.nodes:
    if n.ast is None:
      continue
    seen, _ = g.reach(n, follow_exc=False)
    if any(y.id in seen for y in ys) and not any(n is y for y in ys):
      before.add(n.id)
  return before, after


def _local_tls_derived(fn, name):
  """Is local `name` defined from a thread-local read (so mutating it mutates
  per-thread state)?"""
  for _, v in D.defs_of(fn, name):
    if v is not None and A.has_call(v, lambda d: d.split('.')[-1] in (
        'thread_local_get', 'thread_local_peek')):
      return True
  return False


def analyse_generator(ctx, f):
  idx = ctx.index
  set_inline_context(idx, f)
  g = C.cfg_of(f.node)
  ys = [n for n in g.nodes if n.kind == 'yield']
  if not ys:
    raise AnalysisError(f'context manager {f.fq} has no yield')
  before, after = _before_after(g, ys)
  acquires: List[Op] = []
  releases: List[Op] = []
  for n in g.nodes:
    if n.ast is None:
      continue
    # the yield expression itself may contain the acquire (detour)
    for op in ops_at(n):
      if (n.id in before or n in ys) and op.kind in RELEASES:
        acquires.append(op)
      if n.id in after and n not in ys:
        releases.append(op)
  # instance-attribute stores are object state, not a thread-scoped setting
  attr_stores = [op for n in g.nodes if n.ast is not None and n.id in before
                 for op in ops_at(n) if op.kind == 'store_attr']
  for op in attr_stores:
    ctx.info('C17.a', f'{f.fq}#{op.key}', 'instance-attribute store before the yield: '
             'object state, not a thread-scoped setting; not armed',
             f'{f.module.relpath}:{op.site.lineno}')
  # a local container mutated in place counts only if it aliases TLS state
  def relevant(op):
    if op.kind in ('append', 'store_sub'):
      base = op.key.split('.')[0].split('[')[0]
      if base == 'self' or base.startswith('_'):
        return True
      return _local_tls_derived(f.node, base)
    return True
  acquires = [a for a in acquires if relevant(a)]
  # re-registering the container that was just read from the same key is not a
  # setting change (the scoped state is the entry put into the container)
  def is_container_registration(op):
    if op.kind != 'tls_set' or not isinstance(op.value, ast.Name):
      return False
    for _, v in D.defs_of(f.node, op.value.id):
      if v is not None and isinstance(v, ast.Call) and (A.call_name(v) or '').endswith('thread_local_get') \
          and v.args and A.unparse(v.args[0]) == op.key:
        return True
    return False
  for a in acquires:
    if is_container_registration(a):
      ctx.info('C17.a', f'{f.fq}#{a.kind}:{a.key}', 'registration of the container just read '
               'from the same key; the scoped state is the entry stored into it', f.loc)
  acquires = [a for a in acquires if not is_container_registration(a)]
  if not acquires:
    ok = f.fq in STATELESS_OK
    ctx.ob('C17.a', f.fq, ok,
           'context manager installs no state (exception filter)' if ok else
           'state changes of the manager are recognised',
           f.loc, 'no acquire operation recognised in a manager that is not a known exception filter')
    return
  for a in acquires:
    construct = f'{f.fq}#{a.kind}:{a.key}'
    rel = [r for r in releases if r.kind in RELEASES[a.kind] and r.key == a.key]
    rel_nodes = {r.node.id for r in rel}
    # ---- C17.a
    bad = None
    for y in ys:
      for m, lab in y.succ:
        if m.id in rel_nodes:
          continue
        seen, parent = g.reach(m, blocked_nodes=rel_nodes, follow_exc=False)
        seen.add(m.id)
        for tgt in (g.exit, g.raise_exit):
          if tgt.id in seen:
            bad = (lab, tgt.kind, [f'yield@{y.lineno}'] + g.witness_str(parent, tgt))
            break
        if bad:
          break
      if bad:
        break
    exempt = (f.fq == 'pyglove.core.coding.permissions.permission' and bad is not None
              and _permission_restore_free_ok(g, a, rel))
    if exempt:
      ctx.ob('C17.a', construct, True,
             'restore-free path exists only when an outer permission scope is '
             'active and re-installed unchanged (valid while C17.d holds)',
             f'{f.module.relpath}:{a.site.lineno}')
    else:
      ctx.ob('C17.a', construct, bad is None,
             'the state change made before the yield has an inverse reached on '
             'both the normal and the exceptional way out of the yield',
             f'{f.module.relpath}:{a.site.lineno}',
             '' if bad is None else f'{bad[1]} exit reachable from the yield ({bad[0]} edge) without '
             f'undoing {a.kind}({a.key})', None if bad is None else bad[2])
    # ---- C17.h: a user-supplied callable (a parameter of the manager) called
    # while leaving the scope runs only after the state was put back: it may
    # raise, and then a restore placed after it never happens
    params = set(A.param_names(f.node))
    user_calls = [n for n in g.nodes if n.ast is not None and n.id in after and n not in ys and any(
        isinstance(c.func, ast.Name) and c.func.id in params for c in n.calls())]
    for uc in user_calls:
      bad_uc = False
      for y in ys:
        for m, lab in y.succ:
          if m.id in rel_nodes:
            continue
          seen, _ = g.reach(m, blocked_nodes=rel_nodes, follow_exc=False)
          seen.add(m.id)
          if uc.id in seen:
            bad_uc = True
      cname = [c.func.id for c in uc.calls() if isinstance(c.func, ast.Name) and c.func.id in params][0]
      ctx.ob('C17.h', f'{construct}#{cname}', not bad_uc,
             'a caller-supplied callback invoked on exit runs after the scoped state was restored',
             f'{f.module.relpath}:{uc.lineno}',
             f'`{cname}()` can run before {a.kind}({a.key}) is undone: if it raises, the scope is never torn down')
    # ---- C17.b
    for r in rel:
      if (a.kind, r.kind) in SET_RESTORES:
        ok, why = _restores_saved(g, f, a, r)
        ctx.ob('C17.b', f'{construct}->restore@{r.kind}', ok,
               'the restored value derives from a read of the same state taken '
               'before the change', f'{f.module.relpath}:{r.site.lineno}', why)
    # ---- C17.c
    storage = _storage_class(idx, f, a)
    okc = storage != 'process-wide' or f.fq in PROCESS_WIDE
    ctx.ob('C17.c', construct, okc,
           f'storage is per thread ({storage})' if storage != 'process-wide' else
           'process-wide storage only in managers documented process-wide: '
           + PROCESS_WIDE.get(f.fq, ''),
           f'{f.module.relpath}:{a.site.lineno}',
           f'{a.kind}({a.key}) writes process-wide state in a manager not documented process-wide')
    # ---- C17.e
    nonidem = [r for r in rel if r.kind in NON_IDEMPOTENT]
    in_try = any(k == 'body' and t.finalbody for t, k in a.node.trys)
    if nonidem and in_try:
      ok, why = _acquire_cannot_fail_before_push(idx, f, a)
      ctx.ob('C17.e', construct, ok,
             'a non-idempotent release in `finally` is never run for an acquire '
             'that failed before pushing (the acquire touches only the scope '
             'stack before its push)', f'{f.module.relpath}:{a.site.lineno}', why)
    elif nonidem:
      ctx.ob('C17.e', construct, True,
             'acquire is outside the try: a failing acquire never reaches the release',
             f'{f.module.relpath}:{a.site.lineno}')


def _permission_restore_free_ok(g, a, rel):
  """The only restore-free way out passes `outter_perm is None` == False."""
  outer = None
  for n in g.nodes:
    if n.kind == 'stmt' and isinstance(n.ast, ast.Assign) and A.has_call(
        n.ast.value, lambda d: d.endswith('thread_local_get')):
      outer = A.assigned_names(n.ast.targets[0])[0]
  tests = [n for n in g.nodes if n.kind == 'test' and A.unparse(n.ast) == f'{outer} is None']
  if not tests or not rel:
    return False
  blocked_edges = set()
  for t in tests:
    for m, lab in t.succ:
      if lab == 'false':
        blocked_edges.add((t.id, m.id, lab))
  rel_nodes = {r.node.id for r in rel}
  ys = [n for n in g.nodes if n.kind == 'yield']
  for y in ys:
    for m, lab in y.succ:
      seen, _ = g.reach(m, blocked_nodes=rel_nodes, blocked_edges=blocked_edges, follow_exc=False)
      seen.add(m.id)
      if g.exit.id in seen or g.raise_exit.id in seen:
        return False
  return True


READS = ('thread_local_get', 'thread_local_peek', 'getattr', 'get_dynamic_evaluate_fn', 'get')


def _restores_saved(g, f, a, r):
  v = r.value
  if v is None:
    return False, 'restore has no value argument'
  if isinstance(v, ast.Constant):
    return False, f'restores the literal {A.unparse(v)} instead of the saved value'
  names = A.names_read(v)
  if not names:
    return False, f'restore value `{A.unparse(v)}` is not a saved variable'
  ok_any = False
  for nm in names:
    for dn, val in D.reaching_defs(g, r.node, nm):
      if val is None:
        continue
      if A.has_call(val, lambda d: d.split('.')[-1] in READS):
        # the read must happen before the acquire
        seen, _ = g.reach(dn, follow_exc=False)
        if a.node.id in seen:
          ok_any = True
  if not ok_any:
    return False, (f'restore value `{A.unparse(v)}` does not derive from a read of '
                   f'the state taken before the change')
  return True, ''


def _storage_class(idx, f, a):
  if a.kind.startswith('tls_'):
    return 'thread_local API'
  if a.kind == 'setattr':
    obj = a.key.split(':')[0]
    base = obj.split('.')[-1]
    # parameter annotated threading.local / attribute named *_tls
    if 'tls' in base.lower():
      return 'threading.local object'
    for p in f.node.args.args:
      if p.arg == obj and p.annotation is not None and 'local' in A.unparse(p.annotation):
        return 'threading.local object'
    return 'process-wide'
  if a.kind in ('append', 'store_sub'):
    base = a.key.split('.')[0].split('[')[0]
    if _local_tls_derived(f.node, base):
      return 'container read from thread-local storage'
    return 'process-wide'
  if a.kind in ('enter', 'setfn'):
    return 'process-wide'
  return 'process-wide'


def _resolve_method_on_global(idx, f, recv_text, meth):
  """`_global_x.enter_scope` where `_global_x = Cls()` at module level."""
  m = f.module
  val = m.globals.get(recv_text)
  if isinstance(val, ast.Call):
    cn = A.call_name(val)
    if cn:
      r = idx.resolve_in_module(m, cn)
      if r and idx.find_class(r):
        return idx.lookup_method(r, meth)
  return None


def _acquire_cannot_fail_before_push(idx, f, a):
  if a.kind.startswith('tls_'):
    return True, ''
  d = A.call_name(a.site) if isinstance(a.site, ast.Call) else None
  if a.kind == 'append' and d and d.split('.')[-1] == 'append':
    return True, ''
  if d is None:
    return True, ''
  recv, _, meth = d.rpartition('.')
  callee = _resolve_method_on_global(idx, f, recv, meth)
  if callee is None:
    return False, f'cannot resolve the acquire callee `{d}` to verify it'
  params = [p for p in A.param_names(callee.node) if p != 'self']
  g = C.cfg_of(callee.node)
  push_nodes = [n for n in g.nodes if n.ast is not None and any(
      (isinstance(c.func, ast.Attribute) and c.func.attr == 'append')
      or (A.call_name(c) or '').split('.')[-1] == 'thread_local_push' for c in n.calls())]
  if not push_nodes:
    return False, f'no push found in {callee.fq}'
  tainted, _ = D.backward_slice_names(callee.node, set())
  # names derived from parameters (forward closure, flow-insensitive)
  derived = set(params)
  changed = True
  while changed:
    changed = False
    for n in A.walk_local(callee.node):
      tgt = None
      if isinstance(n, ast.Assign):
        tgt, val = n.targets, n.value
      elif isinstance(n, (ast.For, ast.comprehension)):
        tgt, val = [n.target], n.iter
      else:
        continue
      if A.names_read(val) & derived:
        for t in tgt:
          for nm in A.assigned_names(t):
            if nm not in derived:
              derived.add(nm)
              changed = True
  for n in g.nodes:
    if n.ast is None or n in push_nodes:
      continue
    seen, _ = g.reach(n, follow_exc=False)
    if not any(p.id in seen for p in push_nodes):
      continue
    for e in n.exprs():
      for x in A.walk_local(e):
        risky = None
        if isinstance(x, ast.Call):
          dn = A.call_name(x) or ''
          if dn == 'setattr' and x.args and (A.names_read(x.args[0]) & derived):
            risky = f'setattr on caller-supplied object `{A.unparse(x.args[0])}`'
          elif '.' in dn and dn.split('.')[0] in derived and dn.split('.')[0] not in ('self',):
            if dn.split('.')[-1] not in ('append', 'items', 'keys', 'values', 'get', 'copy'):
              risky = f'method call on caller-supplied object `{dn}`'
        elif isinstance(x, ast.Assign):
          for t in x.targets:
            if isinstance(t, ast.Attribute) and (A.names_read(t.value) & derived):
              risky = f'attribute store on caller-supplied object `{A.unparse(t)}`'
        if risky:
          return False, (f'{callee.qualname}: {risky} at line {x.lineno} can raise '
                         f'before the push; the finally then pops the enclosing scope')
  return True, ''


def analyse_class(ctx, c):
  idx = ctx.index
  en, ex = c.methods['__enter__'], c.methods['__exit__']
  set_inline_context(idx, ex)
  ge, gx = C.cfg_of(en.node), C.cfg_of(ex.node)
  acq = [op for n in ge.nodes if n.ast is not None for op in ops_at(n) if op.kind in RELEASES]
  if not acq:
    ctx.ob('C17.a', c.fq, False, 'state changes of the manager are recognised', c.loc,
           'no acquire operation recognised in __enter__')
    return
  # a save stack: `self.<S>.append(<value read from the scope storage>)` in __enter__, popped in
  # __exit__ - the per-entry form of the save slot `self._saved = <read>` (a manager object that
  # is entered again while active needs one saved value per entry).  It is bookkeeping of the
  # manager object, not scope state.
  save_stacks = set()
  for n in ast.walk(en.node):
    if isinstance(n, ast.Call) and isinstance(n.func, ast.Attribute) and n.func.attr == 'append' and n.args \
        and (A.dotted(n.func.value) or '').startswith('self.') \
        and D.may_derive_from_call(en.node, n.args[0], lambda d: d.split('.')[-1] in READS):
      if any(isinstance(x, ast.Call) and isinstance(x.func, ast.Attribute) and x.func.attr == 'pop'
             and A.dotted(x.func.value) == A.dotted(n.func.value) for x in ast.walk(ex.node)):
        save_stacks.add(A.dotted(n.func.value))
  for a in acq:
    if a.key in save_stacks or f'self.{a.key}' in save_stacks:
      continue
    construct = f'{c.fq}#{a.kind}:{a.key}'
    rel = [op for n in gx.nodes if n.ast is not None for op in ops_at(n)
           if op.kind in RELEASES[a.kind] and op.key == a.key]
    rel_nodes = {r.node.id for r in rel}
    seen, parent = gx.reach(gx.entry, blocked_nodes=rel_nodes, follow_exc=False)
    bad = gx.exit.id in seen
    ctx.ob('C17.a', construct, not bad,
           'every normal path through __exit__ undoes the state change of __enter__',
           f'{c.module.relpath}:{a.site.lineno}',
           f'__exit__ can return without undoing {a.kind}({a.key})',
           gx.witness_str(parent, gx.exit) if bad else None)
    # ... and every exceptional one: a statement of __exit__ that runs before the restore and can
    # raise (TimeIt.__exit__ called self.end(exc_value), which formats the exception: a raising
    # __str__ left the scope installed) must not be able to leave without it
    rel_sites = {id(r.site) for r in rel}
    def holds_release(st):
      return any(id(x) in rel_sites for x in ast.walk(st))
    bad_x = False
    for st in ex.node.body:
      if isinstance(st, ast.Try) and any(holds_release(b) for b in st.finalbody):
        break                                  # whatever the body raises, the finally restores
      if holds_release(st):
        break
      if any(isinstance(x, ast.Call) for x in ast.walk(st)):
        bad_x = True                           # a call that may raise, before the restore, unprotected
        break
    bad_x = bad_x and not bad
    ctx.ob('C17.a', construct + '#exceptional', not bad_x,
           'no statement of __exit__ that can raise runs before the restore outside a try/finally',
           f'{c.module.relpath}:{a.site.lineno}',
           f'an exception raised in __exit__ before {a.kind}({a.key}) is undone leaves the scope installed')
    for r in rel:
      if (a.kind, r.kind) in SET_RESTORES:
        # value restored is self.<attr> assigned in __enter__ from a read of the key
        v = r.value
        ok = False
        why = f'restore value `{A.unparse(v)}` is not the value saved in __enter__'
        if isinstance(v, ast.Attribute) and A.dotted(v) and A.dotted(v).startswith('self.'):
          for n in ast.walk(en.node):
            if isinstance(n, ast.Assign) and any(A.unparse(t) == A.dotted(v) for t in n.targets):
              if D.may_derive_from_call(en.node, n.value, lambda d: d.split('.')[-1] in READS):
                ok = True
        elif isinstance(v, ast.Name):
          # popped from the save stack of this manager
          for _, dv in D.defs_of(ex.node, v.id):
            if isinstance(dv, ast.Call) and isinstance(dv.func, ast.Attribute) and dv.func.attr == 'pop' \
                and A.dotted(dv.func.value) in save_stacks:
              ok = True
        ctx.ob('C17.b', f'{construct}->restore@{r.kind}', ok,
               'the restored value is the one read in __enter__ before the change',
               f'{c.module.relpath}:{r.site.lineno}', '' if ok else why)
    ctx.ob('C17.c', construct, a.kind.startswith('tls_'),
           'storage is per thread (thread_local API)', f'{c.module.relpath}:{a.site.lineno}',
           'class-based manager writes non-thread-local state')
  # what __exit__ consults to restore is recorded at EVERY entry: a manager object can be
  # entered again (in another scope), and a slot written only on some paths of
  # __enter__ then still holds what an earlier entry saw
  read_in_exit = {A.dotted(n) for n in ast.walk(ex.node) if isinstance(n, ast.Attribute) and isinstance(n.ctx, ast.Load)
                  and (A.dotted(n) or '').startswith('self.') and (A.dotted(n) or '').count('.') == 1}
  for stk in sorted(save_stacks):
    pushes = [k for k in ge.nodes if k.ast is not None and any(
        isinstance(x.func, ast.Attribute) and x.func.attr == 'append' and A.dotted(x.func.value) == stk for x in k.calls())]
    w = ge.can_skip(ge.entry, lambda n: n in pushes)
    ctx.ob('C17.b', f'{c.fq}#{stk[5:]}:saved-on-every-entry', w is None,
           f'`{stk}`, which __exit__ pops, is pushed on every path through __enter__ (or an exit pops what another '
           f'entry saved)', f'{c.module.relpath}:{pushes[0].lineno}', f'a path through __enter__ pushes nothing: {w}')
  for attr in sorted(read_in_exit):
    assigns = [k for k in ge.nodes if k.kind == 'stmt' and isinstance(k.ast, (ast.Assign, ast.AnnAssign))
               and any(A.unparse(t) == attr for t in A.stmt_targets(k.ast))]
    if not assigns:
      continue
    w = ge.can_skip(ge.entry, lambda n: n in assigns)
    ctx.ob('C17.b', f'{c.fq}#{attr[5:]}:saved-on-every-entry', w is None,
           f'`{attr}`, which __exit__ consults, is recorded on every path through __enter__ (a re-entered manager '
           f'does not restore what an earlier entry saw)', f'{c.module.relpath}:{assigns[0].lineno}',
           f'a path through __enter__ leaves `{attr}` as the previous entry set it: {w}')


def rule_d(ctx):
  idx = ctx.index
  f = idx.func('pyglove.core.coding.permissions.permission')
  g = C.cfg_of(f.node)
  problems = []
  reads = [n for n in g.nodes if n.kind == 'stmt' and isinstance(n.ast, ast.Assign)
           and A.has_call(n.ast.value, lambda d: d.endswith('thread_local_get'))]
  if not reads:
    problems.append('outer permission is not read')
  else:
    outer = A.assigned_names(reads[0].ast.targets[0])[0]
    sets = [n for n in g.nodes if any((A.call_name(c) or '').endswith('thread_local_set') for c in n.calls())]
    tests = [n for n in g.nodes if n.kind == 'test' and A.unparse(n.ast) in (
        f'{outer} is not None', f'{outer} is None')]
    if not sets or not tests:
      problems.append('set / `outer is not None` test vanished')
    else:
      setn = sets[0]
      setcall = [c for c in setn.calls() if (A.call_name(c) or '').endswith('thread_local_set')][0]
      val = setcall.args[1] if len(setcall.args) > 1 else None
      if not isinstance(val, ast.Name):
        problems.append('installed value is not a variable')
      else:
        # form 1: `perm = outer` re-assignment under the `outer is not None` test
        assigns = {n.id for n in g.nodes if n.kind == 'stmt' and isinstance(n.ast, ast.Assign)
                   and A.assigned_names(n.ast.targets[0]) == [val.id]
                   and isinstance(n.ast.value, ast.Name) and n.ast.value.id == outer}
        # form 2: `actual = perm if <outer is None> else outer`
        ifexp_ok = False
        for dn, dv in D.reaching_defs(g, setn, val.id):
          if isinstance(dv, ast.IfExp):
            t = dv.test
            if isinstance(t, ast.Name) and t.id in g._bool_temps:
              t = g._bool_temps[t.id][0]
            tt = A.unparse(t)
            if tt == f'{outer} is None' and A.unparse(dv.orelse) == outer:
              ifexp_ok = True
            if tt == f'{outer} is not None' and A.unparse(dv.body) == outer:
              ifexp_ok = True
        if ifexp_ok:
          pass
        elif not assigns:
          problems.append(f'`{val.id} = {outer}` re-assignment vanished')
        else:
          for m, lab in tests[0].succ:
            if lab == 'true':
              seen, _ = g.reach(m, blocked_nodes=assigns, follow_exc=False)
              seen.add(m.id)
              if m.id not in assigns and setn.id in seen:
                problems.append('an existing outer permission can be replaced by the inner one')
      # the read precedes the set
      seen, _ = g.reach(g.entry, blocked_nodes={reads[0].id}, follow_exc=False)
      if setn.id in seen:
        problems.append('permission set before the outer one is read')
  ctx.ob('C17.d', f.fq, not problems,
         'when an outer permission scope exists its value is the one installed '
         '(outermost wins: inner scopes can never widen)', f.loc, '; '.join(problems))


def _const_value(idx, module, node):
  if isinstance(node, ast.Constant) and isinstance(node.value, str):
    return node.value
  d = A.dotted(node)
  if d is None:
    return None
  parts = d.split('.')
  if len(parts) == 1:
    v = module.globals.get(d)
    if isinstance(v, ast.Constant) and isinstance(v.value, str):
      return v.value
    return None
  # Class.CONST / self.CONST
  for c in module.classes.values():
    if parts[-1] in c.class_attrs and (parts[0] in (c.name, 'self', 'cls')):
      v = c.class_attrs[parts[-1]]
      if isinstance(v, ast.Constant) and isinstance(v.value, str):
        return v.value
  return None


SETTERS = ('thread_local_value_scope', 'thread_local_arg_scope', 'thread_local_set',
           'thread_local_push', 'thread_local_increment', 'thread_local_map')
GETTERS = ('thread_local_get', 'thread_local_peek', 'thread_local_has', 'thread_local_kwargs')


def resolve_scope_call(idx, func, depth=2):
  """(key_ast, value_ast, call_node_in_func) of the thread_local_value_scope
  call a flag scope function returns, looking through private wrappers of the
  same module; key/value are expressed in terms of `func`."""
  for r in [n for n in ast.walk(func.node) if isinstance(n, ast.Return) and isinstance(n.value, ast.Call)]:
    call = r.value
    d = A.call_name(call) or ''
    if d.endswith('thread_local_value_scope') and len(call.args) >= 2:
      return call.args[0], call.args[1], call
    if depth > 0 and '.' not in d:
      tgt = idx.resolve_name_in_func(func, d, call)
      h = idx.find_func(tgt) if tgt else None
      if h is not None and h is not func:
        inner = resolve_scope_call(idx, h, depth - 1)
        if inner is not None:
          k, v, _ = inner
          ps = A.param_names(h.node)
          amap = {ps[i]: a for i, a in enumerate(call.args) if i < len(ps)}
          amap.update({kw.arg: kw.value for kw in call.keywords if kw.arg})
          k = amap.get(k.id, k) if isinstance(k, ast.Name) else k
          v = amap.get(v.id, v) if isinstance(v, ast.Name) else v
          return k, v, call
  return None


def scope_installs_param(func, idx=None):
  """Problems (list) if a flags scope function does not hand its first
  parameter, unmodified on every path, to thread_local_value_scope."""
  g = C.cfg_of(func.node)
  problems = []
  p0 = func.node.args.args[0].arg if func.node.args.args else None
  res = resolve_scope_call(idx, func) if idx is not None else None
  if res is None:
    nodes = [(k, c) for k in g.nodes if k.ast is not None for c in k.calls()
             if (A.call_name(c) or '').endswith('thread_local_value_scope')]
    if not nodes:
      return ['no thread_local_value_scope call']
    res = (nodes[0][1].args[0], nodes[0][1].args[1] if len(nodes[0][1].args) > 1 else None, nodes[0][1])
  key, val, call = res
  knode = [k for k in g.nodes if k.ast is not None and any(c is call for c in k.calls())]
  if not (isinstance(val, ast.Name) and val.id == p0):
    problems.append('the scope does not install its argument')
  elif knode:
    rds = D.reaching_defs(g, knode[0], p0)
    if any(v is not None or dn is not g.entry for dn, v in rds):
      problems.append(f'`{p0}` is re-assigned before it is installed (the scope no longer '
                      f'installs exactly the value it was given, e.g. None = "no override")')
  rets = [k for k in g.nodes if k.kind == 'return']
  if any(not any(c is call for c in r.calls()) for r in rets):
    problems.append('a path returns something other than the scope')
  return problems


def scope_key(idx, module, func):
  res = resolve_scope_call(idx, func)
  if res is None:
    return None
  return _const_value(idx, module, res[0])


def _key_values(idx, f, key_expr, depth=2):
  """Constant values a key expression can take; a key that is a parameter of
  a private helper is resolved at the helper's call sites."""
  kv = _const_value(idx, f.module, key_expr)
  if kv is not None:
    return [(kv, f)]
  if isinstance(key_expr, ast.Name) and key_expr.id in A.param_names(f.node) and depth > 0:
    ps = A.param_names(f.node)
    pos = ps.index(key_expr.id)
    out = []
    for g_ in f.module.funcs.values():
      for c in A.calls_in(g_.node):
        d = A.call_name(c) or ''
        if d.split('.')[-1] != f.name:
          continue
        off = 1 if ps and ps[0] in ('self', 'cls') and d.startswith(('self.', 'cls.')) else 0
        arg = None
        if pos - off < len(c.args) and pos - off >= 0:
          arg = c.args[pos - off]
        for kw in c.keywords:
          if kw.arg == key_expr.id:
            arg = kw.value
        if arg is not None:
          out += _key_values(idx, g_, arg, depth - 1)
    return out
  return []


def rule_f(ctx):
  idx = ctx.index
  uses = {}
  for f in idx.all_funcs():
    if f.module.name == 'pyglove.core.utils.thread_local':
      continue
    for c in A.calls_in(f.node):
      d = A.call_name(c) or ''
      last = d.split('.')[-1]
      if last in SETTERS + GETTERS + ('thread_local_del', 'thread_local_pop', 'thread_local_decrement') and c.args:
        role = 'set' if last in SETTERS else ('get' if last in GETTERS else 'release')
        kvs = _key_values(idx, f, c.args[0])
        if not kvs:
          ctx.ob('C17.f', f'{f.fq}#{A.unparse(c.args[0])}', False,
                 'thread-local keys are compile-time constants', f'{f.module.relpath}:{c.lineno}',
                 f'key expression `{A.unparse(c.args[0])}` is not a resolvable constant')
          continue
        for kv, user in kvs:
          owner = idx.enclosing_class(user)
          group = owner.fq if owner is not None else user.fq
          uses.setdefault(kv, []).append((role, group, user, c))
  if len(uses) < 6:
    raise AnalysisError(f'only {len(uses)} thread-local keys found')
  for kv, us in sorted(uses.items()):
    setters = sorted({g for r, g, _, _ in us if r == 'set'})
    getters = sorted({g for r, g, _, _ in us if r == 'get'})
    problems = []
    if len(setters) > 1:
      problems.append(f'key is set by more than one setting: {setters}')
    if not setters:
      problems.append(f'key is read by {getters} but no scope ever sets it')
    loc = f'{us[0][2].module.relpath}:{us[0][3].lineno}'
    ctx.ob('C17.f', f'tls-key:{kv}', not problems,
           'one thread-local key per setting: exactly one scope sets it', loc,
           '; '.join(problems))
  # flag scope/getter pairing in symbolic.flags
  m = idx.module('pyglove.core.symbolic.flags')
  by_key = {}
  for f in m.funcs.values():
    if f.name.startswith('_'):
      continue
    k = scope_key(idx, m, f)
    if k is not None:
      by_key.setdefault(k, {}).setdefault('scope', []).append(f)
    for c in A.calls_in(f.node):
      d = A.call_name(c) or ''
      if d.split('.')[-1] == 'thread_local_get' and c.args:
        kv = _const_value(idx, m, c.args[0])
        by_key.setdefault(kv, {}).setdefault('get', []).append(f)
  for kv, roles in sorted(by_key.items(), key=lambda x: str(x[0])):
    sc = roles.get('scope', [])
    gt = roles.get('get', [])
    problems = []
    if len(sc) != 1:
      problems.append(f'{len(sc)} scope functions use this key: {[f.name for f in sc]}')
    if len(gt) != 1:
      problems.append(f'{len(gt)} getters read this key: {[f.name for f in gt]}')
    if sc:
      problems += scope_installs_param(sc[0], idx)
    ctx.ob('C17.f', f'flags:{kv}', not problems,
           'each flag key has exactly one scope (installing its argument) and one getter',
           (sc or gt)[0].loc, '; '.join(problems))
  PAIRS = {
      'notify_on_change': 'is_change_notification_enabled',
      'track_origin': 'is_tracking_origin',
      'enable_type_check': 'is_type_check_enabled',
      'allow_writable_accessors': 'is_under_accessor_writable_scope',
      'as_sealed': 'is_under_sealed_scope',
      'allow_partial': 'is_under_partial_scope',
      'auto_call_functors': 'should_call_functors_during_init',
  }
  for scope, getter in PAIRS.items():
    fs, fg = m.funcs.get(scope), m.funcs.get(getter)
    if fs is None or fg is None:
      raise AnalysisError(f'flags.{scope}/{getter} vanished')
    ks = {scope_key(idx, m, fs)}
    kg = {_const_value(idx, m, c.args[0]) for c in A.calls_in(fg.node)
          if (A.call_name(c) or '').endswith('thread_local_get') and c.args}
    ok = len(ks) == 1 and None not in ks and ks == kg
    ctx.ob('C17.f', f'flags.{scope}<->{getter}', ok,
           'the getter reads the key its scope sets', fs.loc,
           f'scope sets {sorted(map(str, ks))}, getter reads {sorted(map(str, kg))}')


def rule_tls_api(ctx):
  """The thread_local API itself stores on a threading.local object."""
  idx = ctx.index
  m = idx.module('pyglove.core.utils.thread_local')
  st = m.globals.get('_thread_local_state')
  ok = isinstance(st, ast.Call) and A.call_name(st) == 'threading.local'
  ctx.ob('C17.c', m.name + '._thread_local_state', ok,
         'the state object behind thread_local_* is a threading.local()',
         m.relpath + ':1', f'_thread_local_state is `{A.unparse(st)}`')
  for fn, op in (('thread_local_set', 'setattr'), ('thread_local_get', 'getattr'),
                 ('thread_local_del', 'delattr'), ('thread_local_has', 'hasattr')):
    f = idx.func(f'{m.name}.{fn}')
    calls = [c for c in A.calls_in(f.node) if A.call_name(c) == op]
    ok = bool(calls) and all(
        isinstance(c.args[0], ast.Name) and c.args[0].id == '_thread_local_state'
        and isinstance(c.args[1], ast.Name) and c.args[1].id == 'key' for c in calls)
    ctx.ob('C17.c', f.fq, ok, f'{fn} operates on _thread_local_state under the given key',
           f.loc, f'{op} target/key changed')
  # contextual / detour / functor objects
  for modname, gname in (('pyglove.core.utils.contextual', '_global_contextual_overrides'),):
    mm = idx.module(modname)
    v = mm.globals.get(gname)
    ok = isinstance(v, ast.Call) and A.call_name(v) == 'threading.local'
    ctx.ob('C17.c', f'{modname}.{gname}', ok, 'contextual overrides live in a threading.local()',
           mm.relpath + ':1', f'{gname} is `{A.unparse(v)}`')
  for fq, attr in (('pyglove.core.detouring.class_detour._DetourContext.__init__', 'self._tls'),):
    f = idx.func(fq)
    ok = any(isinstance(n, ast.Assign) and A.unparse(n.targets[0]) == attr
             and isinstance(n.value, ast.Call) and A.call_name(n.value) == 'threading.local'
             for n in ast.walk(f.node))
    ctx.ob('C17.c', fq, ok, f'{attr} is a threading.local()', f.loc, f'{attr} is not thread-local')
  f = idx.func('pyglove.core.symbolic.functor.Functor.__init__')
  ok = any(isinstance(n, ast.Assign) and A.unparse(n.targets[0]) == 'self._tls'
           and 'threading.local()' in A.unparse(n.value) for n in ast.walk(f.node))
  ctx.ob('C17.c', f.fq + '#_tls', ok, 'Functor._tls is a threading.local()', f.loc,
         'Functor._tls is not thread-local')
  # detour stack lives on self._tls
  f = idx.func('pyglove.core.detouring.class_detour._DetourContext._detour_stack')
  txt = A.unparse(f.node, 2000)
  ok = 'getattr(self._tls' in txt and 'setattr(self._tls' in txt
  ctx.ob('C17.c', f.fq, ok, 'the detour stack is stored on the thread-local object', f.loc,
         'detour stack no longer stored on self._tls')
  # dynamic evaluation: per_thread=True path uses TLS
  f = idx.func('pyglove.core.hyper.base.set_dynamic_evaluate_fn')
  g = C.cfg_of(f.node)
  t = [n for n in g.nodes if n.kind == 'test' and A.unparse(n.ast) == 'per_thread']
  ok = False
  if t:
    for m2, lab in t[0].succ:
      if lab == 'true':
        seen, _ = g.reach(m2, follow_exc=False)
        seen.add(m2.id)
        glob = any(isinstance(g.nodes[i].ast, ast.Assign) and '_global_dynamic_evaluate_fn' in
                   A.unparse(g.nodes[i].ast.targets[0]) for i in seen if g.nodes[i].ast is not None
                   and g.nodes[i].kind == 'stmt')
        tls = any(any((A.call_name(c) or '').endswith('thread_local_set') for c in g.nodes[i].calls())
                  for i in seen if g.nodes[i].ast is not None)
        ok = tls and not glob
  ctx.ob('C17.c', f.fq, ok, 'per_thread=True stores the evaluate fn in thread-local storage only',
         f.loc, 'per_thread=True path writes the process-wide variable or skips TLS')
  f = idx.func('pyglove.core.hyper.dynamic_evaluation._DynamicEvaluationStack.push')
  # structural: the object that receives the push resolves (through locals,
  # conditional expressions and helper returns) to the thread-local or the
  # global stack, selected by context.per_thread
  from sa.rules import c09 as _c09
  from sa import surface as _S
  recvs = set()
  for c in A.calls_in(f.node):
    if isinstance(c.func, ast.Attribute) and c.func.attr == 'append':
      recvs |= _c09._leaf_values(idx, f, c.func.value)
  ok = recvs == {'self._local_stack', 'self._global_stack'} and 'per_thread' in _S.closure_text(idx, f)
  ctx.ob('C17.c', f.fq, ok, 'the evaluation stack is chosen by context.per_thread', f.loc,
         'stack selection changed')


MUTATORS_INPLACE = ('update', 'append', 'extend', 'insert', 'pop', 'popitem', 'clear', 'remove',
                    'add', 'discard', 'setdefault', 'sort', 'reverse')
COPIERS = ('dict', 'list', 'set', 'tuple', 'frozenset', 'copy.copy', 'copy.deepcopy')
DEEP_INPLACE = ('merge_tree',)
SCOPE_READS = ('thread_local_get', 'thread_local_peek', 'thread_local_kwargs', 'getattr',
               'get_scoped_value', 'get')


def rule_g(ctx, gens):
  """A scope builds its value from a COPY of the enclosing scope's value.

  A local read from scoped storage before the yield (the enclosing scope's
  value) must never be mutated in place, directly or through an alias:
  otherwise the 'restore' puts back an object that already carries the inner
  scope's settings, and they leak into the enclosing scope after exit."""
  idx = ctx.index
  n = 0
  for f in sorted(gens, key=lambda x: x.fq):
    fn = f.node
    # locals holding the enclosing value: defined from a scoped read
    outer = set()
    for node in ast.walk(fn):
      if isinstance(node, ast.Assign) and isinstance(node.value, ast.Call):
        d = (A.call_name(node.value) or '').split('.')[-1]
        if d in SCOPE_READS and d != 'get' or (d == 'get' and 'thread_local' in (A.call_name(node.value) or '')):
          for t in node.targets:
            outer |= set(A.assigned_names(t))
    if not outer:
      continue
    # aliases: x = <outer name> (no copying call around it)
    changed = True
    while changed:
      changed = False
      for node in ast.walk(fn):
        if isinstance(node, ast.Assign) and isinstance(node.value, ast.Name) and node.value.id in outer:
          for t in node.targets:
            for nm in A.assigned_names(t):
              if nm not in outer:
                outer.add(nm)
                changed = True
    # a name that is ALSO (re)defined from a copy is no longer the outer object
    # on the paths after that definition; keep it simple and exact: a name is
    # "outer" only if every definition of it is a scoped read or an alias.
    def only_outer(nm):
      for _, v in D.defs_of(fn, nm):
        if v is None:
          return False
        if isinstance(v, ast.Name) and v.id in outer:
          continue
        if isinstance(v, ast.Call) and (A.call_name(v) or '').split('.')[-1] in SCOPE_READS:
          continue
        return False
      return True
    outer = {nm for nm in outer if only_outer(nm)}
    # in-place mutations of the enclosing value, split at the yield
    ys = [x.lineno for x in ast.walk(fn) if isinstance(x, (ast.Yield, ast.YieldFrom))]
    first_yield = min(ys) if ys else 10 ** 9
    muts = []   # (name, kind, text, lineno)
    for node in ast.walk(fn):
      if isinstance(node, ast.Call) and isinstance(node.func, ast.Attribute) \
          and isinstance(node.func.value, ast.Name) and node.func.value.id in outer \
          and node.func.attr in MUTATORS_INPLACE:
        muts.append((node.func.value.id, node.func.attr, A.unparse(node, 60), node.lineno))
      if isinstance(node, (ast.Assign, ast.AugAssign, ast.Delete)):
        tg = node.targets if not isinstance(node, ast.AugAssign) else [node.target]
        for t in tg:
          if isinstance(t, (ast.Subscript, ast.Attribute)) and isinstance(t.value, ast.Name) and t.value.id in outer:
            kind = 'delitem' if isinstance(node, ast.Delete) else 'setitem'
            muts.append((t.value.id, kind, A.unparse(node, 60), node.lineno))
    # a mutation before the yield is a registration in a shared per-thread
    # container when the code after the yield undoes it on the same object
    # (append <-> pop/remove, item store <-> pop/del/store back, add <-> discard);
    # that pairing is what C17.a checks.  Anything else leaks.
    INVERSE = {'append': ('pop', 'remove', 'delitem'), 'insert': ('pop', 'remove', 'delitem'),
               'setitem': ('pop', 'delitem', 'setitem'), 'add': ('discard', 'remove'),
               'setdefault': ('pop', 'delitem')}
    bad = []
    for nm, kind, text, line in muts:
      if line >= first_yield:
        continue
      inv = INVERSE.get(kind, ())
      if not any(n2 == nm and k2 in inv and l2 > first_yield for n2, k2, _, l2 in muts):
        bad.append(f'`{text}` (line {line})')
    # a SHALLOW copy of the enclosing value handed to an in-place deep merge still
    # writes into the nested containers of the enclosing scope
    for node in ast.walk(fn):
      if isinstance(node, ast.Call) and (A.call_name(node) or '').split('.')[-1] in DEEP_INPLACE and node.args:
        dest = node.args[0]
        def shallow_of_outer(e):
          if isinstance(e, ast.Name):
            if e.id in outer:
              return True
            return any(v is not None and shallow_of_outer(v) for _, v in D.defs_of(fn, e.id))
          if isinstance(e, ast.Call) and ((A.call_name(e) or '') in ('dict', 'list', 'copy.copy') or
                                          (A.call_name(e) or '').endswith('.copy')):
            return any(isinstance(x, ast.Name) and x.id in outer for x in ast.walk(e))
          return False
        if shallow_of_outer(dest):
          bad.append(f'`{A.unparse(node, 70)}` (line {node.lineno}) merges in place into a shallow copy')
    n += 1
    ctx.ob('C17.g', f.fq, not bad,
           "the enclosing scope's value is never modified in place: the inner scope works on a copy",
           f.loc, 'the value read from the enclosing scope (' + ', '.join(sorted(outer)) + ') is mutated in place by '
           + ', '.join(bad) + ': the inner settings are still there after the scope exits')
  return n


def rule_i(ctx):
  """Explicit propagation to another thread carries the override OBJECTS of
  the current scope (value + cascade + override_attrs), i.e. what the scope
  manager itself yields / stores - not the plain values (which re-enter the
  new thread as fresh, non-cascading overrides)."""
  idx = ctx.index
  f = idx.find_func('pyglove.core.utils.contextual.with_contextual_override')
  if f is None:
    raise AnalysisError('with_contextual_override vanished')
  problems = []
  inner = [n for n in ast.walk(f.node) if isinstance(n, (ast.FunctionDef, ast.Lambda)) and n is not f.node]
  splat = []
  for fn in inner:
    for c in ast.walk(fn):
      if isinstance(c, ast.Call) and (A.call_name(c) or '').split('.')[-1] in ('contextual_override', 'contextual_scope'):
        for kw in c.keywords:
          if kw.arg is None and isinstance(kw.value, ast.Name):
            splat.append(kw.value.id)
  if not splat:
    problems.append('the wrapper no longer re-enters the captured scope')
  for nm in splat:
    ok = False
    for w in ast.walk(f.node):
      if isinstance(w, ast.With):
        for it in w.items:
          if it.optional_vars is not None and nm in A.assigned_names(it.optional_vars) and \
              (A.call_name(it.context_expr) or '').split('.')[-1] in ('contextual_override', 'contextual_scope'):
            ok = True
    for _, v in D.defs_of(f.node, nm):
      if v is not None and isinstance(v, ast.Call) and (A.call_name(v) or '') == 'getattr' and 'CONTEXTUAL' in A.unparse(v):
        ok = True
      if v is not None and isinstance(v, ast.Call) and (A.call_name(v) or '').split('.')[-1] == 'all_contextual_values':
        problems.append('the captured context is all_contextual_values(): plain values without their cascade / '
                        'override_attrs flags')
    if not ok and not problems:
      problems.append(f'`{nm}` is not the mapping of override objects yielded by the scope manager')
  ctx.ob('C17.i', f.fq, not problems,
         'propagating the contextual scope to another thread re-installs the override objects themselves '
         '(cascade and override_attrs preserved)', f.loc, '; '.join(problems))


def rule_k(ctx):
  """The storage of a scope lives as long as the scope can be open.  An object that keeps
  per-thread scope storage in an attribute (`self.X = threading.local()`) creates it once:
  an assignment in `_on_bound` / `_on_change` - which run again at every rebind - is guarded
  by a presence test, or a rebind inside an open scope replaces the storage and the
  override is lost for the rest of the scope (and the scope's exit restores into the old
  storage)."""
  idx = ctx.index
  n = 0
  for c in idx.all_classes():
    if c.module.relpath.endswith('_test.py'):
      continue
    for mname in ('_on_bound', '_on_change', '_on_init'):
      m = c.methods.get(mname)
      if m is None:
        continue
      g = C.cfg_of(m.node)
      for k in g.nodes:
        if not (k.kind == 'stmt' and isinstance(k.ast, ast.Assign) and isinstance(k.ast.value, ast.Call)
                and (A.call_name(k.ast.value) or '').split('.')[-1] == 'local'
                and (A.dotted(k.ast.targets[0]) or '').startswith('self.')):
          continue
        attr = A.dotted(k.ast.targets[0]).split('.')[1]
        n += 1
        if mname == '_on_init':
          ok = True
        else:
          tests = [t for t in g.nodes if t.kind == 'test' and attr in A.unparse(t.ast)]
          # reachable with no presence test passed?
          blocked = {(t.id, mm.id, l) for t in tests for mm, l in t.succ}
          seen, _ = g.reach(g.entry, blocked_edges=blocked, follow_exc=False)
          ok = k.id not in seen
        ctx.ob('C17.k', f'{c.name}.{mname}#{attr}', ok,
               f'the per-thread scope storage `self.{attr}` is created once, not at every rebind', f'{c.module.relpath}:{k.lineno}',
               f'`{A.unparse(k.ast)}` runs at every rebind: `with a.override(x=2): a.rebind(y=3); a.x` reads the attribute\'s '
               f'own value again although the scope is still open')
  ctx.ob('C17.k', 'scope-storage-attributes', True, f'{n} per-thread storage attributes examined', 'pyglove/core/symbolic/contextual_object.py:1')


def rule_l(ctx):
  """Absence is the neutral state of a per-thread key whose reader falls back to a
  process-wide value (`thread_local_get(KEY, <global>)`): leaving a per-thread scope must
  remove the key, not store None in it - a stored None is "present", so the fallback to a
  process-wide setting made later never happens in that thread.  For every TLS key read
  with a non-constant default, each `thread_local_set(KEY, v)` is dominated by a test that
  excludes `v is None` (the None case deletes the key)."""
  idx = ctx.index
  n = 0
  for m in idx.by_relpath.values():
    if m.relpath.endswith('_test.py'):
      continue
    fallback_keys = set()
    for f in m.funcs.values():
      for c in A.calls_in(f.node):
        if (A.call_name(c) or '').split('.')[-1] == 'thread_local_get' and len(c.args) >= 2 \
            and isinstance(c.args[1], ast.Name) and c.args[1].id.startswith('_global'):
          fallback_keys.add(A.unparse(c.args[0]))
    if not fallback_keys:
      continue
    for f in sorted(m.funcs.values(), key=lambda x: x.fq):
      g = C.cfg_of(f.node)
      for k in g.nodes:
        if k.ast is None:
          continue
        for c in k.calls():
          if (A.call_name(c) or '').split('.')[-1] == 'thread_local_set' and len(c.args) >= 2 \
              and A.unparse(c.args[0]) in fallback_keys and isinstance(c.args[1], ast.Name):
            v = c.args[1].id
            tests = [t for t in g.nodes if t.kind == 'test' and isinstance(t.ast, ast.Compare) and v in A.names_read(t.ast)
                     and any(isinstance(o, (ast.Is, ast.IsNot)) for o in t.ast.ops)]
            ok = False
            for t in tests:
              none_lab = 'true' if isinstance(t.ast.ops[0], ast.Is) else 'false'
              blocked = {(t.id, mm.id, l) for mm, l in t.succ if l != none_lab}
              seen, _ = g.reach(t, blocked_edges=blocked, follow_exc=False)
              if k.id not in seen:
                ok = True
            n += 1
            ctx.ob('C17.l', f'{f.qualname}#{A.unparse(c.args[0])}', ok,
                   'a per-thread key whose reader falls back to the process-wide value is removed, not set to None',
                   f'{m.relpath}:{c.lineno}',
                   f'`{A.unparse(c, 70)}` may store None: after a per-thread scope the key stays present with None, and a '
                   f'process-wide setting made afterwards is invisible in this thread')
  ctx.ob('C17.l', 'fallback-keys', True, f'{n} stores to per-thread keys with a process-wide fallback examined', 'pyglove/core/hyper/base.py:1')


def run(ctx):
  ctx.consult(*FILES)
  rule_k(ctx)
  rule_l(ctx)
  idx = ctx.index
  gens, classes = context_managers(idx)
  if len(gens) < 8:
    raise AnalysisError(f'only {len(gens)} generator context managers found')
  for f in sorted(gens, key=lambda x: x.fq):
    analyse_generator(ctx, f)
  for c in sorted(classes, key=lambda x: x.fq):
    if c.fq in EXCLUDED_CLASSES:
      ctx.info('C17.a', c.fq, 'excluded: ' + EXCLUDED_CLASSES[c.fq], c.loc)
      continue
    analyse_class(ctx, c)
  rule_d(ctx)
  rule_f(ctx)
  rule_g(ctx, gens)
  rule_i(ctx)
  rule_tls_api(ctx)
  ctx.note(f'{len(gens)} generator-based and {len(classes)} class-based context managers enumerated')
  ctx.assume('interleavings on several threads are not explored; thread isolation is '
             'decided by the storage class of each write')
