"""C10 — path addressing (DESIGN §3 C10)."""
from __future__ import annotations

import ast

from sa import astutil as A
from sa import cfg as C
from sa import dataflow as D
from sa.index import AnalysisError

PROP = 'C10'
EXPLANATION = (
    'Structural agreement rules of path addressing: (a) the characters the '
    'parser treats as structure equal the characters that make the formatter '
    'bracket-quote a key; (b) traversals hand each child KeyPath(<its own '
    'key>, root_path) and its container as parent, for every container kind; '
    '(c) ints are never parsed, only bracketed segments are converted to int; '
    '(d) the cached path string has exactly one formatter; (e) KeyPathSet '
    'operations never graft the operand\'s sub-tries by reference; (f) the '
    'dict-to-list density test is two sided.  The round-trip and set-algebra '
    'laws over all keys are value-level and not decided.')
FLOORS = {'C10.a': 1, 'C10.b': 2, 'C10.c': 1, 'C10.d': 1, 'C10.e': 1, 'C10.f': 1, 'C10.g': 2, 'C10.h': 2}
FILES = ['pyglove/core/utils/value_location.py', 'pyglove/core/utils/hierarchical.py',
         'pyglove/core/symbolic/base.py', 'pyglove/core/symbolic/list.py', 'pyglove/core/symbolic/dict.py']
VL = 'pyglove.core.utils.value_location.'
HI = 'pyglove.core.utils.hierarchical.'
S_LIST = 'pyglove.core.symbolic.list.List'
S_DICT = 'pyglove.core.symbolic.dict.Dict'


def rule_a(ctx):
  idx = ctx.index
  p = idx.func(VL + 'KeyPath.parse')
  structural = set()
  for n in ast.walk(p.node):
    if isinstance(n, ast.Compare) and isinstance(n.left, ast.Name) \
        and isinstance(n.ops[0], ast.Eq) and A.const_str(n.comparators[0]) and len(A.const_str(n.comparators[0])) == 1:
      structural.add(A.const_str(n.comparators[0]))
  h = idx.func(VL + 'KeyPath._has_special_chars')
  special = set()
  for n in ast.walk(h.node):
    if isinstance(n, (ast.List, ast.Tuple, ast.Set)):
      special |= {A.const_str(e) for e in n.elts if A.const_str(e)}
    elif isinstance(n, ast.Constant) and isinstance(n.value, str) and len(n.value) > 1 and 'special' not in n.value:
      special |= set(n.value)
  if not structural or not special:
    raise AnalysisError('delimiter tables not found')
  ctx.ob('C10.a', p.fq + '<->_has_special_chars', structural == special,
         'characters parsed as structure == characters that force bracket quoting when formatting',
         p.loc, f'parser structure chars {sorted(structural)} vs quoting chars {sorted(special)}: a key '
         f'containing the difference is printed unquoted and re-parsed as several keys')
  # path_str quotes when preserve_complex_keys and special
  ps = idx.func(VL + 'KeyPath.path_str')
  # structure: one loop over the keys; a test that consults _has_special_chars on
  # the loop key decides between a dotted and a bracketed (f'[{key}]') rendering
  ok = False
  for lp in [n for n in ast.walk(ps.node) if isinstance(n, ast.For)]:
    tv = set(A.assigned_names(lp.target))
    tests = [n for n in ast.walk(lp) if isinstance(n, ast.If) and any(
        isinstance(c, ast.Call) and (A.call_name(c) or '').endswith('_has_special_chars') and c.args
        and isinstance(c.args[0], ast.Name) and c.args[0].id in tv for c in ast.walk(n.test))]
    def brackets(stmts):
      return any(isinstance(j, ast.JoinedStr) and len(j.values) == 3 and A.const_str(j.values[0]) == '['
                 and A.const_str(j.values[2]) == ']' and isinstance(j.values[1], ast.FormattedValue)
                 and isinstance(j.values[1].value, ast.Name) and j.values[1].value.id in tv
                 for st in stmts for j in ast.walk(st))
    def dots(stmts):
      return any(A.const_str(c) == '.' for st in stmts for c in ast.walk(st))
    for t in tests:
      if (brackets(t.orelse) and dots(t.body) and not brackets(t.body)) or \
         (brackets(t.body) and dots(t.orelse) and not brackets(t.orelse)):
        ok = True
  ctx.ob('C10.a', ps.fq, ok, 'str keys with special characters and non-str keys are bracketed; others dotted',
         ps.loc, 'path_str changed shape')


def _branch_kind(f, loop):
  """Container kind of the innermost `if isinstance(<x>, K)` branch that holds the loop."""
  best = None
  for n in ast.walk(f.node):
    if isinstance(n, ast.If) and any(loop is y for b in n.body for y in ast.walk(b)):
      for c in ast.walk(n.test):
        if isinstance(c, ast.Call) and A.call_name(c) == 'isinstance' and len(c.args) == 2:
          t = A.unparse(c.args[1])
          k = 'dict' if t == 'dict' else 'list' if t in ('list', '(list, tuple)') else \
              'object' if 'Object' in t or 'Symbolic' in t else None
          if k:
            best = k     # ast.walk is outer-first: the last hit is the innermost
  return best


def _check_traverse(ctx, f, kinds):
  """Each container branch: recursive call gets KeyPath(<loop key>, root_path)
  for the value bound by the same loop, and the container as parent."""
  problems = []
  found = set()
  path_params = {}
  for lp in [n for n in ast.walk(f.node) if isinstance(n, ast.For)]:
    it = A.unparse(lp.iter)
    kind = _branch_kind(f, lp)
    if kind is None:
      if '.items()' in it and 'sym' not in it:
        kind = 'dict'
      elif '.keys()' in it:
        kind = 'dict'
      elif it.startswith('enumerate('):
        kind = 'list'
      elif 'sym_items()' in it:
        kind = 'object'
    if kind is None:
      continue
    tv = A.assigned_names(lp.target)
    rec = [c for c in A.calls_in(lp) if A.call_name(c) == f.node.name]
    if not rec:
      continue
    found.add(kind)
    c = rec[0]
    kps = [a for a in list(c.args) + [k.value for k in c.keywords]
           if isinstance(a, ast.Call) and (A.call_name(a) or '').endswith('KeyPath')]
    if not kps:
      problems.append(f'{kind}: recursive call without a KeyPath')
      continue
    kp = kps[0]
    params = A.param_names(f.node)
    if not (len(kp.args) == 2 and isinstance(kp.args[0], ast.Name) and kp.args[0].id == tv[0]
            and isinstance(kp.args[1], ast.Name) and kp.args[1].id in params):
      problems.append(f'{kind}: child path is `{A.unparse(kp)}`, not KeyPath({tv[0]}, <own path>)')
    elif path_params.setdefault('p', kp.args[1].id) != kp.args[1].id:
      problems.append(f'{kind}: child path is built on `{kp.args[1].id}`, other branches use `{path_params["p"]}`')
    # value argument is the one bound by the loop (or container[key])
    v0 = c.args[0]
    cont = it.split('.')[0].replace('enumerate(', '').rstrip(')')
    okv = (isinstance(v0, ast.Name) and len(tv) > 1 and v0.id == tv[1]) or (
        isinstance(v0, ast.Subscript) and A.unparse(v0.slice) == tv[0])
    if not okv:
      problems.append(f'{kind}: visited value `{A.unparse(v0)}` is not the child at key `{tv[0]}`')
  for k in kinds:
    if k not in found:
      problems.append(f'no traversal branch for {k} containers')
  return problems


def rule_b(ctx):
  idx = ctx.index
  f = idx.func('pyglove.core.symbolic.base.traverse')
  problems = _check_traverse(ctx, f, ('dict', 'list', 'object'))
  # parent passed is the container itself
  for lp in [n for n in ast.walk(f.node) if isinstance(n, ast.For)]:
    for c in A.calls_in(lp):
      if A.call_name(c) == 'traverse' and len(c.args) == 5 and A.unparse(c.args[4]) != A.param_names(f.node)[0]:
        problems.append(f'parent passed is `{A.unparse(c.args[4])}`')
  ctx.ob('C10.b', f.fq, not problems,
         'symbolic traverse visits each child at KeyPath(key, root_path) with its container as parent '
         '(dict, list and Object branches)', f.loc, '; '.join(problems))
  # the children reported are the ones the reported path addresses: KeyPath.query reads a
  # symbolic container with sym_getattr (the stored value, e.g. a pg.Ref), so the traversal
  # must not enumerate a pg.List through its __iter__ (which yields the inferred values)
  li = idx.lookup_method(S_LIST, '__iter__')
  iter_infers = li is not None and idx.enclosing_class(li).fq == S_LIST and A.has_call(
      li.node, lambda d: d.split('.')[-1] in ('sym_inferred', '_infer_if_applicable'))
  di = idx.lookup_method(S_DICT, 'items')
  items_infers = di is not None and A.has_call(di.node, lambda d: d.split('.')[-1] in ('sym_inferred', '_infer_if_applicable'))
  x = A.param_names(f.node)[0]
  for lp in [n for n in ast.walk(f.node) if isinstance(n, ast.For)]:
    if not any(A.call_name(c) == f.node.name for c in A.calls_in(lp)):
      continue
    kind = _branch_kind(f, lp)
    it = lp.iter
    txt = A.unparse(it)
    if kind == 'list':
      bare = isinstance(it, ast.Call) and A.call_name(it) == 'enumerate' and A.unparse(it.args[0]) == x
      ok = not (bare and iter_infers)
      ctx.ob('C10.b', f.fq + '#list-children', ok,
             'the list branch enumerates the stored children of a pg.List (what the reported path looks up), '
             'not the inferred ones', f'{f.module.relpath}:{lp.lineno}',
             f'`{txt}` iterates a pg.List through __iter__, which resolves pg.Ref / inferential values: the node '
             f'reported at [i] is not what KeyPath([i]).query(root) returns, and paths below it do not exist')
    elif kind == 'dict':
      ok = not (txt == f'{x}.items()' and items_infers)
      ctx.ob('C10.b', f.fq + '#dict-children', ok,
             'the dict branch enumerates the stored children of a pg.Dict', f'{f.module.relpath}:{lp.lineno}',
             f'`{txt}` yields inferred values for a pg.Dict')
  f = idx.func(HI + 'traverse')
  problems = _check_traverse(ctx, f, ('dict', 'list'))
  ctx.ob('C10.b', f.fq, not problems,
         'utils.traverse visits each child at KeyPath(key, root_path)', f.loc, '; '.join(problems))
  f = idx.func(HI + 'transform.<locals>._transform')
  problems = _check_traverse(ctx, f, ('dict', 'list'))
  ctx.ob('C10.b', f.fq, not problems, 'transform recurses into each child with KeyPath(key, <current path>)', f.loc,
         '; '.join(problems))
  # pre/post visitors are called on (root_path, x[, parent]) of the node itself
  f = idx.func('pyglove.core.symbolic.base.traverse')
  prm = A.param_names(f.node)   # (x, preorder_visitor_fn, postorder_visitor_fn, root_path, parent): public keywords
  def visitor_ok(name):
    cs = [c for c in A.calls_in(f.node) if A.call_name(c) == name]
    return bool(cs) and all([A.unparse(a) for a in c.args] == ['root_path', prm[0], 'parent'] for c in cs)
  ok = visitor_ok('preorder_visitor_fn') and visitor_ok('postorder_visitor_fn')
  ctx.ob('C10.b', f.fq + '#visitors', ok, 'visitors receive the node\'s own path, value and parent', f.loc,
         'visitor call arguments changed')
  # KeyPath(key, parent) appends the key to the parent's keys
  f = idx.func(VL + 'KeyPath.__init__')
  g = C.cfg_of(f.node)
  ext = [(k, c) for k in g.nodes if k.ast is not None for c in k.calls()
         if (A.call_name(c) or '').endswith('.extend') and c.args]
  par = [(k, c) for k, c in ext if A.unparse(c.args[0]) == 'parent.keys']
  own = [(k, c) for k, c in ext if A.unparse(c.args[0]) == 'key_or_key_list']
  ok = bool(par) and bool(own)
  if ok:
    lst = A.call_name(par[0][1]).split('.')[0]
    ok = A.call_name(own[0][1]).split('.')[0] == lst
    seen, _ = g.reach(own[0][0], follow_exc=False)
    ok = ok and par[0][0].id not in seen          # parent keys are added first
    ok = ok and any(isinstance(n, ast.Assign) and A.unparse(n.targets[0]) == 'self._keys'
                    and A.unparse(n.value) == lst for n in ast.walk(f.node))
  ctx.ob('C10.b', f.fq, ok, 'KeyPath(key, parent) = parent keys followed by key', f.loc,
         'key concatenation order changed')


def rule_c(ctx):
  idx = ctx.index
  f = idx.func(VL + 'KeyPath.from_value')
  g = C.cfg_of(f.node)
  problems = []
  ts = {A.unparse(k.ast): k for k in g.nodes if k.kind == 'test'}
  k = ts.get('isinstance(value, str)')
  if k is None or not any(A.has_call(m.ast, lambda d: d == 'cls.parse') for m, l in k.succ if l == 'true' and m.ast is not None):
    problems.append('str values are not parsed')
  k = ts.get('isinstance(value, int)')
  if k is None:
    problems.append('int branch vanished')
  else:
    for m, l in k.succ:
      if l == 'true' and m.ast is not None and A.has_call(m.ast, lambda d: d.endswith('parse')):
        problems.append('an int is parsed')
      if l == 'true' and m.ast is not None and not A.has_call(m.ast, lambda d: d == 'cls'):
        problems.append('an int is not wrapped as KeyPath(int)')
  ctx.ob('C10.c', f.fq, not problems, 'from_value parses only str; an int becomes KeyPath(int) unparsed',
         f.loc, '; '.join(problems))
  p = idx.func(VL + 'KeyPath.parse')
  # the nested helper that converts a segment to an int key (found by what it
  # does, not by its name)
  helpers = [n for n in ast.walk(p.node) if isinstance(n, ast.FunctionDef) and n is not p.node
             and any(isinstance(c, ast.Call) and A.call_name(c) == 'int' for c in ast.walk(n))]
  if len(helpers) != 1:
    raise AnalysisError(f'KeyPath.parse: {len(helpers)} nested helpers convert a segment to int (expected 1)')
  hn = helpers[0]
  hparams = A.param_names(hn)
  # the parameter that switches numeric conversion on: read by the test guarding int(...)
  switch = None
  for t in ast.walk(hn):
    if isinstance(t, ast.If) and any(isinstance(c, ast.Call) and A.call_name(c) == 'int' for b in t.body for c in ast.walk(b)):
      names = [x.id for x in ast.walk(t.test) if isinstance(x, ast.Name) and x.id in hparams]
      flags_ = [nm for nm in names if not any(isinstance(a, ast.Attribute) and isinstance(a.value, ast.Name) and a.value.id == nm
                                              for a in ast.walk(t.test))]
      switch = flags_[0] if flags_ else None
      guard_test = t.test
  calls = [c for c in A.calls_in(p.node) if A.call_name(c) == hn.name]
  def requests_numeric(c):
    if switch is None:
      return True
    k = hparams.index(switch)
    if len(c.args) > k:
      return A.unparse(c.args[k]) != 'False'
    return any(kw.arg == switch and A.unparse(kw.value) != 'False' for kw in c.keywords)
  numeric = [c for c in calls if requests_numeric(c)]
  problems = []
  if len(numeric) != 1:
    problems.append(f'{len(numeric)} call sites request numeric conversion')
  else:
    # that call is in the closing-bracket branch
    g = C.cfg_of(p.node)
    node = [k for k in g.nodes if k.ast is not None and any(c is numeric[0] for c in k.calls())]
    def is_close_test(k):
      a = k.ast
      return k.kind == 'test' and isinstance(a, ast.Compare) and len(a.ops) == 1 and isinstance(a.ops[0], ast.Eq) \
          and any(A.const_str(x) == ']' for x in [a.left] + a.comparators)
    t = [k for k in g.nodes if is_close_test(k)]
    if t and node:
      blocked = {(tt.id, m.id, l) for tt in t for m, l in tt.succ if l == 'true'}
      seen, _ = g.reach(g.entry, blocked_edges=blocked, follow_exc=False)
      if node[0].id in seen:
        problems.append('numeric conversion reachable outside the closing-bracket branch')
    else:
      problems.append('closing-bracket branch not found')
  ctx.ob('C10.c', p.fq + '#numeric', not problems,
         'only a bracketed segment is converted to an int key; dotted segments stay strings', p.loc,
         '; '.join(problems))
  def strips_minus_then_isdigit(e):
    for c in ast.walk(e):
      if isinstance(c, ast.Call) and isinstance(c.func, ast.Attribute) and c.func.attr == 'isdigit':
        inner = c.func.value
        if isinstance(inner, ast.Call) and isinstance(inner.func, ast.Attribute) and inner.func.attr == 'lstrip' \
            and inner.args and A.const_str(inner.args[0]) == '-':
          return True
    return False
  ok = switch is not None and strips_minus_then_isdigit(guard_test)
  ctx.ob('C10.c', p.fq + '#minus', ok, 'numeric conversion accepts an optional leading minus sign (negative indices)',
         f'{p.module.relpath}:{hn.lineno}', 'numeric test changed')


def rule_d(ctx):
  idx = ctx.index
  c = idx.cls(VL + 'KeyPath')
  writers = []
  for m in c.methods.values():
    for n in ast.walk(m.node):
      if isinstance(n, ast.Assign):
        for t in n.targets:
          if A.dotted(t) and A.dotted(t).endswith('._path_str'):
            writers.append((m, n))
  bad = []
  for m, n in writers:
    v = A.unparse(n.value)
    if v == 'None':
      continue
    if v == 'self.path_str()' and m.name == 'path':
      continue
    bad.append(f'{m.name}: `{A.unparse(n)}` (line {n.lineno})')
  ctx.ob('C10.d', c.fq + '#_path_str', not bad and bool(writers),
         'the cached path string is only ever produced by path_str() (one formatter, so the cache '
         'cannot disagree with the quoting rules)', c.loc,
         'another writer of the cache: ' + '; '.join(bad))
  hsh = c.methods.get('__hash__')
  eq = c.methods.get('__eq__')
  ok = hsh is not None and 'self.path' in A.unparse(hsh.node, 500)
  ctx.ob('C10.d', c.fq + '#hash', ok, 'KeyPath hashes by its formatted path', c.loc, '__hash__ changed')


def rule_e(ctx):
  idx = ctx.index
  c = idx.cls(VL + 'KeyPathSet')
  n = 0
  for m in c.module.funcs.values():
    if not m.qualname.startswith('KeyPathSet.'):
      continue
    # helper or method that receives another trie/dict and stores its values
    params = set(A.param_names(m.node))
    src_params = {p for p in params if p in ('src_dict', 'other', 'src', 'other_dict', 'value')}
    for s in ast.walk(m.node):
      if isinstance(s, ast.Assign) and isinstance(s.targets[0], ast.Subscript):
        v = s.value
        names = A.names_read(v)
        # value comes from iterating a source dict of another set
        loopvars = set()
        for lp in [x for x in ast.walk(m.node) if isinstance(x, ast.For)]:
          if A.names_read(lp.iter) & {'src_dict', 'other', 'src'}:
            loopvars |= set(A.assigned_names(lp.target))
        if names & loopvars:
          n += 1
          ok = isinstance(v, ast.Call) and (A.call_name(v) or '').endswith('deepcopy') or \
              isinstance(v, ast.Constant)
          ctx.ob('C10.e', f'{m.fq}#{A.unparse(s.targets[0], 40)}', ok,
                 'a branch taken from the other set is deep-copied, never grafted by reference',
                 f'{m.module.relpath}:{s.lineno}',
                 f'`{A.unparse(s)}` shares a sub-trie between two sets: mutating the result changes '
                 f'the operand')
  if n < 1:
    raise AnalysisError('KeyPathSet merge stores not found')
  # non-inplace operations work on a copy of self
  for name in ('union', 'difference', 'intersection'):
    m = c.methods.get(name)
    if m is None:
      continue
    ok = any((A.call_name(x) or '').split('.')[-1] in ('copy', 'deepcopy', 'KeyPathSet', 'clone')
             for x in A.calls_in(m.node))
    ctx.ob('C10.e', m.fq, ok, f'{name} operates on a copy, not on self', m.loc, f'{name} no longer copies')


def rule_f(ctx):
  idx = ctx.index
  f = idx.func(HI + 'try_listify_dict_with_int_keys')
  g = C.cfg_of(f.node)
  tests = [A.unparse(k.ast) for k in g.nodes if k.kind == 'test']
  # names of the locals holding min(keys) / max(keys), whatever they are called
  def locals_from(fn_name):
    out = {fn_name + '('}
    for n in ast.walk(f.node):
      if isinstance(n, ast.Assign) and isinstance(n.value, ast.Call) and A.call_name(n.value) == fn_name:
        out |= set(A.assigned_names(n.targets[0]))
      if isinstance(n, ast.Assign) and isinstance(n.value, ast.Tuple) and isinstance(n.targets[0], ast.Tuple):
        for tg, v in zip(n.targets[0].elts, n.value.elts):
          if isinstance(v, ast.Call) and A.call_name(v) == fn_name and isinstance(tg, ast.Name):
            out.add(tg.id)
    return out
  mins, maxs = locals_from('min'), locals_from('max')
  # running minimum / maximum kept by a loop: `if ... L > key: L = key` / `L < key`
  for n in ast.walk(f.node):
    if isinstance(n, ast.If) and len(n.body) == 1 and isinstance(n.body[0], ast.Assign) \
        and isinstance(n.body[0].targets[0], ast.Name) and isinstance(n.body[0].value, ast.Name):
      L, K = n.body[0].targets[0].id, n.body[0].value.id
      for c in ast.walk(n.test):
        if isinstance(c, ast.Compare) and len(c.ops) == 1:
          l, r = sides(c) if False else (A.unparse(c.left), A.unparse(c.comparators[0]))
          gt = isinstance(c.ops[0], (ast.Gt, ast.GtE)); lt = isinstance(c.ops[0], (ast.Lt, ast.LtE))
          if (l, r) == (L, K) and gt or (l, r) == (K, L) and lt:
            mins.add(L)
          if (l, r) == (L, K) and lt or (l, r) == (K, L) and gt:
            maxs.add(L)
  cmp_nodes = [k.ast for k in g.nodes if k.kind == 'test']
  cmps = [c for t in cmp_nodes for c in ast.walk(t) if isinstance(c, ast.Compare) and len(c.ops) == 1]
  def sides(c):
    return A.unparse(c.left), A.unparse(c.comparators[0])
  def mentions(txt, names):
    return any(txt == n or txt.startswith(n) for n in names)
  lo = any(isinstance(c.ops[0], (ast.Eq, ast.NotEq)) and (
      (mentions(sides(c)[0], mins) and sides(c)[1] == '0') or (mentions(sides(c)[1], mins) and sides(c)[0] == '0'))
      for c in cmps)
  hi = any(isinstance(c.ops[0], (ast.Eq, ast.NotEq)) and (
      (mentions(sides(c)[0], maxs) and 'len(' in sides(c)[1] and '- 1' in sides(c)[1]) or
      (mentions(sides(c)[1], maxs) and 'len(' in sides(c)[0] and '- 1' in sides(c)[0]))
      for c in cmps)
  ctx.ob('C10.f', f.fq, lo and hi,
         'an int-keyed dict is converted to a list only when its keys are exactly 0..n-1 '
         '(lower AND upper bound tested)', f.loc,
         'one side of the density test is missing: keys such as {-1, 1} pass as 0..1')
  # only real int keys are positions: the type test is applied to the key
  # itself and a non-int key ends the attempt ('0' is a dict key, not index 0)
  loops = [k for k in g.nodes if k.kind == 'iter' and 'src' in A.unparse(k.ast.iter)]
  problems = []
  if not loops:
    problems.append('no loop over the keys')
  else:
    kv = A.assigned_names(loops[0].ast.target)
    tt = [k for k in g.nodes if k.kind == 'test' and isinstance(k.ast, ast.Call) and A.call_name(k.ast) == 'isinstance'
          and len(k.ast.args) == 2 and A.unparse(k.ast.args[1]) == 'int']
    if not tt:
      problems.append('keys are no longer required to be int')
    for t in tt:
      if not (isinstance(t.ast.args[0], ast.Name) and t.ast.args[0].id in kv):
        problems.append(f'the int test is applied to `{A.unparse(t.ast.args[0])}`, not to the key itself: string keys '
                        f"such as '0' are turned into list positions and the path a.0 disappears")
      # failing the test returns (src, False)
      for m, lab in t.succ:
        if lab == 'false':
          seen, _ = g.reach(m, follow_exc=False)
          seen.add(m.id)
          rets = [g.nodes[i] for i in seen if g.nodes[i].kind == 'return']
          if m.kind != 'return' or 'False' not in A.unparse(m.ast.value):
            problems.append('a non-int key does not end the conversion attempt at once')
    conv = [c for c in A.calls_in(f.node) if A.call_name(c) == 'int']
    if conv:
      problems.append('keys are converted with int(): a string key becomes a position')
  ctx.ob('C10.f', f.fq + '#int-keys', not problems,
         'only dicts whose keys are all real ints are treated as lists (no conversion of keys)', f.loc,
         '; '.join(problems))


def rule_g(ctx):
  """Every path that traversal reports can be looked up again: in
  KeyPath._query an int key is a *position* only in a sequence (and then it is
  range-checked on both sides, so an absent position is a KeyError like any
  absent key, never an IndexError), and a *key* in a mapping."""
  idx = ctx.index
  f = idx.func(VL + 'KeyPath._query')
  g = C.cfg_of(f.node)
  prm = [p for p in A.param_names(f.node) if p != 'self']
  SRC = prm[1]
  # the local holding the key of this level: assigned from self.keys[...] / self._keys[...]
  keyl = {nm for st in ast.walk(f.node) if isinstance(st, ast.Assign) and isinstance(st.value, ast.Subscript)
          and A.unparse(st.value.value) in ('self.keys', 'self._keys') for nm in A.assigned_names(st.targets[0])}
  if len(keyl) != 1:
    raise AnalysisError(f'KeyPath._query: key local not found ({sorted(keyl)})')
  KEY = sorted(keyl)[0]
  # positional tests: comparisons that relate the key to len(src) / 0 (chains are split into pairs)
  LEN = f'len({SRC})'
  def pairs(k):
    return [(A.unparse(l), A.unparse(r)) for l, op, r in A.compare_parts(k.ast)
            if isinstance(op, (ast.Lt, ast.LtE, ast.Gt, ast.GtE))]
  def is_upper(l, r):
    return {l, r} in ({KEY, LEN}, {KEY, f'{LEN} - 1'})
  def is_lower(l, r):
    return {l, r} in ({KEY, '0'}, {KEY, f'-{LEN}'}, {f'{KEY} + {LEN}', '0'}, {f'{LEN} + {KEY}', '0'})
  pos_tests = [k for k in g.nodes if k.kind == 'test' and any(is_upper(l, r) or is_lower(l, r) for l, r in pairs(k))]
  problems = []
  if not pos_tests:
    problems.append('no positional range test on the key')
  else:
    has_upper = any(is_upper(l, r) for k in pos_tests for l, r in pairs(k))
    has_lower = any(is_lower(l, r) for k in pos_tests for l, r in pairs(k))
    if not has_upper or not has_lower:
      problems.append(f'positional read guarded by {[A.unparse(k.ast) for k in pos_tests]}: one side of the range is '
                      f'missing, so an absent position raises IndexError instead of KeyError (get()/exists() do not catch it)')
  ctx.ob('C10.g', f.fq + '#position-range', not problems,
         'a positional lookup is range-checked on both sides: an absent position is reported like an absent key',
         f.loc, '; '.join(problems))
  # the positional branch is not taken for mappings
  int_tests = [k for k in g.nodes if k.kind == 'test' and isinstance(k.ast, ast.Call) and A.call_name(k.ast) == 'isinstance'
               and len(k.ast.args) == 2 and A.unparse(k.ast.args[0]) == KEY and A.unparse(k.ast.args[1]) == 'int']
  map_tests = [k for k in g.nodes if k.kind == 'test' and (
      (isinstance(k.ast, ast.Call) and A.call_name(k.ast) == 'isinstance' and len(k.ast.args) == 2
       and A.unparse(k.ast.args[0]) == SRC and any(w in A.unparse(k.ast.args[1]) for w in ('Mapping', 'dict')))
      or (isinstance(k.ast, ast.Call) and A.call_name(k.ast) == 'hasattr' and len(k.ast.args) == 2
          and A.unparse(k.ast.args[0]) == SRC and A.const_str(k.ast.args[1]) in ('keys', 'items')))]
  problems = []
  if not int_tests:
    problems.append('no int-key branch')
  elif pos_tests:
    # block the "is a mapping" outcome... i.e. assume src IS a mapping: the positional test must be unreachable
    blocked = set()
    for k in map_tests:
      for m, lab in k.succ:
        if lab == 'false':
          blocked.add((k.id, m.id, lab))
    # plain containers only: the symbolic branch (sym_hasattr) resolves keys itself
    sym = [k for k in g.nodes if k.kind == 'test' and 'sym_hasattr' in A.unparse(k.ast) and 'hasattr(' in A.unparse(k.ast)]
    for k in sym:
      for m, lab in k.succ:
        if lab == 'true':
          blocked.add((k.id, m.id, lab))
    seen, _ = g.reach(g.entry, blocked_edges=blocked, follow_exc=False)
    if any(k.id in seen for k in pos_tests):
      problems.append('an int key of a plain mapping is looked up by position (`key < len(src)`): the path `[3]` that '
                      'traverse reports for {3: x} does not resolve')
  ctx.ob('C10.g', f.fq + '#mapping-int-key', not problems,
         'an int key is a position in a sequence and a key in a mapping, so every path reported by traversal resolves',
         f.loc, '; '.join(problems))


def rule_h(ctx):
  """Prefix test and relative subtraction are "consistent with the key
  sequences": they are computed on the keys, position by position - never on
  the printed path (`'model.layer10'.startswith('model.layer1')`)."""
  idx = ctx.index
  for name in ('is_relative_to', '__sub__'):
    f = idx.func(VL + 'KeyPath.' + name)
    bad = []
    for n in ast.walk(f.node):
      if isinstance(n, ast.Attribute) and n.attr in ('path', '_path_str', 'path_str') and not isinstance(getattr(n, 'ctx', None), ast.Store):
        # reading the printed form to DECIDE (messages of raised errors may quote paths)
        if not _inside_raise(f.node, n):
          bad.append(f'line {n.lineno}: reads `{A.unparse(n, 40)}`')
      if isinstance(n, ast.Call) and isinstance(n.func, ast.Attribute) and n.func.attr in ('startswith', 'endswith', 'find', 'index') \
          and not _inside_raise(f.node, n):
        bad.append(f'line {n.lineno}: `{A.unparse(n, 50)}` is a string operation')
      if isinstance(n, ast.Call) and A.call_name(n) in ('str', 'repr') and not _inside_raise(f.node, n):
        bad.append(f'line {n.lineno}: `{A.unparse(n, 50)}`')
    reads_keys = any(isinstance(n, ast.Attribute) and n.attr in ('keys', '_keys') for n in ast.walk(f.node))
    ctx.ob('C10.h', f.fq, reads_keys and not bad,
           f'{name} is computed on the key sequences, not on the printed path', f.loc,
           '; '.join(bad) or 'the keys are not consulted')


def _inside_raise(fn, node):
  for r in ast.walk(fn):
    if isinstance(r, ast.Raise) and any(x is node for x in ast.walk(r)):
      return True
  return False


def _marker(c):
  """The membership marker of the trie: the constant K of the `root[K] = True` stores."""
  ks = set()
  for m in c.methods.values():
    for n in ast.walk(m.node):
      if isinstance(n, ast.Assign) and isinstance(n.targets[0], ast.Subscript) \
          and isinstance(n.value, ast.Constant) and n.value.value is True:
        ks.add(A.unparse(n.targets[0].slice))
  return ks


def rule_i(ctx):
  """KeyPathSet is a set of paths stored in a trie: a node is a member (marker
  present) or an inner node.  Three shape conditions each law of "behaves as a
  mathematical set" needs, whatever the paths are:
  (1) the marker is not a possible key: keys are str/int (the quantifier of the
      property), so a str marker makes the path ['$'] indistinguishable from
      "the parent is a member";
  (2) what `add(path, include_intermediate=True)` marks depends on the path
      only, not on which nodes happened to exist: the marking of a prefix is
      not control-dependent on the `key not in node` test that creates a node;
  (3) `rebase` wraps a non-empty trie only: wrapping the empty trie creates
      inner nodes with no member below (bool(s) True, list(s) == [], s !=
      KeyPathSet())."""
  idx = ctx.index
  c = idx.cls(VL + 'KeyPathSet')
  ms = _marker(c)
  if not ms:
    raise AnalysisError('KeyPathSet: marker stores not found')
  str_markers = sorted(m for m in ms if m.startswith(("'", '"')))
  ctx.ob('C10.i', 'KeyPathSet#marker', not str_markers,
         'the membership marker of the trie is outside the key domain (str/int keys)', c.methods['add'].loc,
         f'the marker {str_markers} is a str, i.e. a possible key: KeyPathSet([KeyPath([{str_markers[0] if str_markers else ""}])]) '
         f'iterates as the parent path and reports the parent as a member')
  f = c.methods['add']
  flag = 'include_intermediate'
  bad = []
  n_marks = 0
  def walk(stmts, creating):
    nonlocal n_marks
    for st in stmts:
      if isinstance(st, ast.If):
        reads_flag = flag in A.names_read(st.test)
        creates = any(isinstance(op, ast.NotIn) for cmp in ast.walk(st.test) if isinstance(cmp, ast.Compare) for op in cmp.ops) \
            and any(isinstance(x, ast.Assign) and isinstance(x.targets[0], ast.Subscript) and isinstance(x.value, ast.Dict)
                    for b in st.body for x in ast.walk(b))
        if reads_flag:
          marks = [x for b in st.body for x in ast.walk(b) if isinstance(x, ast.Assign)
                   and isinstance(x.targets[0], ast.Subscript) and A.unparse(x.targets[0].slice) in ms]
          n_marks += len(marks)
          if marks and creating:
            bad.append(st.lineno)
        walk(st.body, creating or creates)
        walk(st.orelse, creating)
      elif isinstance(st, (ast.For, ast.While, ast.With, ast.Try)):
        for fld in ('body', 'orelse', 'finalbody'):
          walk(getattr(st, fld, []) or [], creating)
  walk(f.node.body, False)
  if n_marks < 1:
    raise AnalysisError('KeyPathSet.add: marking of intermediates not found')
  ctx.ob('C10.i', 'KeyPathSet.add#intermediates', not bad,
         'add(path, include_intermediate=True) marks every prefix, whether or not its node existed',
         f.loc, f'the marking at line {bad} happens only inside the branch that creates a missing node: '
         f'KeyPathSet([\'a.b\']).add(\'a.b.c\', include_intermediate=True) leaves \'a\' out while the same call on an '
         f'empty set adds it')
  f = c.methods['rebase']
  g = C.cfg_of(f.node)
  wraps = [n for n in g.nodes if n.ast is not None and isinstance(n.ast, ast.Assign) and isinstance(n.ast.value, ast.Dict)
           and len(n.ast.value.keys) == 1 and isinstance(n.ast.value.values[0], ast.Name)]
  if not wraps:
    raise AnalysisError('KeyPathSet.rebase: wrapping step not found')
  tests = [n for n in g.nodes if n.kind == 'test' and '_trie' in A.unparse(n.ast)]
  ok = False
  for t in tests:
    # one outcome of the emptiness test never reaches the wrapping
    for lab in ('true', 'false'):
      blocked = {(t.id, m.id, l) for m, l in t.succ if l != lab}
      seen, _ = g.reach(t, blocked_edges=blocked, follow_exc=False)
      if not any(w.id in seen for w in wraps):
        ok = True
  ctx.ob('C10.i', 'KeyPathSet.rebase#empty', ok,
         'rebase wraps a non-empty trie only (an empty set stays empty)', f.loc,
         'no emptiness test: s = KeyPathSet(); s.rebase(\'a.b\') gives bool(s) True, list(s) == [], s != KeyPathSet()')


def rule_j(ctx):
  """The per-key comparison behind KeyPath ordering separates the keys that
  KeyPath equality separates: the branch that orders an int key against a str
  key must compare something that tells 0 from '0' - `str(key)` alone maps both
  to the same text, so a <= b and b <= a hold for two different paths."""
  idx = ctx.index
  f = idx.find_func(VL + 'KeyPath._KeyComparisonWrapper._compare')
  if f is None:
    raise AnalysisError('KeyPath._KeyComparisonWrapper._compare vanished')
  cmpname = f.node.args.args[2].arg
  bad = []
  n = 0
  for c in A.calls_in(f.node):
    if A.call_name(c) == cmpname and len(c.args) == 2:
      n += 1
      if all(isinstance(a, ast.Call) and A.call_name(a) == 'str' for a in c.args):
        bad.append(c.lineno)
  if n < 2:
    raise AnalysisError('KeyPath._KeyComparisonWrapper._compare: comparison calls not found')
  ctx.ob('C10.j', 'KeyPath._KeyComparisonWrapper._compare#mixed', not bad,
         'the mixed int/str branch compares a projection that is injective on keys', f.loc,
         f'line {bad}: only str(key) is compared, so the index 0 and the key \'0\' tie: KeyPath([0]) <= KeyPath([\'0\']) '
         f'and >= both hold although the paths differ')


def rule_j2(ctx):
  """One order for both operand kinds: KeyPath._compare orders against a str by the keys
  the str denotes, not by the printed text (text order puts 'a[10]' before 'a[2]' while
  the key order - used against a KeyPath - puts it after)."""
  idx = ctx.index
  f = idx.find_func(VL + 'KeyPath._compare')
  if f is None:
    raise AnalysisError('KeyPath._compare vanished')
  cmpname = f.node.args.args[2].arg
  calls = [c for c in A.calls_in(f.node) if A.call_name(c) == cmpname]
  if not calls:
    raise AnalysisError('KeyPath._compare: comparison call not found')
  textual = [c for c in calls if any(A.unparse(a) in ('self.path', 'str(self)', 'self._path_str') for a in c.args)]
  ctx.ob('C10.j', 'KeyPath._compare#str-operand', not textual,
         'a str operand is ordered as the path it denotes (key by key), like a KeyPath operand', f.loc,
         f'`{A.unparse(textual[0]) if textual else ""}` orders by printed text: KeyPath.parse(\'a[2]\') < \'a[10]\' is False '
         f'while KeyPath.parse(\'a[2]\') < KeyPath.parse(\'a[10]\') is True')


def rule_k(ctx, rule='C10.k'):
  """Path arithmetic in the symbolic Dict follows the key sequence: `path + s`
  PARSES a str (`'x.y'` becomes two keys), so the path of a child whose key is a
  variable is built with KeyPath(key, parent) - as the children's own paths are -
  never with `+`.  (List indices are ints and functor argument names are
  identifiers; they are not parsed, so only Dict is in scope.)"""
  idx = ctx.index
  c = idx.cls(S_DICT)
  n = 0
  for name, f in sorted(c.methods.items()):
    for b in ast.walk(f.node):
      if isinstance(b, ast.BinOp) and isinstance(b.op, ast.Add) and \
          A.dotted(b.left) in ('self.sym_path', 'self._sym_path', 'self.sym_path()'):
        n += 1
        key_is_literal_path = isinstance(b.right, ast.Constant)
        ctx.ob(rule, f'{f.qualname}#path-plus-key', key_is_literal_path,
               'the path of a child key is KeyPath(key, self.sym_path), not `self.sym_path + key`', f'{f.module.relpath}:{b.lineno}',
               f'`{A.unparse(b)}`: KeyPath.__add__ parses a str operand, so the key \'x.y\' is reported as the path x.y '
               f'(the node of ANOTHER child) in the field update')
  built = sum(1 for f in c.methods.values() for x in A.calls_in(f.node)
              if (A.call_name(x) or '').endswith('KeyPath') and len(x.args) == 2 and A.dotted(x.args[1]) in ('self.sym_path',))
  ctx.ob(rule, 'Dict#child-paths', n > 0 or built >= 2,
         f'child paths in pg.Dict: {built} built with KeyPath(key, self.sym_path), {n} with `+`', c.methods['__init__'].loc,
         'no child path construction found in pg.Dict')


def rule_l(ctx):
  """A recursive call forwards the options of the call it serves.  The nested-value
  functions of utils/hierarchical.py recurse into members; an
  optional parameter (a behaviour flag such as flatten_complex_keys) that is read by
  the function and not handed to the recursive call silently falls back to its default
  for the members - the tuple branch of `flatten` did."""
  idx = ctx.index
  n = 0
  # (symbolic/base.py is out: `clone(v, deep, memo)` rightly keeps `override`, whose paths are relative
  # to the root, for the root call - not every optional parameter is an option of the members)
  for rel in ('pyglove/core/utils/hierarchical.py',):
    m = idx.by_relpath[rel]
    for f in sorted(m.funcs.values(), key=lambda x: x.fq):
      if '.' in f.qualname:        # module-level functions only (methods recurse on members' own methods)
        continue
      a = f.node.args
      pos = [x.arg for x in a.args]
      defaults = pos[len(pos) - len(a.defaults):] + [k.arg for k, d in zip(a.kwonlyargs, a.kw_defaults) if d is not None]
      if not defaults:
        continue
      own = [x for x in A.walk_local(f.node) if isinstance(x, ast.Call) and A.call_name(x) == f.node.name]
      if not own:
        continue
      read = {x.id for x in ast.walk(f.node) if isinstance(x, ast.Name) and isinstance(x.ctx, ast.Load)}
      for c in own:
        n += 1
        if any(isinstance(x, ast.Starred) for x in c.args) or any(k.arg is None for k in c.keywords):
          continue
        given = set(pos[:len(c.args)]) | {k.arg for k in c.keywords}
        missing = [p for p in defaults if p in read and p not in given]
        ctx.ob('C10.l', f'{f.qualname}#recursive-call-options', not missing,
               'a recursive call passes on every optional parameter the function reads', f'{rel}:{c.lineno}',
               f'`{A.unparse(c, 80)}` does not forward {missing}: members are processed with the default instead of the '
               f'caller\'s choice')
  if n < 3:
    raise AnalysisError(f'C10.l: only {n} recursive calls found')


def run(ctx):
  ctx.consult(*FILES)
  rule_i(ctx)
  rule_j(ctx)
  rule_j2(ctx)
  rule_k(ctx)
  rule_l(ctx)
  rule_a(ctx)
  rule_b(ctx)
  rule_c(ctx)
  rule_d(ctx)
  rule_e(ctx)
  rule_f(ctx)
  rule_g(ctx)
  rule_h(ctx)
  ctx.assume('round-trip over all key strings, KeyPathSet algebra and flatten/canonicalize inverse laws are value-level')
