"""C14 — evolution operators (DESIGN §3 C14)."""
from __future__ import annotations

import ast

from sa import astutil as A
from sa import cfg as C
from sa import dataflow as D
from sa import surface as S
from sa.index import AnalysisError
from sa.rules import c09

PROP = 'C14'
EXPLANATION = (
    'For every operator class of pyglove.ext.evolution: (a) a DNA passed in is '
    'never the receiver (or ancestor of the receiver) of a mutating call '
    'unless first re-bound to its deep clone; Evolution._evolve clones a child '
    'that already carries a feedback number before writing metadata; (b) a '
    'DNA node stored at a new position is re-bound to the spec of that '
    'position or rebuilt; (c) randomness is drawn only through the instance '
    'generator derived from `seed` (never the global `random` module), and '
    'the seed is not installed by a notification-skipping rebind; (d) forward '
    'and reflected composition operators build the same composite with '
    'operands in evaluation order; (e) selectors only select; (f) composite '
    'operations accumulate into a fresh list.  Validity of produced DNAs over '
    'all spaces is not decided.')
FLOORS = {'C14.h': 1, 'C14.r': 1, 'C14.a': 2, 'C14.b': 1, 'C14.c': 6, 'C14.d': 6, 'C14.e': 3, 'C14.f': 2, 'C14.g': 4, 'C14.z': 2}
FILES = ['pyglove/ext/evolution/base.py', 'pyglove/ext/evolution/mutators.py',
         'pyglove/ext/evolution/recombinators.py', 'pyglove/ext/evolution/selectors.py',
         'pyglove/ext/evolution/where.py', 'pyglove/ext/evolution/nsga2.py']
E = 'pyglove.ext.evolution.'
MUTATING = ('rebind', 'sym_rebind', 'use_spec', 'set_metadata', 'set_userdata', 'append', 'extend',
            'insert', 'pop', 'remove', 'clear', 'sort', 'reverse', 'update', 'seal', 'sym_seal')


GENERIC_CONTAINER_MUTATORS = ('append', 'extend', 'insert', 'pop', 'remove', 'clear', 'sort', 'reverse', 'update')


def _aliases_dna_container(fn, name, derived):
  """Is local `name` bound (somewhere) directly to `<derived>.children` /
  `.metadata` / `.userdata` (an alias of a container that belongs to the
  caller's DNA)?"""
  for _, v in D.defs_of(fn, name):
    if v is None:
      continue
    if isinstance(v, ast.Attribute) and v.attr in ('children', 'metadata', 'userdata') and (
        A.names_read(v) & derived):
      return True
  return False


def _derived_from(fn, roots):
  """Names transitively assigned from expressions that read `roots`."""
  derived = set(roots)
  changed = True
  while changed:
    changed = False
    for n in A.walk_local(fn):
      pairs = []
      if isinstance(n, ast.Assign):
        pairs = [(t, n.value) for t in n.targets]
      elif isinstance(n, (ast.For, ast.comprehension)):
        pairs = [(n.target, n.iter)]
      for t, v in pairs:
        if A.names_read(v) & derived:
          for nm in A.assigned_names(t):
            if nm not in derived:
              derived.add(nm)
              changed = True
  return derived


def rule_a(ctx):
  idx = ctx.index
  n = 0
  for c in idx.all_classes():
    if not c.module.name.startswith(E):
      continue
    for mname, pnames in (('mutate', ('dna',)), ('recombine', ('parents',))):
      m = c.methods.get(mname)
      if m is None:
        continue
      params = [p for p in pnames if p in A.param_names(m.node)]
      if not params:
        continue
      n += 1
      g = C.cfg_of(m.node)
      derived = _derived_from(m.node, set(params))
      bad = []
      for k in g.nodes:
        if k.ast is None:
          continue
        for call in k.calls():
          d = A.call_name(call) or ''
          parts = d.split('.')
          if len(parts) >= 2 and parts[-1] in MUTATING and parts[0] in derived:
            # generic container mutators count only on a DNA's own children /
            # metadata containers or on the parameter itself; a local list that
            # merely was computed FROM the input (indices, decision points,
            # results of helper calls) is not the caller's DNA
            if parts[-1] in GENERIC_CONTAINER_MUTATORS:
              owns = ('children' in parts[1:-1] or 'metadata' in parts[1:-1] or 'userdata' in parts[1:-1]
                      or (len(parts) == 2 and parts[0] in params)
                      or _aliases_dna_container(m.node, parts[0], derived))
              if not owns:
                continue
            # is the root still the caller's object here?
            root = parts[0]
            chain = [root]
            # walk back through derivations to a parameter
            def from_param(name, node, depth=6):
              if depth == 0:
                return True
              for dn, val in D.reaching_defs(g, node, name):
                if val is None:
                  if name in params:
                    return True
                  continue
                if isinstance(val, ast.Call) and (A.call_name(val) or '').endswith('.clone'):
                  continue
                if isinstance(val, ast.Call) and (A.call_name(val) or '').split('.')[-1] in (
                    'from_dict', 'from_numbers', 'DNA', 'random_dna', 'first_dna', 'next_dna'):
                  continue
                for nm in A.names_read(val) & derived:
                  if from_param(nm, dn, depth - 1):
                    return True
              return False
            if from_param(root, k):
              bad.append(f'{d}() at line {call.lineno}')
      ctx.ob('C14.a', f'{m.fq}', not bad,
             f'{mname} never mutates the DNA(s) it was given (mutating calls only on a clone or on '
             f'freshly built DNAs)', m.loc,
             'caller-owned DNA is modified in place: ' + ', '.join(bad[:4]))
  if n < 2:
    raise AnalysisError(f'only {n} mutate/recombine overrides found')
  # Evolution._evolve: clone before metadata
  f = idx.func(E + 'base.Evolution._evolve')
  g = C.cfg_of(f.node)
  t = [k for k in g.nodes if k.kind == 'test' and 'get_feedback_sequence_number' in A.unparse(k.ast)]
  meta = [k for k in g.nodes if k.ast is not None and any(
      (A.call_name(c) or '') in ('set_proposal_id', 'set_generation_id', '_set_initial_population') for c in k.calls())]
  problems = []
  if not t or not meta:
    problems.append('feedback-number test / metadata writes not found')
  else:
    clone = {k.id for k in g.nodes if k.kind == 'stmt' and isinstance(k.ast, ast.Assign)
             and A.has_call(k.ast.value, lambda d: d.endswith('.clone')) and 'deep=True' in A.unparse(k.ast.value)}
    for m2, lab in t[0].succ:
      if lab == 'true':
        seen, _ = g.reach(m2, blocked_nodes=clone, follow_exc=False)
        if m2.id not in clone and any(x.id in seen for x in meta):
          problems.append('a population member (it has a feedback number) gets its metadata '
                          'overwritten without being cloned')
    blocked = {t[0].id}
    seen, _ = g.reach(g.entry, blocked_nodes=blocked, follow_exc=False)
    if any(x.id in seen for x in meta):
      problems.append('metadata written before the feedback-number test')
  ctx.ob('C14.a', f.fq, not problems,
         'a reproduced child that is an existing population member is deep-cloned before its '
         'proposal metadata is written', f.loc, '; '.join(problems))


def rule_b(ctx):
  """C12.d: a node stored at a children position is re-bound to that position."""
  idx = ctx.index
  n = 0
  for c in idx.all_classes():
    if not c.module.name.startswith(E):
      continue
    m = c.methods.get('mutate')
    if m is None:
      continue
    g = C.cfg_of(m.node)
    stores = []
    for k in g.nodes:
      if k.ast is None:
        continue
      for call in k.calls():
        d = A.call_name(call) or ''
        if d.endswith('.children.rebind') and call.args and isinstance(call.args[0], ast.Dict):
          stores.append((k, call, 'position'))
        elif d.endswith('.rebind') and A.kwarg(call, 'children') is not None:
          stores.append((k, call, 'children'))
    for k, call, kind in stores:
      n += 1
      # value stored
      if kind == 'position':
        v = call.args[0].values[0]
      else:
        v = A.kwarg(call, 'children')
      vn = v.id if isinstance(v, ast.Name) else None
      ok = False
      why = 'the stored node is never re-bound with use_spec'
      if vn:
        # fresh from random_dna / DNA(...).use_spec before, or use_spec after on all paths
        fresh = False
        for dn, val in D.reaching_defs(g, k, vn):
          if val is not None and isinstance(val, ast.Call) and (A.call_name(val) or '').split('.')[-1] in ('random_dna', 'from_dict', 'from_numbers'):
            fresh = True
        usespec_before = any(
            (A.call_name(c2) or '') == f'{vn}.use_spec' for k2 in g.nodes if k2.ast is not None
            for c2 in k2.calls())
        if kind == 'children':
          # each element re-bound in a loop before the store
          loops = [x for x in ast.walk(m.node) if isinstance(x, ast.For) and vn in A.unparse(x.iter)
                   and A.has_call(x, lambda d: d.endswith('.use_spec'))]
          ok = bool(loops)
          if ok:
            # ... on EVERY path from the (re)ordering of the list to the store
            loop_nodes = [k2 for k2 in g.nodes if k2.kind == 'iter' and any(k2.ast is lp for lp in loops)]
            for dn, val in D.reaching_defs(g, k, vn):
              if dn is None:
                continue
              w = g.can_skip(dn, lambda n_: n_ in loop_nodes, to=k)
              if w:
                ok = False
                why = ('the re-ordered children are stored without being re-bound on the path '
                       + ' -> '.join(w))
        else:
          def _uses(n_):
            return any(isinstance(x, ast.Call) and isinstance(x.func, ast.Attribute)
                       and x.func.attr == 'use_spec' for x in ast.walk(n_))
          after = lambda k2: any(_uses(e) for e in k2.exprs()) or (k2.kind == 'iter' and _uses(k2.ast))
          skip = g.can_skip(k, after)
          ok = fresh or usespec_before or skip is None
      ctx.ob('C14.b', f'{m.fq}#{A.unparse(call, 50)}', ok,
             'a DNA node placed at a position of a children list is bound to the decision point of '
             'THAT position (use_spec) or freshly generated for it', f'{m.module.relpath}:{call.lineno}',
             why + ': its spec still names the position it came from, so views by id/name disagree '
             'with a DNA rebuilt from the same numbers')
  if n < 2:
    raise AnalysisError(f'only {n} child-position stores found in mutators')
  # a sorted multi-choice is re-sorted (and re-aligned) whenever the spec asks
  f = idx.func(E + 'mutators.Uniform.mutate')
  g = C.cfg_of(f.node)
  store = [k for k in g.nodes if k.ast is not None and any(
      (A.call_name(c) or '').endswith('.children.rebind') for c in k.calls())]
  resort = {k.id for k in g.nodes if k.ast is not None and any(
      A.call_name(c) == 'sorted' and 'children' in A.unparse(c, 100) for c in k.calls())}
  blocked = set()
  for k in g.nodes:
    if k.kind == 'test' and A.unparse(k.ast).startswith('_node_needs_sorting('):
      for m2, lab in k.succ:
        if lab == 'false':
          blocked.add((k.id, m2.id, lab))
  problems = []
  if not store or not resort:
    problems.append('child store / re-sort step not found')
  else:
    seen, parent = g.reach(store[0], blocked_nodes=resort, blocked_edges=blocked, follow_exc=False)
    if g.exit.id in seen:
      problems.append('after replacing a sub-choice of a sorted multi-choice the re-sort can be '
                      'skipped by a condition other than the spec\'s own `sorted` flag: '
                      + str(g.witness_str(parent, g.exit)))
  ctx.ob('C14.b', f.fq + '#resort', not problems,
         'whenever the mutated node belongs to a sorted multi-choice, the children are re-sorted and '
         're-aligned (no further condition)', f.loc, '; '.join(problems))


RANDOM_FNS = {'choice', 'choices', 'sample', 'shuffle', 'randint', 'random', 'uniform', 'gauss',
              'randrange', 'normalvariate', 'betavariate', 'expovariate', 'seed', 'getrandbits',
              'triangular', 'vonmisesvariate', 'gammavariate', 'lognormvariate', 'paretovariate',
              'weibullvariate', 'randbytes'}


def rule_c(ctx):
  idx = ctx.index
  n = 0
  for m in idx.modules.values():
    if not m.name.startswith(E):
      continue
    for f in m.funcs.values():
      direct = [c for c in A.calls_in(f.node) if (A.call_name(c) or '').startswith('random.')
                and (A.call_name(c) or '').split('.')[1] in RANDOM_FNS]
      uses_rng = any(isinstance(x, ast.Attribute) and x.attr == '_random' for x in ast.walk(f.node)) or \
          'rand' in A.param_names(f.node) or 'random_generator' in A.param_names(f.node)
      if not direct and not uses_rng:
        continue
      n += 1
      ctx.ob('C14.c', f.fq, not direct,
             'randomness is drawn through the seeded instance generator (self._random / the `rand` '
             'argument), never through the process-wide `random` module functions', f.loc,
             'global random used: ' + ', '.join(f'{A.call_name(c)}() line {c.lineno}' for c in direct)
             + ': a seeded operator is no longer a function of its seed and inputs')
  if n < 5:
    raise AnalysisError(f'only {n} randomness-using functions found')
  # generator derived from the seed in _on_bound of every class declaring `seed`
  for c in idx.all_classes():
    if not c.module.name.startswith(E):
      continue
    ob = c.methods.get('_on_bound')
    if ob is None:
      continue
    if not any(isinstance(x, ast.Attribute) and x.attr == 'seed' for x in ast.walk(ob.node)):
      continue
    t = A.unparse(ob.node, 3000)
    ok = 'random.Random(self.seed)' in t and 'self._random' in t
    ctx.ob('C14.c', c.fq + '#generator', ok,
           'the instance generator is random.Random(self.seed) (the global module only when seed is None)',
           ob.loc, 'generator is not derived from self.seed')
  # (ii) seed installed by skipping rebind: shared with C09.c
  before = len(ctx.obs)
  c09.rule_c(ctx)
  kept = []
  for o in ctx.obs[before:]:
    if o.construct.startswith(E):
      o.rule = 'C14.c'
      kept.append(o)
  ctx.obs[before:] = kept


PAIRS = [('__rshift__', '__rrshift__', 'Pipeline'), ('__or__', '__ror__', 'Union'),
         ('__and__', '__rand__', 'Intersection'), ('__add__', '__radd__', 'Concatenation'),
         ('__sub__', '__rsub__', 'Difference'), ('__xor__', '__rxor__', 'SymmetricDifference')]


def rule_d(ctx):
  idx = ctx.index
  op = idx.cls(E + 'base.Operation')
  for fwd, ref, cls in PAIRS:
    for name, want in ((fwd, f'{cls}([self, x])'), (ref, f'{cls}([x, self])')):
      m = op.methods.get(name)
      if m is None:
        raise AnalysisError(f'Operation.{name} vanished')
      rets = [A.unparse(r.value) for r in ast.walk(m.node) if isinstance(r, ast.Return)]
      ok = want in rets
      ctx.ob('C14.d', m.fq, ok,
             f'{name} builds {want} (operands in evaluation order)', m.loc, f'returns {rets}')
  for name, want in (('__mul__', 'Repeat(self, k)'), ('__pow__', 'Power(self, k)'),
                     ('__neg__', 'Inversion(self)'), ('__invert__', 'Inversion(self)'),
                     ('__getitem__', 'Slice(self, index)')):
    m = op.methods.get(name)
    if m is None:
      raise AnalysisError(f'Operation.{name} vanished')
    rets = [A.unparse(r.value) for r in ast.walk(m.node) if isinstance(r, ast.Return)]
    ctx.ob('C14.d', m.fq, rets == [want], f'{name} builds {want}', m.loc, f'returns {rets}')


FORBIDDEN_IN_SELECT = ('clone', 'deepcopy', 'copy', 'DNA', 'from_dict', 'from_numbers', 'from_json',
                       'rebind', 'use_spec', 'set_metadata')


def rule_e(ctx):
  idx = ctx.index
  n = 0
  for c in idx.all_classes():
    if not c.module.name.startswith(E):
      continue
    if E + 'base.Selector' not in idx.mro(c.fq) or c.fq == E + 'base.Selector':
      continue
    m = c.methods.get('select')
    if m is None:
      continue
    n += 1
    bad = [f'{A.call_name(x)}() line {x.lineno}' for x in A.calls_in(m.node)
           if (A.call_name(x) or '').split('.')[-1] in FORBIDDEN_IN_SELECT]
    ctx.ob('C14.e', m.fq, not bad,
           'a selector returns members of its input: nothing on the way to the result constructs, '
           'copies or modifies an individual', m.loc, ', '.join(bad))
  if n < 3:
    raise AnalysisError(f'only {n} selectors found')


def rule_f(ctx):
  """Composite operations accumulate into a fresh container."""
  idx = ctx.index
  n = 0
  for c in idx.all_classes():
    if c.module.name != E + 'base' or E + 'base.Operation' not in idx.mro(c.fq):
      continue
    m = c.methods.get('call')
    if m is None:
      continue
    g = C.cfg_of(m.node)
    acc = set()
    for k in g.nodes:
      if k.ast is None:
        continue
      for call in k.calls():
        d = A.call_name(call) or ''
        p = d.split('.')
        if len(p) == 2 and p[1] in ('extend', 'append', 'insert', 'remove', 'pop', 'clear', 'sort') and p[0] not in ('self',):
          acc.add((p[0], k, call))
    # `x += more` grows x in place as well
    for k in g.nodes:
      if k.kind == 'stmt' and isinstance(k.ast, ast.AugAssign) and isinstance(k.ast.op, ast.Add) \
          and isinstance(k.ast.target, ast.Name) \
          and not (isinstance(k.ast.value, ast.Constant) and isinstance(k.ast.value.value, (int, float))) \
          and not any(isinstance(v, ast.Constant) and isinstance(v.value, (int, float)) and not isinstance(v.value, bool)
                      for _, v in D.defs_of(m.node, k.ast.target.id) if v is not None):
        fake = ast.Call(func=ast.Attribute(value=ast.Name(id=k.ast.target.id, ctx=ast.Load()), attr='extend', ctx=ast.Load()),
                        args=[k.ast.value], keywords=[])
        ast.copy_location(fake, k.ast)
        ast.fix_missing_locations(fake)
        acc.add((k.ast.target.id, k, fake))
    for var, k, call in sorted(acc, key=lambda x: x[2].lineno):
      if var in ('ids',):
        continue
      n += 1
      bad = []
      for dn, val in D.reaching_defs(g, k, var):
        if val is None:
          if var in A.param_names(m.node):
            bad.append('the `%s` parameter' % var)
          continue
        fresh = isinstance(val, (ast.List, ast.ListComp, ast.Dict, ast.Set)) or (
            isinstance(val, ast.Call) and A.call_name(val) in ('list', 'set', 'dict', 'sorted'))
        if isinstance(val, ast.Constant) and val.value is None:
          continue      # placeholder, replaced before the growth (the other definitions are judged)
        if isinstance(val, ast.BinOp) and isinstance(val.left, ast.Name) and val.left.id == var:
          continue      # the modelled `x += ...` itself
        if not fresh:
          bad.append(f'`{A.unparse(val, 50)}` (line {dn.lineno})')
      ctx.ob('C14.f', f'{m.fq}#{var}.{A.call_name(call).split(".")[1]}', not bad,
             'a list that a composite operation grows is one it created itself (never the output of '
             'a child operation or its input)', f'{m.module.relpath}:{call.lineno}',
             f'`{var}` can be ' + ', '.join(bad) + ': growing it modifies the caller\'s population '
             'or another operation\'s result')
  if n < 2:
    raise AnalysisError(f'only {n} accumulating calls found in composite operations')


PAIR_EXEMPT = {
    E + 'mutators.Swap.mutate': 'exchanging two positions keeps the multiset of values: distinctness cannot be '
                                'violated, only sortedness',
}


def rule_g(ctx):
  """(1) Cross-position constraints of a multi-choice come as a pair: an
  operator function that branches on `distinct` or on `sorted` of a decision
  point consults the other one too (treating a sorted-but-not-distinct group
  as independent positions produces unsorted offspring).
  (2) A selector never slices with a negated computed count: `inputs[-n:]`
  selects everything when n == 0."""
  idx = ctx.index
  n = 0
  for rel in ('pyglove/ext/evolution/mutators.py', 'pyglove/ext/evolution/recombinators.py'):
    m = idx.by_relpath[rel]
    for f in m.funcs.values():
      if '<locals>' in f.qualname:
        continue
      if '.' not in f.qualname and f.name.startswith('_'):
        continue   # private module-level predicate: judged through the closure of its callers
      reads = {x.attr for h in S.helper_closure(idx, f) for x in ast.walk(h.node) if isinstance(x, ast.Attribute)
               and x.attr in ('distinct', 'sorted') and not (isinstance(x.value, ast.Name) and x.value.id == 'self')}
      if not reads:
        continue
      n += 1
      if f.fq in PAIR_EXEMPT:
        ctx.ob('C14.g', f.fq, True, 'exempt: ' + PAIR_EXEMPT[f.fq], f.loc)
        continue
      ctx.ob('C14.g', f.fq, reads == {'distinct', 'sorted'},
             'an operator that consults one cross-position constraint of a multi-choice (distinct / sorted) consults both',
             f.loc, f'only `{sorted(reads)[0]}` is consulted: a multi-choice with only the other constraint is treated '
             f'as unconstrained positions and the offspring violates it')
  if n < 3:
    raise AnalysisError(f'only {n} operator functions consult distinct/sorted')
  # Swap: the multi-choice whose `sorted` flag forbids the swap is the one whose
  # sub-choices are exchanged and re-aligned (one spec expression for guard and action)
  f = idx.func(E + 'mutators.Swap.mutate')
  guard = {A.unparse(x.value) for x in ast.walk(f.node) if isinstance(x, ast.Attribute) and x.attr == 'sorted'}
  action = {A.unparse(x.func.value) for x in ast.walk(f.node) if isinstance(x, ast.Call)
            and isinstance(x.func, ast.Attribute) and x.func.attr == 'subchoice'}
  def _resolve(txts):
    out = set()
    for t in txts:
      try:
        e = ast.parse(t, mode='eval').body
      except SyntaxError:
        out.add(t)
        continue
      if isinstance(e, ast.Name):
        ds = [v for _, v in D.defs_of(f.node, e.id) if v is not None]
        out |= {A.unparse(v) for v in ds} or {t}
      else:
        out.add(t)
    return out
  guard, action = _resolve(guard), _resolve(action)
  ctx.ob('C14.g', f.fq + '#one-spec', bool(guard) and guard == action,
         'the spec whose `sorted` flag forbids a swap is the spec whose sub-choices are exchanged and re-aligned',
         f.loc, f'the guard consults {sorted(guard)} but the swap acts on {sorted(action)}: a sorted multi-choice reached '
         f'through another spec is shuffled')
  for c in idx.all_classes():
    if not c.module.name.startswith(E) or 'select' not in c.methods:
      continue
    f = c.methods['select']
    bad = []
    for x in ast.walk(f.node):
      if isinstance(x, ast.Subscript) and isinstance(x.slice, ast.Slice):
        for b_ in (x.slice.lower, x.slice.upper):
          if isinstance(b_, ast.UnaryOp) and isinstance(b_.op, ast.USub) and not isinstance(b_.operand, ast.Constant):
            bad.append(A.unparse(x, 60))
    ctx.ob('C14.g', f.fq + '#slice', not bad,
           'a selector does not slice with a negated computed count', f.loc,
           f'`{", ".join(bad)}`: when the count is 0 the slice [-0:] is the whole input, not the empty list')


EVO = 'pyglove.ext.evolution.'


def _evo_funcs(idx):
  for f in idx.all_funcs():
    if f.module.name.startswith(EVO) and not f.module.relpath.endswith('_test.py'):
      yield f


def rule_j(ctx):
  """Seeded operators are functions of their seed and inputs: no output order is
  taken from a set of DNAs (`list(set(...))`) - DNA.__hash__ hashes str values
  (custom decisions), so that order changes with PYTHONHASHSEED.  Removing
  duplicates keeps the order of first occurrence (dict.fromkeys / a seen-set)."""
  idx = ctx.index
  n = 0
  for f in _evo_funcs(idx):
    for c in A.calls_in(f.node):
      if A.call_name(c) in ('list', 'tuple') and c.args and isinstance(c.args[0], ast.Call) \
          and A.call_name(c.args[0]) in ('set', 'frozenset'):
        inner = c.args[0]
        ints = inner.args and isinstance(inner.args[0], ast.Call) and A.call_name(inner.args[0]) == 'range'
        n += 1
        ctx.ob('C14.j', f'{f.qualname}#list-of-set', bool(ints),
               'no output order comes from iterating a set of DNAs', f'{f.module.relpath}:{c.lineno}',
               f'`{A.unparse(c, 60)}`: the order of the result depends on the hash seed of the process (str decisions), '
               f'so the same seed and parents give differently ordered children in two processes')
  ctx.ob('C14.j', 'evolution#ordered-dedup', True, f'{n} list(set(...)) constructions examined', 'pyglove/ext/evolution/recombinators.py:1')


def rule_k(ctx):
  """Operators never modify the population passed in: Evolution._evolve hands
  self._population to the reproduction, which may return that very list
  (Identity, a Choice that does not fire, Conditional without a branch); the
  result is therefore copied before any element of it is replaced."""
  idx = ctx.index
  f = idx.func(EVO + 'base.Evolution._evolve')
  g = C.cfg_of(f.node)
  res = [(k, nm) for k in g.nodes if k.kind == 'stmt' and isinstance(k.ast, ast.Assign) and isinstance(k.ast.value, ast.Call)
         and any('_population' in A.unparse(a) for a in k.ast.value.args) for nm in A.assigned_names(k.ast.targets[0])]
  if not res:
    raise AnalysisError('Evolution._evolve: reproduction call not found')
  node, var = res[0]
  bad = []
  for k in g.nodes:
    if k.ast is None:
      continue
    w = None
    if k.kind == 'stmt' and isinstance(k.ast, (ast.Assign, ast.AugAssign, ast.Delete)):
      tg = k.ast.targets if not isinstance(k.ast, ast.AugAssign) else [k.ast.target]
      if any(isinstance(t, ast.Subscript) and A.unparse(t.value) == var for t in tg):
        w = A.unparse(k.ast, 50)
    for c in k.calls():
      d = A.call_name(c) or ''
      if d.split('.')[0] == var and d.split('.')[-1] in ('append', 'extend', 'insert', 'pop', 'remove', 'sort', 'reverse', 'clear'):
        w = A.unparse(c, 50)
    if w is None:
      continue
    for dn, val in D.reaching_defs(g, k, var):
      if dn is node or (val is not None and isinstance(val, ast.Call) and any('_population' in A.unparse(a) for a in val.args)):
        bad.append(f'`{w}` (line {k.lineno})')
        break
  ctx.ob('C14.k', f.qualname + '#population-kept', not bad,
         'the list returned by the reproduction is copied before it is written to (it may be the population itself)', f.loc,
         ', '.join(bad) + ' writes into the reproduction\'s result, which is self._population when the reproduction returns its '
         'input: evaluated individuals are replaced by un-evaluated clones (Top(1)(algo.population) then raises KeyError \'reward\')')


def rule_l(ctx):
  """A field declared with scalars.scalar_spec may hold a schedule (a callable of the
  step): it is read through scalars.scalar_value(...) wherever its VALUE is used
  (None tests aside).  Comparing the raw field with a number silently never matches
  for a schedule."""
  idx = ctx.index
  n = 0
  for c in idx.all_classes():
    if not c.fq.startswith(EVO) or c.module.relpath.endswith('_test.py'):
      continue
    fields = set()
    for dec in c.node.decorator_list:
      for t in ast.walk(dec):
        if isinstance(t, ast.Tuple) and len(t.elts) >= 2 and A.const_str(t.elts[0]) \
            and any(isinstance(x, ast.Call) and (A.call_name(x) or '').split('.')[-1] == 'scalar_spec' for x in ast.walk(t.elts[1])) \
            and not any(isinstance(x, ast.Call) and (A.call_name(x) or '').split('.')[-1] in ('List', 'Tuple', 'Dict') for x in ast.walk(t.elts[1])):
          fields.add(A.const_str(t.elts[0]))
    for fld in sorted(fields):
      raw = []
      for m in c.methods.values():
        wrapped = {id(a) for call in A.calls_in(m.node) if (A.call_name(call) or '').split('.')[-1] in ('scalar_value', 'make_scalar')
                   for a in call.args for a in ast.walk(a)}
        assigned_raw = set()
        for x in ast.walk(m.node):
          if isinstance(x, ast.Attribute) and A.dotted(x) == f'self.{fld}' and isinstance(x.ctx, ast.Load) and id(x) not in wrapped:
            # `self.f is None` / `is not None` tests and plain aliasing (`limit = self.limit`) are fine
            par = [p for p in ast.walk(m.node) if any(ch is x for ch in ast.iter_child_nodes(p))]
            p0 = par[0] if par else None
            if isinstance(p0, ast.Compare) and all(isinstance(o, (ast.Is, ast.IsNot)) for o in p0.ops):
              continue
            if isinstance(p0, ast.Assign) and p0.value is x:
              assigned_raw.update(A.assigned_names(p0.targets[0]))
              continue
            raw.append(f'{m.name}:{x.lineno}')
        # an alias must itself go through scalar_value before it is compared
        for nm in assigned_raw:
          cmp_raw = [x for x in ast.walk(m.node) if isinstance(x, ast.Compare) and not all(isinstance(o, (ast.Is, ast.IsNot)) for o in x.ops)
                     and nm in A.names_read(x)]
          rewrapped = any(isinstance(x, ast.Assign) and nm in A.assigned_names(x.targets[0]) and isinstance(x.value, ast.Call)
                          and (A.call_name(x.value) or '').split('.')[-1] in ('scalar_value', 'make_scalar') for x in ast.walk(m.node))
          if cmp_raw and not rewrapped:
            raw.append(f'{m.name}:{cmp_raw[0].lineno} (alias {nm})')
      n += 1
      ctx.ob('C14.l', f'{c.name}.{fld}#scalar-read', not raw,
             f'the scalar field `{fld}` is evaluated with scalars.scalar_value before its value is used', c.loc,
             f'raw use at {raw}: a schedule (callable) never equals a number, so the setting is ignored')
  if n < 4:
    raise AnalysisError(f'C14.l: only {n} scalar fields found')


def rule_m(ctx):
  """A composite operation calls the compatible wrapper it built in _on_bound
  (`self._op = make_operation_compatible(self.op)`), never the raw field: the field
  may hold a plain callable that does not take global_state / step."""
  idx = ctx.index
  n = 0
  for c in idx.all_classes():
    if not c.fq.startswith(EVO) or c.module.relpath.endswith('_test.py'):
      continue
    ob = c.methods.get('_on_bound')
    if ob is None:
      continue
    wrapped = {}
    for x in ast.walk(ob.node):
      if isinstance(x, ast.Assign) and isinstance(x.value, ast.Call) and (A.call_name(x.value) or '').split('.')[-1] == 'make_operation_compatible' \
          and x.value.args and (A.dotted(x.value.args[0]) or '').startswith('self.'):
        wrapped[A.dotted(x.value.args[0])] = A.dotted(x.targets[0])
    for raw_attr, wrap_attr in sorted(wrapped.items()):
      calls = [f'{m.name}:{k.lineno}' for m in c.methods.values() for k in A.calls_in(m.node) if A.call_name(k) == raw_attr]
      n += 1
      ctx.ob('C14.m', f'{c.name}#{raw_attr.split(".")[1]}', not calls,
             f'the operation is invoked through {wrap_attr}, the wrapper that accepts (inputs, global_state, step)', c.loc,
             f'{raw_attr}(...) is called directly at {calls}: a plain callable - accepted by the field spec and by every other '
             f'composite - fails with an unexpected keyword argument')
  if n < 3:
    raise AnalysisError(f'C14.m: only {n} wrapped operations found')


def rule_n(ctx):
  """Intersection counts in how many operands an item occurs, not how many times:
  the counter is incremented once per operand, i.e. while iterating a SET of the
  operand's outputs (an operand may output an item twice: Random(replacement=True),
  Sample, Proportional)."""
  idx = ctx.index
  f = idx.func(EVO + 'base.Intersection.call')
  incs = [x for x in ast.walk(f.node) if isinstance(x, ast.AugAssign) and isinstance(x.op, ast.Add) and isinstance(x.target, ast.Subscript)]
  if not incs:
    ctx.ob('C14.n', 'Intersection.call#per-operand', True, 'no occurrence counter', f.loc)
    return
  ok = True
  for inc in incs:
    loops = [lp for lp in ast.walk(f.node) if isinstance(lp, ast.For) and any(y is inc for b in lp.body for y in ast.walk(b))]
    inner = loops[-1] if loops else None
    it = inner.iter if inner is not None else None
    def is_set(e, depth=0):
      if isinstance(e, (ast.Set, ast.SetComp)):
        return True
      if isinstance(e, ast.Call) and A.call_name(e) in ('set', 'frozenset'):
        return True
      if isinstance(e, ast.Name) and depth < 2:
        ds = [v for _, v in D.defs_of(f.node, e.id) if v is not None]
        return bool(ds) and all(is_set(v, depth + 1) for v in ds)
      return False
    if it is None or not is_set(it):
      ok = False
  ctx.ob('C14.n', 'Intersection.call#per-operand', ok,
         'the occurrence counter is incremented once per operand (over the set of its outputs)', f.loc,
         'the counter is incremented per output item: an item one operand outputs twice reaches len(ops) - 1 without being in '
         'every operand\'s output (and an item output twice by two operands overshoots and is dropped)')


def run(ctx):
  ctx.consult(*FILES)
  rule_j(ctx)
  rule_k(ctx)
  rule_l(ctx)
  rule_m(ctx)
  rule_n(ctx)
  from sa.rules import c12 as _c12
  _before = len(ctx.obs)
  _c12.rule_i(ctx)     # operators hand out DNAs whose lookups agree with their decisions
  for o in ctx.obs[_before:]:
    o.rule = 'C14.i'
  # operators re-align moved sub-trees through DNA.use_spec: its "already bound" shortcut
  # must be an identity test (C12.c#identity-shortcut, decided here as well)
  from sa.rules import c12 as _c12
  _before = len(ctx.obs)
  _c12.rule_c(ctx, 'C14.h')
  ctx.obs[_before:] = [o for o in ctx.obs[_before:] if o.rule == 'C14.h']
  from sa.rejections import REJECTIONS as _REJ
  S.rejection_census_obligations(ctx, 'C14.r', _REJ['C14'], floor=1)
  rule_a(ctx)
  rule_b(ctx)
  rule_c(ctx)
  rule_d(ctx)
  rule_e(ctx)
  rule_f(ctx)
  rule_g(ctx)
  S.optional_truthiness_obligations(ctx, 'C14.z', ['pyglove/ext/evolution/base.py', 'pyglove/ext/evolution/mutators.py', 'pyglove/ext/evolution/recombinators.py', 'pyglove/ext/evolution/selectors.py', 'pyglove/ext/evolution/where.py'], 'seed 0 and count 0 are values')
  ctx.assume('validity of produced DNAs and the number a selector returns are not decided')
