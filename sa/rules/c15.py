"""C15 — recovery from history (DESIGN §3 C15)."""
from __future__ import annotations

import ast

from sa import astutil as A
from sa import cfg as C
from sa import dataflow as D
from sa import surface as S
from sa.index import AnalysisError

PROP = 'C15'
EXPLANATION = (
    'Structural conditions of state recovery for every DNAGenerator subclass '
    'in the repository: (a) a wrapper generator recovers its inner generator '
    'through the overridable entry point that inner generators actually '
    'customise (`recover`), not through `_replay`; (b) every field written on '
    'the propose/feedback paths is written on the recover/replay paths, and '
    'the replay step updates it as unconditionally as the live step; '
    'recovery of the initial-population phase counts only fed-back DNAs; (c) '
    'every recover override advances both counters; (d) the seed is tested '
    'with `is None` on the setup and the replay path alike.  Equality of '
    'recovered and uninterrupted state at every crash point is not decided.')
FLOORS = {'C15.a': 1, 'C15.b': 3, 'C15.c': 1, 'C15.d': 1, 'C15.e': 2, 'C15.z': 2}
FILES = ['pyglove/core/geno/dna_generator.py', 'pyglove/core/geno/sweeping.py',
         'pyglove/core/geno/random.py', 'pyglove/core/geno/deduping.py',
         'pyglove/ext/evolution/base.py', 'pyglove/ext/evolution/regularized_evolution.py',
         'pyglove/ext/evolution/hill_climb.py', 'pyglove/ext/evolution/nsga2.py',
         'pyglove/ext/evolution/neat.py']
GEN = 'pyglove.core.geno.dna_generator.DNAGenerator'

STATE_EXCEPTIONS = {
    ('pyglove.ext.evolution.base.Evolution', '_pending_proposals'):
        'in-flight batches are not required to be restored by the property',
    ('pyglove.core.geno.dna_generator.dna_generator.<locals>.SimpleDNAGenerator', '_error'):
        'terminal error latch of a user generator function (the wrapped Python generator itself '
        'cannot be replayed); outside the algorithms the property quantifies over',
    ('pyglove.core.geno.dna_generator.DNAGenerator', '_num_proposals'): 'counter (rule c)',
    ('pyglove.core.geno.dna_generator.DNAGenerator', '_num_feedbacks'): 'counter (rule c)',
}


def generators(idx):
  return [c for c in idx.all_classes() if GEN in idx.mro(c.fq)]


def _self_writes(idx, cls, start_methods, depth=4):
  """Fields `self._x` written (store / in-place mutation) on the paths from the
  given methods through self.<m>() calls of the class."""
  out = {}
  seen = set()
  stack = [(m, 0) for m in start_methods]
  while stack:
    name, d = stack.pop()
    if name in seen or d > depth:
      continue
    seen.add(name)
    m = idx.lookup_method(cls.fq, name)
    if m is None:
      continue
    for n in ast.walk(m.node):
      if isinstance(n, (ast.Assign, ast.AugAssign)):
        for t in A.stmt_targets(n):
          b = t
          while isinstance(b, ast.Subscript):
            b = b.value
          dd = A.dotted(b)
          if dd and dd.startswith('self._') and dd.count('.') <= 2:
            out.setdefault(dd.split('.')[1], []).append(m)
      elif isinstance(n, ast.Call):
        dd = A.call_name(n) or ''
        p = dd.split('.')
        if len(p) == 3 and p[0] == 'self' and p[1].startswith('_') and p[2] in (
            'append', 'extend', 'popleft', 'pop', 'clear', 'update', 'add', 'remove'):
          out.setdefault(p[1], []).append(m)
        elif len(p) == 2 and p[0] == 'self':
          stack.append((p[1], d + 1))
  return out


def _history_vars(fn):
  """(dna var, reward var) of the `for <d>, <r> in <history param>` loop of a
  recover implementation - whatever the loop variables are called."""
  params = [p for p in A.param_names(fn) if p != 'self']
  for lp in ast.walk(fn):
    if not isinstance(lp, ast.For):
      continue
    it, tg = lp.iter, lp.target
    if isinstance(it, ast.Call) and A.call_name(it) == 'enumerate' and it.args and isinstance(tg, ast.Tuple) \
        and len(tg.elts) == 2:
      it, tg = it.args[0], tg.elts[1]
    if isinstance(it, ast.Name) and it.id in params and isinstance(tg, ast.Tuple) and len(tg.elts) == 2 \
        and all(isinstance(e, ast.Name) for e in tg.elts):
      return tg.elts[0].id, tg.elts[1].id
  return 'dna', 'reward'


def rule_a(ctx):
  idx = ctx.index
  gens = generators(idx)
  recover_only = [c for c in gens if 'recover' in c.methods and '_replay' not in c.methods
                  and c.fq != GEN]
  for c in gens:
    # wrapper: has a field holding another generator and delegates propose to it
    wraps = any(isinstance(n, ast.Call) and (A.call_name(n) or '').startswith('self.generator.')
                for m in c.methods.values() for n in ast.walk(m.node))
    if not wraps:
      continue
    bad = []
    for m in c.methods.values():
      for n in ast.walk(m.node):
        if isinstance(n, ast.Call) and (A.call_name(n) or '') == 'self.generator._replay':
          bad.append((m, n))
    delegates_recover = any(isinstance(n, ast.Call) and (A.call_name(n) or '') == 'self.generator.recover'
                            for m in c.methods.values() for n in ast.walk(m.node))
    ok = not (bad and recover_only) and (delegates_recover or not recover_only)
    ctx.ob('C15.a', c.fq, ok,
           'a wrapper generator recovers its inner generator through `recover` (the entry point '
           'inner generators override), not through `_replay`', c.loc,
           'inner generator is replayed with `_replay` although '
           + ', '.join(x.name for x in recover_only) + ' customise recovery by overriding `recover` '
           'only: a wrapped evolution stays in its initial-population phase after recovery')


def rule_b(ctx):
  idx = ctx.index
  n = 0
  for c in generators(idx):
    live = _self_writes(idx, c, ['_propose', '_feedback'])
    rec = _self_writes(idx, c, ['recover', '_replay'])
    own = {f: ms for f, ms in live.items() if any(idx.enclosing_class(m).fq == c.fq for m in ms)}
    for field in sorted(own):
      if (c.fq, field) in STATE_EXCEPTIONS:
        ctx.ob('C15.b', f'{c.fq}#{field}', True, 'exempt: ' + STATE_EXCEPTIONS[(c.fq, field)], c.loc)
        continue
      n += 1
      ok = field in rec
      ctx.ob('C15.b', f'{c.fq}#{field}', ok,
             f'state `{field}` written while proposing/feeding back is also restored on the '
             f'recover/replay path', c.loc,
             f'`{field}` is written by {sorted({m.name for m in own[field]})} but by no recover/_replay '
             f'path: a recovered instance differs from the uninterrupted one')
  if n < 2:
    raise AnalysisError(f'only {n} generator state fields found')
  # replay updates as unconditionally as feedback does
  ded = 'pyglove.core.geno.deduping.Deduping'
  pred = lambda k: any(A.call_name(c) == 'self._add_dna_to_cache' for c in k.calls())
  m = idx.func(f'{ded}._feedback')
  g = C.cfg_of(m.node)
  w = g.can_skip(g.entry, pred)
  ctx.ob('C15.b', m.fq + '#cache', w is None,
         '_feedback records the DNA in the de-duplication memory on every path', m.loc,
         f'a path returns without _add_dna_to_cache: {w}; the recovered memory differs from the live one')
  # replay mirrors the live run: a DNA enters the memory when it is proposed if the
  # wrapped generator takes no feedback (_propose: `if not self.needs_feedback`), else
  # when its reward arrives (_feedback).  So in _replay: (a) with a reward, always;
  # (b) without feedback-driven inner generator, always; (c) in flight under a
  # feedback-driven generator, never.
  m = idx.func(f'{ded}._replay')
  g = C.cfg_of(m.node)
  rv = [p for p in A.param_names(m.node) if p not in ('self',)][-1]
  def edges(assume_reward, assume_needs_feedback):
    out = set()
    for k in g.nodes:
      if k.kind != 'test':
        continue
      t = A.unparse(k.ast)
      truth = None
      if t == f'{rv} is not None':
        truth = assume_reward
      elif t == f'{rv} is None':
        truth = None if assume_reward is None else (not assume_reward)
      elif t in ('self.needs_feedback', 'self.generator.needs_feedback'):
        truth = assume_needs_feedback
      if truth is None:
        continue
      out |= {(k.id, m2.id, l) for m2, l in k.succ if l == ('false' if truth else 'true')}
    return out
  wa = g.can_skip(g.entry, pred) if False else None
  def skip_under(blocked):
    blocked_nodes = {k.id for k in g.nodes if k.ast is not None and pred(k)}
    seen, parent = g.reach(g.entry, blocked_nodes=blocked_nodes, blocked_edges=blocked, follow_exc=False)
    return g.witness_str(parent, g.exit) if g.exit.id in seen else None
  def reach_add(blocked):
    seen, _ = g.reach(g.entry, blocked_edges=blocked, follow_exc=False)
    return any(k.id in seen for k in g.nodes if k.ast is not None and pred(k))
  wa = skip_under(edges(True, None))
  wb = skip_under(edges(None, False))
  ctx.ob('C15.b', m.fq + '#cache', wa is None and wb is None,
         '_replay records a fed-back DNA - and, under a generator that takes no feedback, every DNA - in the '
         'de-duplication memory on every path', m.loc,
         f'a path returns without _add_dna_to_cache: {wa or wb}; the recovered memory differs from the live one')
  ctx.ob('C15.b', m.fq + '#cache-in-flight', not reach_add(edges(False, True)),
         'a proposal whose reward never arrived is not put into the de-duplication memory of a feedback-driven '
         'generator (the live run caches it when the reward arrives)', m.loc,
         '_replay caches in-flight proposals with reward None: the recovered memory has entries the live one lacks, '
         'and auto_reward_fn is later called with [None]')
  ev = idx.func('pyglove.ext.evolution.base.Evolution.recover')
  g = C.cfg_of(ev.node)
  _, RV = _history_vars(ev.node)
  # the local list handed to the population initializer's recover()
  ipl = {a.id for c in A.calls_in(ev.node) if (A.call_name(c) or '').endswith('.recover')
         and (A.call_name(c) or '').startswith('self._init_population') for a in c.args if isinstance(a, ast.Name)}
  ip = [k for k in g.nodes if k.ast is not None and any(
      isinstance(c.func, ast.Attribute) and c.func.attr == 'append' and isinstance(c.func.value, ast.Name)
      and c.func.value.id in ipl for c in k.calls())]
  t = [k for k in g.nodes if k.kind == 'test' and A.unparse(k.ast) == f'{RV} is not None']
  problems = []
  if not ip or not t:
    problems.append('init_population bookkeeping / reward test not found')
  else:
    blocked = {(t[0].id, m2.id, l) for m2, l in t[0].succ if l == 'true'}
    seen, _ = g.reach(g.entry, blocked_edges=blocked, follow_exc=False)
    collected_ungated = ip[0].id in seen
    # what is compared with the initial population size: the whole list, or a count of its
    # rewarded entries only (the list may then also hold the in-flight proposals - C15.f)
    counts_rewarded_only = False
    for cmp_ in [x for x in ast.walk(ev.node) if isinstance(x, ast.Compare) and '_init_population_size' in A.unparse(x)
                 and not any(isinstance(o, (ast.Is, ast.IsNot)) for o in x.ops)]:
      other = [sd for sd in [cmp_.left] + list(cmp_.comparators) if '_init_population_size' not in A.unparse(sd)]
      for sd in other:
        exprs = [sd]
        if isinstance(sd, ast.Name):
          exprs = [v for _, v in D.defs_of(ev.node, sd.id) if v is not None]
        for e in exprs:
          comps = [c for c in ast.walk(e) if isinstance(c, (ast.ListComp, ast.GeneratorExp))
                   and any(A.unparse(gn.iter) in ipl for gn in c.generators)]
          if comps and all(any(isinstance(i_, ast.Compare) and any(isinstance(o, ast.IsNot) for o in i_.ops)
                               for gn in c.generators for i_ in gn.ifs) for c in comps):
            counts_rewarded_only = True
    if collected_ungated and not counts_rewarded_only:
      problems.append('a proposal whose reward never arrived is counted towards the completion of '
                      'the initial population (the live path counts feedbacks)')
  ctx.ob('C15.b', ev.fq + '#init-population', not problems,
         'recovery counts only fed-back DNAs towards "initial population complete", as the live '
         'feedback path does', ev.loc, '; '.join(problems))
  # recover replays population updates with the same call as _feedback
  fb = idx.func('pyglove.ext.evolution.base.Evolution._feedback')
  from sa import surface as S3
  tfb, tev = S3.closure_text(idx, fb), S3.closure_text(idx, ev)
  same = all('self._population_update(' in t and 'self._population.append(' in t for t in (tfb, tev))
  ctx.ob('C15.b', ev.fq + '#population', same,
         'recovery appends to the population and applies population_update exactly as _feedback does',
         ev.loc, 'population recovery diverged from _feedback')
  sw = idx.func('pyglove.core.geno.sweeping.Sweeping._replay')
  gsw = C.cfg_of(sw.node)
  dparam = [p for p in A.param_names(sw.node) if p not in ('self', 'trial_id', 'reward')]
  st = [k for k in gsw.nodes if k.kind == 'stmt' and isinstance(k.ast, ast.Assign)
        and A.unparse(k.ast.targets[0]) == 'self._last_proposed_dna'
        and isinstance(k.ast.value, ast.Name) and k.ast.value.id in dparam]
  # every replayed proposal advances the cursor, rewarded or still in flight
  ok = bool(st) and gsw.can_skip(gsw.entry, lambda n: n in st) is None
  ctx.ob('C15.b', sw.fq, ok, 'Sweeping replay restores the last proposed DNA (for every replayed proposal, '
         'including those whose reward never arrived)', sw.loc,
         '_last_proposed_dna is not restored from the replayed DNA')
  rd = idx.func('pyglove.core.geno.random.Random._replay')
  ok = any(A.call_name(c) == 'random_dna' and len(c.args) >= 2 and A.unparse(c.args[1]) == 'self._random'
           for c in A.calls_in(rd.node))
  ctx.ob('C15.b', rd.fq, ok, 'a seeded Random advances its generator once per replayed proposal', rd.loc,
         'the generator is no longer advanced on replay')


SPEC_SERVICES = ('next_dna', 'iter_dna', 'spec', 'named_decisions', 'decision_ids', 'is_subchoice', 'multi_choice_spec',
                 'literal_value', 'to_dict')


def rule_e(ctx):
  idx = ctx.index
  ev = idx.func('pyglove.ext.evolution.base.Evolution.recover')
  fb = idx.func('pyglove.ext.evolution.base.Evolution._feedback')
  # (1) per restored individual, the population update runs inside the replay
  # loop, as it runs per feedback on the live path
  cls = idx.enclosing_class(ev)
  def helper_of(call):
    d = A.call_name(call) or ''
    return cls.methods.get(d[5:]) if d.startswith('self.') and cls is not None else None
  def htext(call):
    h = helper_of(call)
    return A.unparse(h.node, 20000) if h is not None else ''
  def appends(k):
    return k.ast is not None and any(A.call_name(c) == 'self._population.append' or
                                     'self._population.append(' in htext(c) for c in k.calls())
  def upd(k):
    return (k.kind == 'test' and A.unparse(k.ast) == 'self._population_update') or (k.ast is not None and any(
        A.call_name(c) == 'self._population_update' or 'self._population_update(' in htext(c) for c in k.calls()))
  def check_after_append(g, a, to, where):
    if any(helper_of(c) is not None and 'self._population.append(' in htext(c) for c in a.calls()):
      # append and update live in one helper: decide it there
      out = []
      for c in a.calls():
        h = helper_of(c)
        if h is not None and 'self._population.append(' in htext(c):
          gh = C.cfg_of(h.node)
          for a2 in [k for k in gh.nodes if k.ast is not None and any(A.call_name(cc) == 'self._population.append' for cc in k.calls())]:
            w = gh.can_skip(a2, lambda n: n is not a2 and upd(n))
            if w is not None:
              out.append(f'{h.name}: after the append a path returns without population_update: {w}')
      return out
    w = g.can_skip(a, lambda n: n is not a and upd(n), to=to)
    return [f'{where}: after line {a.ast.lineno} the next history item is reached without population_update: {w}'] if w is not None else []
  g = C.cfg_of(ev.node)
  heads = [k for k in g.nodes if k.kind == 'iter']
  apps = [k for k in g.nodes if appends(k)]
  problems = []
  if not heads or not apps:
    problems.append('replay loop / population append not found')
  else:
    for a in apps:
      problems += check_after_append(g, a, heads[0], 'recover')
  ctx.ob('C15.e', ev.fq + '#update-per-individual', not problems,
         'recovery applies population_update once per restored individual (inside the replay loop), like the '
         'live feedback path', ev.loc, '; '.join(problems))
  # (1b) the step handed to population_update is the feedback count BEFORE this individual
  # is counted, as on the live path (DNAGenerator.feedback advances the counter after
  # _feedback returned): the counter is not advanced on the way to the update
  g2 = C.cfg_of(ev.node)
  upd_calls = [k for k in g2.nodes if k.ast is not None and any(
      A.call_name(c) == 'self._population_update' or 'self._population_update(' in htext(c) for c in k.calls())]
  incs = {k.id for k in g2.nodes if k.kind == 'stmt' and isinstance(k.ast, ast.AugAssign)
          and A.unparse(k.ast.target) == 'self._num_feedbacks'}
  heads2 = [k for k in g2.nodes if k.kind == 'iter']
  problems = []
  if upd_calls and heads2:
    for m2, lab in heads2[0].succ:
      if lab in ('true', 'body', 'next'):
        seen2, _ = g2.reach(m2, blocked_nodes=incs, follow_exc=False)
        seen2.add(m2.id)
        if not any(u.id in seen2 for u in upd_calls):
          problems.append('population_update is reached only after the feedback counter was advanced: it is called '
                          'with step = n+1 where the live path used step = n')
  else:
    problems.append('population_update / replay loop not found')
  ctx.ob('C15.e', ev.fq + '#update-step', not problems,
         'recovery calls population_update with the same step as the live path (before the individual is counted)',
         ev.loc, '; '.join(problems))
  # (2) thresholds: the live path tests before the counter is advanced (size - 1);
  # recovery tests after (no offset)
  SIZE = '_init_population_size'
  def marks(st):
    if isinstance(st, ast.Assign) and A.unparse(st.targets[0]) == 'self._population_initialized' \
        and A.unparse(st.value) == 'True':
      return True
    if isinstance(st, ast.Expr) and isinstance(st.value, ast.Call):
      h = helper_of(st.value)
      return h is not None and any(marks(x) for x in ast.walk(h.node) if isinstance(x, ast.Assign))
    return False
  def guards_of_init(fn):
    """Per marking statement: the tests of the enclosing `if`s, with private
    predicate helpers and local aliases of the size expanded."""
    out = []
    def visit(stmts, tests):
      for st in stmts:
        if marks(st):
          out.append(list(tests))
        if isinstance(st, ast.If):
          visit(st.body, tests + [st.test])
          visit(st.orelse, tests)
        elif isinstance(st, (ast.For, ast.While, ast.With, ast.Try)):
          for fld in ('body', 'orelse', 'finalbody'):
            visit(getattr(st, fld, []) or [], tests)
          for hd in getattr(st, 'handlers', []) or []:
            visit(hd.body, tests)
    visit(fn.node.body, [])
    res = []
    for tests in out:
      exprs = list(tests)
      for t in tests:
        for c in ast.walk(t):
          if isinstance(c, ast.Call) and helper_of(c) is not None:
            exprs += [r.value for r in ast.walk(helper_of(c).node) if isinstance(r, ast.Return) and r.value is not None]
      res.append((fn, exprs))
    return res
  def size_aliases(fn):
    return {nm for nm in {n.id for n in ast.walk(fn.node) if isinstance(n, ast.Name)}
            if any(v is not None and SIZE in A.unparse(v) and not any(isinstance(b, ast.BinOp) for b in ast.walk(v))
                   for _, v in D.defs_of(fn.node, nm))}
  def mentions_size(e, al):
    return SIZE in A.unparse(e) or any(isinstance(n, ast.Name) and n.id in al for n in ast.walk(e))
  def offsets(fn, exprs):
    al = size_aliases(fn)
    return [A.unparse(b) for e in exprs for b in ast.walk(e) if isinstance(b, ast.BinOp) and mentions_size(b, al)]
  grec, gfb = guards_of_init(ev), guards_of_init(fb)
  problems = []
  if not grec or not gfb:
    problems.append('population-initialised guard not found')
  for fn, exprs in grec:
    if offsets(fn, exprs):
      problems.append(f'recover compares with {offsets(fn, exprs)} after the counters were advanced: the population '
                      f'counts as initialised one feedback early')
    if not any(mentions_size(e, size_aliases(fn)) for e in exprs):
      problems.append('recover does not compare with the initial population size')
  for fn, exprs in gfb:
    if not any(o.replace(' ', '').endswith('-1') for o in offsets(fn, exprs)):
      problems.append('_feedback tests before its counter is advanced and must compare with size - 1')
  ctx.ob('C15.e', ev.fq + '#threshold', not problems,
         'the "initial population complete" threshold is size-1 before the feedback counter advances (live) and '
         'size after it advanced (recovery)', ev.loc, '; '.join(problems))
  # (3) replayed DNAs may be unbound (history persisted as JSON): state restored
  # from them is never asked for spec services; the generator asks its own spec
  n = 0
  for c in generators(idx):
    rp = c.methods.get('_replay')
    if rp is None:
      continue
    params = [p for p in A.param_names(rp.node) if p != 'self']
    binds = any((A.call_name(cc) or '').endswith('.use_spec') for cc in A.calls_in(rp.node))
    fields = [A.unparse(st.targets[0]) for st in ast.walk(rp.node) if isinstance(st, ast.Assign)
              and isinstance(st.value, ast.Name) and st.value.id in params
              and A.unparse(st.targets[0]).startswith('self.')]
    for fld in fields:
      n += 1
      bad = []
      for m in c.methods.values():
        for node in ast.walk(m.node):
          if isinstance(node, ast.Attribute) and node.attr in SPEC_SERVICES and A.unparse(node.value) == fld:
            bad.append(f'{m.name}:{node.lineno} `{A.unparse(node, 60)}`')
      ctx.ob('C15.e', f'{c.fq}#{fld[5:]}-unbound', binds or not bad,
             f'`{fld}` is restored from a replayed DNA that may carry no spec; successors are asked of '
             f'self.dna_spec, not of it', c.loc, '; '.join(bad))
  # (n == 0 is reported by C15.b: Sweeping replay no longer restores the cursor)


def rule_c(ctx):
  idx = ctx.index
  base = idx.func(GEN + '.recover')
  t = A.unparse(base.node, 3000)
  _, RV0 = _history_vars(base.node)
  ok = 'self._num_proposals += 1' in t and 'self._num_feedbacks += 1' in t and f'{RV0} is not None' in t
  ctx.ob('C15.c', base.fq, ok,
         'the default recover advances the proposal counter per DNA and the feedback counter per '
         'fed-back DNA', base.loc, 'counter bookkeeping changed')
  # ... for EVERY fed-back DNA: feedback() counts every call, also for generators that
  # ignore rewards, so with a reward nothing else may stand before the increment
  gb = C.cfg_of(base.node)
  rtb = [k for k in gb.nodes if k.kind == 'test' and A.unparse(k.ast) == f'{RV0} is not None']
  headsb = [k for k in gb.nodes if k.kind == 'iter']
  advb = lambda k: k.kind == 'stmt' and isinstance(k.ast, ast.AugAssign) and A.unparse(k.ast.target) == 'self._num_feedbacks'
  wb = 'reward test / loop not found'
  if rtb and headsb:
    wb = None
    for m2, lab in rtb[0].succ:
      if lab == 'true' and not advb(m2):
        wb = gb.can_skip(m2, advb, to=headsb[0])
  ctx.ob('C15.c', base.fq + '#feedback-counter-paths', wb is None,
         'every fed-back DNA of the history advances the feedback counter (as feedback() does for every call)',
         base.loc, f'a path with a reward skips the counter: {wb}')
  n = 0
  for c in generators(idx):
    m = c.methods.get('recover')
    if m is None or c.fq == GEN:
      continue
    n += 1
    # on every path of an iteration with `reward is not None`, the feedback
    # counter is advanced (directly, or through self.feedback)
    g = C.cfg_of(m.node)
    rt = [k for k in g.nodes if k.kind == 'test' and A.unparse(k.ast) == f'{_history_vars(m.node)[1]} is not None']
    adv = lambda k: any(A.call_name(cc) in ('self.feedback', 'super().recover') for cc in k.calls()) or (
        k.kind == 'stmt' and isinstance(k.ast, ast.AugAssign) and A.unparse(k.ast.target) == 'self._num_feedbacks')
    if rt:
      heads = [k for k in g.nodes if k.kind == 'iter']
      for m2, lab in rt[0].succ:
        if lab == 'true' and heads and not adv(m2):
          w = g.can_skip(m2, adv, to=heads[0])
          ctx.ob('C15.c', m.fq + '#feedback-counter-paths', w is None,
                 'every fed-back DNA of the history advances the feedback counter, whichever branch '
                 'restores it', m.loc, f'a path with a reward skips the counter: {w}')
    t = A.unparse(m.node, 9000)
    prop = 'self._num_proposals += 1' in t or 'super().recover(' in t
    fb = 'self._num_feedbacks += 1' in t or 'self.feedback(' in t or 'super().recover(' in t
    ctx.ob('C15.c', m.fq, prop and fb,
           'a recover override advances both the proposal and the feedback counter', m.loc,
           f'proposals advanced: {prop}, feedbacks advanced: {fb}')
  if n < 1:
    raise AnalysisError('no recover override found')


def rule_d(ctx):
  idx = ctx.index
  for q in ('pyglove.core.geno.random.Random._setup', 'pyglove.core.geno.random.Random._replay'):
    f = idx.func(q)
    g = C.cfg_of(f.node)
    tests = [A.unparse(k.ast) for k in g.nodes if k.kind == 'test' and 'seed' in A.unparse(k.ast)]
    ok = bool(tests) and all(t.replace(' ', '') in ('self.seedisNone', 'self.seedisnotNone') for t in tests)
    ctx.ob('C15.d', q, ok,
           'the seed is tested with `is None` / `is not None` (seed 0 is a seed): setup and replay '
           'agree on when the generator is deterministic', f.loc,
           f'seed tested as {tests}: seed=0 is treated as unseeded on one of the two paths')


def rule_f(ctx):
  """Evolution overrides `recover`; two things the base replay does by construction have to
  be re-done there.  (1) The reward is compared / stored in the form `_feedback` receives:
  the history holds it as it was given to `feedback` (a float for a multi-objective
  algorithm), so any comparison of the history reward with the stored fitness goes through
  the same normalisation `feedback` applies.  (2) Every initial proposal of the history is
  replayed into the population initializer, the ones still in flight (reward None)
  included - otherwise a Sweeping / seeded Random initializer proposes them again."""
  idx = ctx.index
  f = idx.func('pyglove.ext.evolution.base.Evolution.recover')
  fb = idx.func('pyglove.core.geno.dna_generator.DNAGenerator.feedback')
  # the normaliser: the helper feedback passes the reward through before _feedback
  norm = None
  for c in A.calls_in(fb.node):
    if (A.call_name(c) or '').endswith('._feedback') and len(c.args) >= 2 and isinstance(c.args[1], ast.Call):
      norm = (A.call_name(c.args[1]) or '').split('.')[-1]
  loops = [lp for lp in ast.walk(f.node) if isinstance(lp, ast.For) and isinstance(lp.target, ast.Tuple) and len(lp.target.elts) == 2]
  if not loops:
    raise AnalysisError('Evolution.recover: history loop not found')
  lp = loops[0]
  rvar = A.assigned_names(lp.target)[1]
  raw = []
  for cmp_ in [x for x in ast.walk(lp) if isinstance(x, ast.Compare) and any(isinstance(o, (ast.Eq, ast.NotEq)) for o in x.ops)]:
    sides = [cmp_.left] + list(cmp_.comparators)
    if any(isinstance(sd, ast.Name) and sd.id == rvar for sd in sides) and any(
        isinstance(sd, ast.Call) and (A.call_name(sd) or '').split('.')[-1] == 'get_fitness' for sd in sides):
      raw.append(cmp_.lineno)
  ctx.ob('C15.f', 'Evolution.recover#reward-form', not raw,
         'the history reward is compared with the stored fitness in the form feedback() stores it'
         + (f' (through {norm})' if norm else ''), f.loc,
         f'line {raw}: the raw history reward is compared with get_fitness(dna): a float given to a multi-objective algorithm '
         f'was stored as (r,), so recover() of its own history raises AssertionError')
  # (2) appends to the list handed to the initializer's recover
  init_lists = {A.unparse(c.args[0]) for c in A.calls_in(f.node)
                if (A.call_name(c) or '').endswith('_init_population_generator.recover') and c.args}
  if not init_lists:
    raise AnalysisError('Evolution.recover: the population initializer is not recovered')
  g = C.cfg_of(f.node)
  apps = [k for k in g.nodes if k.ast is not None and any(
      (A.call_name(c) or '') in {f'{l}.append' for l in init_lists} for c in k.calls())]
  if not apps:
    raise AnalysisError('Evolution.recover: nothing is collected for the population initializer')
  tests = [t for t in g.nodes if t.kind == 'test' and isinstance(t.ast, ast.Compare) and rvar in A.names_read(t.ast)
           and any(isinstance(o, (ast.Is, ast.IsNot)) for o in t.ast.ops)]
  gated = False
  for t in tests:
    # is the append reachable only through the "reward is not None" outcome?
    none_lab = 'true' if isinstance(t.ast.ops[0], ast.Is) else 'false'
    blocked = {(t.id, m.id, l) for m, l in t.succ if l != none_lab}
    seen, _ = g.reach(t, blocked_edges=blocked, follow_exc=False)
    if not any(a.id in seen for a in apps):
      gated = True
  ctx.ob('C15.f', 'Evolution.recover#initial-in-flight', not gated,
         'initial proposals are replayed into the population initializer whether or not they have a reward yet', f.loc,
         'the collection is reached only when `reward is not None`: an in-flight initial proposal is proposed again after recovery '
         '(Sweeping initializer: the recovered run repeats a DNA that is still being evaluated)')


def run(ctx):
  ctx.consult(*FILES)
  rule_f(ctx)
  rule_a(ctx)
  rule_b(ctx)
  rule_c(ctx)
  rule_d(ctx)
  rule_e(ctx)
  S.optional_truthiness_obligations(ctx, 'C15.z', ['pyglove/core/geno/dna_generator.py', 'pyglove/core/geno/random.py', 'pyglove/core/geno/sweeping.py', 'pyglove/core/geno/deduping.py', 'pyglove/ext/evolution/base.py'], 'seed 0 is a seed, reward 0.0 is a reward')
  ctx.assume('equality of recovered and uninterrupted state at every crash point is not decided')
