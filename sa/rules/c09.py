"""C09 — change notification and derived-state freshness (DESIGN §3 C09)."""
from __future__ import annotations

import ast

from sa import astutil as A
from sa import cfg as C
from sa import dataflow as D
from sa import surface as S
from sa.index import AnalysisError
from sa.rules import c08

PROP = 'C09'
EXPLANATION = (
    'Static decision of: (a) every public mutator that performs a storage '
    'write reaches _notify_field_updates on every normal path unless '
    'notifications are disabled / no update exists; (b) every memoised '
    'derived-state field is reset for each notified target before _on_change; '
    '(c) which call sites may skip notification and whether the skipped '
    'handler derives state from the rebound field; (d) FieldUpdate payload '
    'def-use; (e) completeness of the ancestor walk.  Exactly-once / ordering '
    'for arbitrary batches is not decided.')
FLOORS = {'C09.a': 10, 'C09.b': 2, 'C09.c': 2, 'C09.d': 1, 'C09.e': 1, 'C09.f': 4, 'C09.g': 2, 'C09.h': 3, 'C09.i': 5, 'C09.j': 4}
FILES = c08.FILES + ['pyglove/ext/evolution/recombinators.py',
                     'pyglove/ext/evolution/mutators.py',
                     'pyglove/core/geno/base.py', 'pyglove/core/geno/categorical.py']

NOTIFY = '_notify_field_updates'


def _update_vars(fn):
  """Locals holding the FieldUpdate(s) of this call: assigned from a write
  primitive / _sym_rebind, or lists those are appended to."""
  out = set()
  src = ('_set_item_without_permission_check', '_set_item_of_current_tree', '_sym_rebind')
  for n in ast.walk(fn):
    if isinstance(n, ast.Assign) and isinstance(n.value, ast.Call) and \
        (A.call_name(n.value) or '').split('.')[-1] in src:
      out |= set(A.assigned_names(n.targets[0]))
  def makes_update(e):
    return any(isinstance(x, ast.Call) and (A.call_name(x) or '').split('.')[-1] == 'FieldUpdate'
               for x in ast.walk(e))
  for n in ast.walk(fn):
    # updates = [FieldUpdate(...), ...] / [FieldUpdate(...) for ...]
    if isinstance(n, ast.Assign) and isinstance(n.value, (ast.List, ast.ListComp)) and makes_update(n.value):
      out |= set(A.assigned_names(n.targets[0]))
    # updates.append(FieldUpdate(...))
    if isinstance(n, ast.Call) and (A.call_name(n) or '').endswith('.append') and n.args and makes_update(n.args[0]):
      out.add((A.call_name(n) or '').split('.')[0])
  changed = True
  while changed:
    changed = False
    for n in ast.walk(fn):
      if isinstance(n, ast.Call) and (A.call_name(n) or '').endswith('.append') and n.args \
          and isinstance(n.args[0], ast.Name) and n.args[0].id in out:
        lst = (A.call_name(n) or '').split('.')[0]
        if lst not in out:
          out.add(lst)
          changed = True
  return out


def _is_allowed_skip_test(node, update_vars=frozenset({'update', 'updates'})):
  if node.kind != 'test':
    return False
  txt = A.unparse(node.ast, 300)
  if 'is_change_notification_enabled' in txt or 'skip_notification' in txt:
    return True
  # truthiness / None test of the update variable(s)
  names = A.names_read(node.ast)
  if names and names <= set(update_vars):
    return True
  return False


def _skip_edges(g, fn_node):
  """Edges taken only when notifications are off / no update exists."""
  blocked = set()
  uvars = _update_vars(fn_node)
  for n in g.nodes:
    if _is_allowed_skip_test(n, uvars):
      txt = A.unparse(n.ast, 300)
      skip_lab = 'true' if 'skip_notification' in txt and 'is_change' not in txt else 'false'
      for m, lab in n.succ:
        if lab == skip_lab:
          blocked.add((n.id, m.id, lab))
  return blocked


def _notify_nodes(idx, f, g, depth=0):
  """CFG nodes of f that notify: a direct self._notify_field_updates(...) call,
  or a call of a private helper of the same class every normal path of which
  (notifications on, an update present) notifies."""
  out = set()
  for n in g.nodes:
    if n.ast is None:
      continue
    for c in n.calls():
      d = A.call_name(c) or ''
      if d == 'self.' + NOTIFY:
        out.add(n.id)
      elif depth < 1 and d.startswith('self._') and d.count('.') == 1:
        cls = idx.enclosing_class(f)
        h = idx.lookup_method(cls.fq, d.split('.')[1]) if cls is not None else None
        if h is not None and h is not f and _always_notifies(idx, h, depth + 1):
          out.add(n.id)
  return out


def _always_notifies(idx, h, depth):
  g = C.cfg_of(h.node)
  nn = _notify_nodes(idx, h, g, depth)
  if not nn:
    return False
  seen, _ = g.reach(g.entry, blocked_nodes=nn, blocked_edges=_skip_edges(g, h.node), follow_exc=False)
  return g.exit.id not in seen


def rule_a(ctx):
  idx = ctx.index
  c08.rule_a(ctx, 'C09.a')
  finder = c08.make_sink_finder(idx)
  eps = [(c, n, f) for c, n, f in c08.entry_points(ctx)
         if n not in ('rebind',)]
  for cls_fq, name, f in eps:
    g = C.cfg_of(f.node)
    sinks = []
    for n in g.nodes:
      if n.ast is None:
        continue
      s = finder(f, n)
      # _sym_rebind call inside sym_rebind is the write step there
      if any(A.call_name(c) == 'self._sym_rebind' for c in n.calls()):
        s = s + [('self._sym_rebind', f'{f.module.relpath}:{n.lineno}', 'self')]
      if s:
        sinks.append((n, s))
    construct = f'{cls_fq}.{name}'
    if name == '_sym_rebind':
      # returns the updates to sym_rebind, which notifies (checked there)
      ctx.ob('C09.a', construct, True,
             'returns its FieldUpdates to sym_rebind (which notifies)', f.loc)
      continue
    if not sinks:
      ctx.ob('C09.a', construct, True,
             'performs no storage write itself (delegates to a notifying mutator)',
             f.loc)
      continue
    # assume notifications enabled and an update exists: block the false edges
    # of the allowed-skip tests (true edge for `skip_notification`-style tests
    # is handled by label below)
    blocked_edges = _skip_edges(g, f.node)
    notify_nodes = _notify_nodes(idx, f, g)
    bad = None
    for n, s in sinks:
      seen, parent = g.reach(n, blocked_nodes=notify_nodes,
                             blocked_edges=blocked_edges, follow_exc=False)
      if g.exit.id in seen:
        # a `return None` right after the primitive decided "no change" is ok:
        # only count exits that are reached when an update object exists. The
        # primitives' own early returns are inside the primitive, not here.
        bad = (s[0][0], s[0][1], g.witness_str(parent, g.exit))
        break
    ctx.ob('C09.a', construct, bad is None,
           'after a storage write, _notify_field_updates is reached on every '
           'normal path (skippable only by the notification flag / an empty '
           'update)', f.loc,
           '' if bad is None else f'{bad[0]} at {bad[1]} can return without notification',
           None if bad is None else bad[2])


def memo_fields(ctx):
  idx = ctx.index
  init = idx.func(S.SYMBOLIC + '.__init__')
  none_init = set()
  for c in A.calls_in(init.node):
    if (A.call_name(c) == 'self._set_raw_attr' and len(c.args) == 2
        and A.const_str(c.args[0]) and isinstance(c.args[1], ast.Constant)
        and c.args[1].value is None):
      none_init.add(A.const_str(c.args[0]))
  memos = {}
  sym = idx.cls(S.SYMBOLIC)
  for m in sym.methods.values():
    # getter pattern: v = getattr(self, '<f>'); if v is None: ...; self._set_raw_attr('<f>', v)
    reads = {A.const_str(c.args[1]) for c in A.calls_in(m.node)
             if A.call_name(c) == 'getattr' and len(c.args) >= 2 and A.const_str(c.args[1])}
    writes = {A.const_str(c.args[0]) for c in A.calls_in(m.node)
              if A.call_name(c) == 'self._set_raw_attr' and c.args and A.const_str(c.args[0])
              and not (isinstance(c.args[1], ast.Constant) and c.args[1].value is None)}
    for f in reads & writes & none_init:
      if any(isinstance(n, ast.Compare) and isinstance(n.ops[0], ast.Is)
             and isinstance(n.comparators[0], ast.Constant) and n.comparators[0].value is None
             for n in ast.walk(m.node)):
        memos[f] = m
  return memos


def rule_b(ctx):
  idx = ctx.index
  memos = memo_fields(ctx)
  if len(memos) < 2:
    raise AnalysisError(f'only {len(memos)} memo fields discovered: {sorted(memos)}')
  f = idx.func(S.SYMBOLIC + '.' + NOTIFY)
  g = C.cfg_of(f.node)
  onchange = [n for n in g.nodes if any((A.call_name(c) or '').endswith('._on_change') for c in n.calls())]
  if not onchange:
    raise AnalysisError('_notify_field_updates no longer calls _on_change')
  oc = onchange[0]
  recv = None
  for c in oc.calls():
    if (A.call_name(c) or '').endswith('._on_change'):
      recv = A.dotted(c.func.value)
  for memo in sorted(memos):
    resets = {n.id for n in g.nodes if n.ast is not None and any(
        A.call_name(c) == f'{recv}._set_raw_attr' and len(c.args) == 2
        and A.const_str(c.args[0]) == memo and isinstance(c.args[1], ast.Constant)
        and c.args[1].value is None for c in n.calls())}
    seen, parent = g.reach(g.entry, blocked_nodes=resets, follow_exc=False)
    ok = bool(resets) and oc.id not in seen
    ctx.ob('C09.b', f'{f.fq}#{memo}', ok,
           f'memo field {memo} (filled lazily by {memos[memo].name}) is reset on '
           f'each notified target before its _on_change', f.loc,
           f'_on_change reachable without resetting {memo}: derived state goes stale',
           None if ok else g.witness_str(parent, oc))
  # Object: container's copies are invalidated before delegating
  for meth, memo, getter in (('_sym_missing', '_sym_missing_values', 'sym_missing'),
                             ('_sym_nondefault', '_sym_nondefault_values', 'sym_nondefault')):
    fo = idx.lookup_method(S.OBJECT, meth)
    if fo is None:
      raise AnalysisError(f'Object.{meth} vanished')
    g = C.cfg_of(fo.node)
    resets = {n.id for n in g.nodes if n.ast is not None and any(
        A.call_name(c) == 'setattr' and len(c.args) == 3
        and A.dotted(c.args[0]) == 'self._sym_attributes'
        and A.const_str(c.args[1]) == memo
        and isinstance(c.args[2], ast.Constant) and c.args[2].value is None
        for c in n.calls())}
    use = [n for n in g.nodes if any(A.call_name(c) == f'self._sym_attributes.{getter}' for c in n.calls())]
    seen, _ = g.reach(g.entry, blocked_nodes=resets, follow_exc=False)
    ok = bool(use) and bool(resets) and not any(u.id in seen for u in use)
    ctx.ob('C09.b', fo.fq, ok,
           f"the attribute container's cached {memo} is invalidated before it is consulted",
           fo.loc, 'container cache consulted without invalidation')


def _handler_field_reads(idx):
  """{field: [(class, handler Func)]} for _on_bound/_on_change/_on_init
  overrides that read self.<field> (public name)."""
  out = {}
  for c in idx.all_classes():
    for h in ('_on_bound', '_on_change', '_on_init'):
      m = c.methods.get(h)
      if m is None:
        continue
      for n in ast.walk(m.node):
        if (isinstance(n, ast.Attribute) and isinstance(n.value, ast.Name)
            and n.value.id == 'self' and not n.attr.startswith('_')
            and isinstance(n.ctx, ast.Load)):
          out.setdefault(n.attr, []).append((c, m))
  return out


SKIP_EXCEPTIONS = {}


def rule_c(ctx):
  idx = ctx.index
  reads = _handler_field_reads(idx)
  n_sites = 0
  for f in idx.all_funcs():
    for call in A.calls_in(f.node):
      d = A.call_name(call)
      if d is None or d.split('.')[-1] not in ('rebind', 'sym_rebind'):
        continue
      kw = A.kwarg(call, 'skip_notification')
      if not (isinstance(kw, ast.Constant) and kw.value is True):
        continue
      n_sites += 1
      recv = A.dotted(call.func.value) or A.unparse(call.func.value)
      loc = f'{f.module.relpath}:{call.lineno}'
      construct = f'{f.fq}#{recv}.rebind'
      # (i) no public container API inside the symbolic package may skip on
      # behalf of its caller
      if f.module.name.startswith('pyglove.core.symbolic.'):
        ctx.ob('C09.c', construct, False,
               'no API inside pyglove.core.symbolic suppresses notification on '
               'behalf of its caller', loc,
               'rebind(..., skip_notification=True): _on_change/_on_bound of the '
               'target and its ancestors are not run and the partial/missing/'
               'non-default caches are not reset')
        continue
      # (ii) field-derived state
      fields = [k.arg for k in call.keywords
                if k.arg and k.arg not in ('skip_notification', 'raise_on_no_change', 'notify_parents')]
      if call.args and isinstance(call.args[0], ast.Dict):
        for k in call.args[0].keys:
          s = A.const_str(k) if k is not None else None
          if s and '.' not in s and '[' not in s:
            fields.append(s)
          else:
            fields.append(None)
      elif call.args:
        fields.append(None)
      if not fields or any(x is None for x in fields):
        ctx.info('C09.c', construct, 'skip-rebind with non-literal keys: not analysable statically', loc)
        if not [x for x in fields if x]:
          continue
      cls = idx.enclosing_class(f)
      if not (recv == 'self' or (recv.startswith('self.') and recv.count('.') == 1)):
        ctx.info('C09.c', construct, f'receiver `{recv}` is a local of statically unknown class: not analysed', loc)
        continue
      bad = []
      for fld in [x for x in fields if x]:
        for c, h in reads.get(fld, []):
          if recv == 'self':
            if cls is None:
              continue
            fam = set(idx.mro(cls.fq)) | {s.fq for s in idx.subclasses(cls.fq)}
            if c.fq not in fam:
              continue
            # lexically inside that very handler: it continues with the new value
            if f.name in ('_on_bound', '_on_change', '_on_init') and idx.enclosing_class(f) is not None:
              continue
          else:
            # receiver of unknown type: any class deriving state from the field
            pass
          bad.append((fld, c.fq, h.name))
      ok = not bad
      ctx.ob('C09.c', construct, ok,
             'a notification-skipping rebind does not change a field from which '
             'some handler (_on_bound/_on_change) of a possible receiver class '
             'derives state', loc,
             '' if ok else 'skipped handler derives state from the rebound field: '
             + ', '.join(f'{c}.{h} reads self.{fld}' for fld, c, h in bad[:4]),
             None if ok else bad[:10])
  if n_sites < 4:
    raise AnalysisError(f'C09.c found only {n_sites} skip-notification sites')


def _leaf_values(idx, f, expr, depth=3):
  """Possible values of expr as source text: through local definitions,
  conditional expressions and (one level) the returns of a private helper
  method called without arguments."""
  if depth <= 0:
    return {A.unparse(expr)}
  if isinstance(expr, ast.IfExp):
    return _leaf_values(idx, f, expr.body, depth) | _leaf_values(idx, f, expr.orelse, depth)
  if isinstance(expr, ast.Name):
    ds = [v for _, v in D.defs_of(f.node, expr.id)]
    if ds and all(v is not None for v in ds):
      out = set()
      for v in ds:
        out |= _leaf_values(idx, f, v, depth - 1)
      return out
    return {expr.id}
  if isinstance(expr, ast.Call):
    d = A.call_name(expr) or ''
    if d.startswith('self._') and d.count('.') == 1:
      cls = idx.enclosing_class(f)
      h = idx.lookup_method(cls.fq, d.split('.')[1]) if cls is not None else None
      if h is not None:
        out = set()
        for n in ast.walk(h.node):
          if isinstance(n, ast.Return) and n.value is not None:
            out |= _leaf_values(idx, h, n.value, depth - 1)
        if out:
          return out
  return {A.unparse(expr)}


STORAGE_READS = ('list.__getitem__', 'dict.get', 'dict.__getitem__', 'super().get', 'super().__getitem__',
                 'self.sym_getattr', 'self._sym_getattr', 'self.get', 'self.__getitem__')


def rule_d(ctx):
  idx = ctx.index
  for cls_fq in (S.LIST, S.DICT):
    f = idx.lookup_method(cls_fq, S.PRIMITIVE)
    g = C.cfg_of(f.node)
    fus = [c for c in A.calls_in(f.node) if (A.call_name(c) or '').endswith('FieldUpdate')]
    problems = []
    if not fus:
      problems.append('no FieldUpdate constructed')
    raw = [n for n in g.nodes if n.ast is not None and any(c08._raw_of_call(idx, f, c) for c in n.calls())]
    for fu in fus:
      if len(fu.args) < 5:
        problems.append(f'FieldUpdate has {len(fu.args)} positional args')
        continue
      path, target, field, old, new = fu.args[:5]
      pt = A.unparse(path, 200)
      # the node's own path extended by the key written (which form of extension is right for
      # a str key is C09.k / C10.k: `+` parses a str, KeyPath(key, parent) does not)
      keyp = f.node.args.args[1].arg
      names = set(A.names_read(path))
      # the key parameter itself, or a local derived from it (`index = key`)
      derived = {keyp} | {nm for nm in names for _, v in D.defs_of(f.node, nm)
                          if v is not None and keyp in A.names_read(v)}
      if 'self.sym_path' not in pt or not (derived & names):
        problems.append(f'path is `{pt}`, not the path of self extended by the key written')
      # target: the container itself; for an attribute container the owning object
      tv = _leaf_values(idx, f, target)
      want = {'self'} if cls_fq == S.LIST else {'self', 'self.sym_parent'}
      if tv != want:
        problems.append(f'update target candidates are {sorted(tv)}, expected {sorted(want)}')
      # old value: a local read from storage (or the MISSING marker) before any raw write
      if not isinstance(old, ast.Name):
        problems.append(f'old value is `{A.unparse(old)}`, not a value saved before the write')
      else:
        defs = [(n, D.node_defs(n).get(old.id)) for n in g.nodes if old.id in D.node_defs(n)]
        reads = [(n, v) for n, v in defs if v is not None and any(
            (A.call_name(c) or '') in STORAGE_READS for c in A.calls_in(v))]
        others = [v for n, v in defs if v is not None and (n, v) not in reads and 'MISSING_VALUE' not in A.unparse(v)]
        if not reads:
          problems.append('the old value is never read from storage')
        if others:
          problems.append('the old value is also defined as ' + ', '.join(f'`{A.unparse(v)}`' for v in others))
        for n, _ in reads:
          for r in raw:
            seen, _p = g.reach(r, follow_exc=False)
            if n.id in seen:
              problems.append('the old value is read after a raw write')
      # new value: what was formalized / stored
      if not isinstance(new, ast.Name):
        problems.append(f'new value is `{A.unparse(new)}`, not the stored value')
      else:
        nd = [v for _, v in D.defs_of(f.node, new.id) if v is not None]
        if not any(A.has_call(v, lambda d: d.endswith('_formalized_value')) for v in nd):
          problems.append('the new value does not derive from _formalized_value')
        if isinstance(old, ast.Name) and old.id == new.id:
          problems.append('old and new value are the same variable')
    ctx.ob('C09.d', f.fq, not problems,
           'FieldUpdate carries the path of the key written, the old value read before '
           'the write and the value actually stored', f.loc, '; '.join(problems))


def _resolve_local(fn, expr, depth=3):
  """Follow a Name through its single local definition (temporaries)."""
  while isinstance(expr, ast.Name) and depth > 0:
    ds = [v for _, v in D.defs_of(fn, expr.id) if v is not None]
    if len(ds) != 1:
      break
    expr = ds[0]
    depth -= 1
  return expr


def rule_e(ctx):
  idx = ctx.index
  f = idx.func(S.SYMBOLIC + '.' + NOTIFY)
  whiles = [n for n in ast.walk(f.node) if isinstance(n, ast.While)]
  problems = []
  walk_var = None
  if len(whiles) != 1:
    problems.append(f'{len(whiles)} while loops (expected the one ancestor walk)')
  else:
    w = whiles[0]
    t = w.test
    if (isinstance(t, ast.Compare) and isinstance(t.left, ast.Name) and isinstance(t.ops[0], ast.IsNot)
        and A.unparse(t.comparators[0]) == 'None'):
      walk_var = t.left.id
    else:
      problems.append(f'ancestor walk condition is `{A.unparse(t)}`, not `<node> is not None`')
    if walk_var:
      adv = [s_ for s_ in w.body if isinstance(s_, ast.Assign) and A.assigned_names(s_.targets[0]) == [walk_var]]
      if len(adv) != 1 or A.unparse(adv[0].value) != f'{walk_var}.sym_parent':
        problems.append('the walk variable is not advanced exactly once by `<node> = <node>.sym_parent`')
      elif w.body[-1] is not adv[0]:
        problems.append('advance is not the last statement of the walk')
      # registration: the first statement passes the node to the registry helper
      first = w.body[0]
      reg = [c for c in A.calls_in(first) if any(isinstance(a, ast.Name) and a.id == walk_var for a in c.args)]
      if not reg:
        problems.append('the node is not registered as the first step of each iteration')
      # any other assignment to the walk variable inside the loop skips ancestors
      if len([s_ for s_ in ast.walk(w) if isinstance(s_, ast.Assign) and walk_var in A.assigned_names(s_.targets[0])]) != 1:
        problems.append('the walk variable is assigned more than once inside the walk')
    if any(isinstance(n, (ast.Break, ast.Continue, ast.Return)) for n in ast.walk(w)):
      problems.append('ancestor walk can stop early')
  ctx.ob('C09.e', f.fq + '#ancestor-walk', not problems,
         'every sym_parent up to None is registered for notification', f.loc,
         '; '.join(problems))
  # walk starts from update.target for each update
  ups = f.node.args.args[1].arg if len(f.node.args.args) > 1 else 'field_updates'
  fors = [n for n in ast.walk(f.node) if isinstance(n, ast.For) and A.unparse(n.iter) == ups]
  ok = False
  if fors and walk_var:
    lv = A.unparse(fors[0].target)
    ok = any(isinstance(s_, ast.Assign) and A.assigned_names(s_.targets[0]) == [walk_var]
             and A.unparse(s_.value) == f'{lv}.target' for s_ in fors[0].body) and not any(
                 isinstance(n, (ast.Break, ast.Continue, ast.Return)) for n in ast.walk(fors[0]))
  ctx.ob('C09.e', f.fq + '#per-update', ok,
         'the walk is started from the target of every update in the batch', f.loc,
         'per-update loop changed shape')
  # dispatch loop: the loop whose body calls <x>._on_change
  problems = []
  dl = [n for n in ast.walk(f.node) if isinstance(n, ast.For)
        and any((A.call_name(c) or '').endswith('._on_change') for c in A.calls_in(n))]
  if not dl:
    problems.append('dispatch loop vanished')
  else:
    d = dl[0]
    brks = [n for n in ast.walk(d) if isinstance(n, (ast.Break, ast.Continue, ast.Return))]
    if len(brks) > 1:
      problems.append('more than one early stop in the dispatch loop')
    for n in ast.walk(d):
      if isinstance(n, ast.If) and any(isinstance(x, ast.Break) for x in ast.walk(n)):
        t = A.unparse(n.test)
        if 'is self' not in t or 'not notify_parents' not in t:
          problems.append(f'early stop condition is `{t}`')
        idx_if = d.body.index(n) if n in d.body else -1
        idx_oc = max((i for i, s_ in enumerate(d.body) if A.has_call(s_, lambda x: x.endswith('._on_change'))), default=-1)
        if idx_oc < 0 or idx_if < idx_oc:
          problems.append('early stop precedes the _on_change call')
    it = _resolve_local(f.node, d.iter)
    ok_order = (isinstance(it, ast.Call) and A.call_name(it) == 'sorted'
                and isinstance(A.kwarg(it, 'reverse'), ast.Constant) and A.kwarg(it, 'reverse').value is True
                and isinstance(A.kwarg(it, 'key'), ast.Lambda)
                and A.unparse(A.kwarg(it, 'key').body).endswith('.sym_path'))
    if not ok_order:
      problems.append('dispatch order is no longer deepest-path-first (sorted by sym_path, reverse=True)')
  ctx.ob('C09.e', f.fq + '#dispatch', not problems,
         'targets are dispatched deepest first; the only early stop is the '
         'notify_parents=False break after self was notified', f.loc,
         '; '.join(problems))


def rule_f(ctx):
  """No notification is delivered inside a notifications-disabled scope."""
  idx = ctx.index
  n = 0
  for f in idx.all_funcs():
    if not f.module.name.startswith('pyglove.core.symbolic.'):
      continue
    g = None
    for call in A.calls_in(f.node):
      d = A.call_name(call) or ''
      if d.split('.')[-1] != NOTIFY:
        continue
      n += 1
      g = g or C.cfg_of(f.node)
      node = [k for k in g.nodes if any(c is call for c in k.calls())]
      # tests whose passing means "notifications are on"
      blocked = set()
      for t in g.nodes:
        if t.kind != 'test':
          continue
        txt = A.unparse(t.ast, 200)
        if 'is_change_notification_enabled' in txt:
          for m, lab in t.succ:
            if lab == 'true':
              blocked.add((t.id, m.id, lab))
        elif txt == 'skip_notification':
          for m, lab in t.succ:
            if lab == 'false':
              blocked.add((t.id, m.id, lab))
      seen, parent = g.reach(g.entry, blocked_edges=blocked, follow_exc=False)
      bad = [k for k in node if k.id in seen]
      problems = []
      if bad:
        problems.append('reachable without passing the notification-enabled test: '
                        + str(g.witness_str(parent, bad[0])))
      if any(A.unparse(t.ast) == 'skip_notification' for t in g.nodes if t.kind == 'test'):
        # the default of skip_notification must come from the flag
        ok = any(isinstance(x, ast.Assign) and A.assigned_names(x.targets[0]) == ['skip_notification']
                 and A.unparse(x.value).replace(' ', '') == 'notflags.is_change_notification_enabled()'
                 for x in ast.walk(f.node))
        if not ok:
          problems.append('skip_notification default no longer derives from the notification flag')
      ctx.ob('C09.f', f'{f.fq}#notify@{A.unparse(call.args[0], 30) if call.args else ""}', not problems,
             'a change event is dispatched only when notifications are enabled '
             '(flags.is_change_notification_enabled() / skip_notification)',
             f'{f.module.relpath}:{call.lineno}', '; '.join(problems))
  if n < 8:
    raise AnalysisError(f'C09.f found only {n} notification call sites')


def rule_g(ctx):
  """Who receives a payload is decided afresh for every notification:
  `_subscribes_field_updates` is a pure function of the object (its callback /
  whether its class overrides _on_change) - no memo.  A memo kept on the class
  is inherited through the MRO by subclasses that do override _on_change, whose
  handlers are then called with an empty payload."""
  idx = ctx.index
  n = 0
  for cls_fq in (S.OBJECT, S.DICT, S.LIST):
    f = idx.lookup_method(cls_fq, '_subscribes_field_updates')
    if f is None:
      continue
    n += 1
    stores = []
    for x in ast.walk(f.node):
      if isinstance(x, (ast.Assign, ast.AugAssign, ast.AnnAssign)):
        for t in A.stmt_targets(x):
          if isinstance(t, (ast.Attribute, ast.Subscript)):
            stores.append(A.unparse(x, 80))
      elif isinstance(x, ast.Call) and (A.call_name(x) or '').split('.')[-1] in ('setattr', '_set_raw_attr', '__setattr__', 'setdefault'):
        stores.append(A.unparse(x, 80))
    ctx.ob('C09.g', f.fq, not stores,
           'whether an object subscribes to field updates is recomputed on every notification (no memo, no side effect)',
           f.loc, 'the answer is memoised: ' + '; '.join(stores) + ' - a cached value is shared with (or inherited by) '
           'objects for which it is wrong, and their handlers receive an empty payload')
  if n < 2:
    raise AnalysisError('_subscribes_field_updates implementations vanished')
  f = idx.lookup_method(S.OBJECT, '_subscribes_field_updates')
  t = A.unparse(f.node, 3000)
  ok = '_on_change.__code__' in t and 'Object._on_change.__code__' in t
  ctx.ob('C09.g', f.fq + '#override-test', ok,
         'an Object subscribes exactly when its class overrides _on_change (compared with Object._on_change)',
         f.loc, 'the override test against Object._on_change is gone')


def rule_h(ctx):
  """Events name locations by the path the changed node reports.  A list child
  must therefore report its real position after every positional shift,
  whether or not notifications were enabled at the time of the shift (the shift
  may happen in a notifications-disabled scope and the next event come later).
  These are the re-index obligations of C01.c / C01.g and the loop-coverage
  obligations of C01.f for the list, judged here for C09."""
  from sa.rules import c01
  import io
  sub = type(ctx)(ctx.index, 'C01')
  raws = c01.rule_m2(sub)
  c01.rule_c(sub, raws)
  c01.rule_f(sub)
  c01.rule_g(sub)
  n = 0
  for o in sub.obs:
    if o.info:
      continue
    if o.rule in ('C01.c', 'C01.g') or (o.rule == 'C01.f' and ('#loop@' in o.construct and '.list.' in o.construct)):
      n += 1
      ctx.ob('C09.h', o.construct, o.ok, o.what + ' (so that later events name the right location)', o.loc, o.detail, o.witness)
  if n < 3:
    raise AnalysisError('re-index obligations not found')


CACHE_FIELDS = ('_sym_missing_values', '_sym_nondefault_values', '_sym_puresymbolic')


def rule_i(ctx):
  """Derived facts (is_partial, sym_missing, sym_nondefault, is_pure_symbolic ...)
  are memoised per node and must be recomputed after ANY mutation below the
  node - also one made while notifications are switched off.  So in every
  mutator the reset of those memo fields on the ancestor chain must not be
  control-dependent on the notification flag (or on the caller's
  skip_notification).  Today the only reset lives inside the delivery routine
  (_notify_field_updates), which the mutators call only when notifications are
  enabled."""
  idx = ctx.index
  # functions that reset the memo fields (directly)
  def resets_here(fn):
    return any(isinstance(c, ast.Call) and (A.call_name(c) or '').endswith('_set_raw_attr') and c.args
               and A.const_str(c.args[0]) in CACHE_FIELDS and len(c.args) > 1 and A.unparse(c.args[1]) == 'None'
               for c in ast.walk(fn)) or any(
        isinstance(st, ast.Assign) and isinstance(st.targets[0], ast.Attribute) and st.targets[0].attr in CACHE_FIELDS
        and A.unparse(st.value) == 'None' for st in ast.walk(fn))
  resetters = set()
  for rel in FILES:
    m = idx.by_relpath.get(rel)
    if m is None:
      continue
    for f in m.funcs.values():
      if f.name not in ('__init__', '_init_kwargs', '__setstate__') and resets_here(f.node):
        resetters.add(f.name)
  if not resetters:
    raise AnalysisError('no function resets the derived-fact caches')
  n = 0
  for rel in FILES:
    m = idx.by_relpath.get(rel)
    if m is None:
      continue
    for f in sorted(m.funcs.values(), key=lambda x: x.fq):
      if f.name in resetters:
        continue
      g = C.cfg_of(f.node)
      is_reset = lambda k: k.ast is not None and any((A.call_name(c) or '').split('.')[-1] in resetters for c in k.calls())
      calls = [k for k in g.nodes if is_reset(k)]
      if not calls:
        continue
      # with notifications switched off: block the "enabled" outcome of every test that consults the flag
      blocked = set()
      flagged = False
      for k in g.nodes:
        if k.kind != 'test':
          continue
        t = A.unparse(k.ast, 200)
        if 'is_change_notification_enabled' in t:
          flagged = True
          for m2, lab in k.succ:
            if lab == 'true':
              blocked.add((k.id, m2.id, lab))
        elif t in ('skip_notification',):
          flagged = True
          for m2, lab in k.succ:
            if lab == 'false':
              blocked.add((k.id, m2.id, lab))
      if not flagged:
        continue
      n += 1
      seen, _ = g.reach(g.entry, blocked_edges=blocked, follow_exc=False)
      still = [k for k in calls if k.id in seen]
      # a private helper is reported at the public mutators that go through it
      # (so that the finding names an API entry point, not an internal name)
      owners = [f]
      if f.name.startswith('_') and not f.name.startswith('__'):
        cls = idx.enclosing_class(f)
        owners = [mm for mm in (cls.methods.values() if cls else []) if mm is not f and any(
            A.call_name(c) == f'self.{f.name}' for c in A.calls_in(mm.node))] or [f]
      for owner in sorted(owners, key=lambda x: x.fq):
       ctx.ob('C09.i', owner.fq + '#cache-reset', bool(still),
              'the derived-fact caches of the ancestors are reset after a mutation whether or not notifications are '
              'enabled', owner.loc,
              f'the only reset is inside {sorted(resetters)} (line {calls[0].lineno}), reached only when notifications are '
              f'enabled: after a mutation under notify_on_change(False) / skip_notification the ancestors keep reporting '
              f'the old is_partial / sym_missing / sym_nondefault')
  if n < 5:
    raise AnalysisError(f'only {n} mutators with a flag-guarded cache reset found')


def rule_j(ctx):
  """(1) Library code never switches notifications ON: inside a caller's
  `notify_on_change(False)` scope "none is delivered", so every
  notify_on_change(...) in the library passes the literal False (a computed
  argument such as `not skip_notification` is True for the default None).
  (2) Receivers of one dispatch are told apart by identity: the per-receiver
  buckets of _notify_field_updates are keyed by id(<receiver>) - a path or the
  receiver itself (containers compare and hash by content) merges a detached
  node with the root.  (3) An un-notified rebind resets the caches of the
  nodes that actually changed: the reset receives the updates that _sym_rebind
  returned (the changed fields can be deep below self)."""
  idx = ctx.index
  bad = []
  n = 0
  for f in idx.all_funcs():
    if f.module.relpath.endswith('flags.py'):
      continue
    for c in A.calls_in(f.node):
      if (A.call_name(c) or '').split('.')[-1] == 'notify_on_change':
        n += 1
        arg = c.args[0] if c.args else (c.keywords[0].value if c.keywords else None)
        if arg is None or A.unparse(arg) != 'False':
          bad.append(f'{f.module.relpath}:{c.lineno} `{A.unparse(c, 60)}`')
  ctx.ob('C09.j', 'library#notify_on_change-only-off', n >= 3 and not bad,
         'library code only ever switches change notification off (it never re-enables it inside a caller\'s disabled scope)',
         'pyglove/core/symbolic/flags.py:128', '; '.join(bad) or f'only {n} uses found')
  f = idx.func('pyglove.core.symbolic.base.Symbolic._notify_field_updates')
  # the bucket dict: a local dict whose values are (receiver, updates) pairs
  problems = []
  stores = []
  for h in [f.node] + [x for x in ast.walk(f.node) if isinstance(x, ast.FunctionDef) and x is not f.node]:
    for st in A.walk_local(h):
      if isinstance(st, ast.Assign) and isinstance(st.targets[0], ast.Subscript) and isinstance(st.value, ast.Tuple) \
          and len(st.value.elts) == 2:
        stores.append((h, st))
  if not stores:
    problems.append('per-receiver bucket store not found')
  for h, st in stores:
    key = st.targets[0].slice
    srcs = [key]
    if isinstance(key, ast.Name):
      srcs = [v for _, v in D.defs_of(h, key.id) if v is not None]
    if not srcs or not all(isinstance(v, ast.Call) and A.call_name(v) == 'id' for v in srcs):
      problems.append(f'line {st.lineno}: buckets are keyed by `{A.unparse(srcs[0], 40) if srcs else "?"}`, not by id(receiver)')
  ctx.ob('C09.j', f.fq + '#receiver-identity', not problems,
         'the receivers of one dispatch are told apart by identity (id), not by path or content', f.loc, '; '.join(problems))
  # (4) notify_parents=False stops the DELIVERY at self; the content of the ancestors has
  # changed all the same: their caches are reset before the dispatch loop is left early
  f = idx.func('pyglove.core.symbolic.base.Symbolic._notify_field_updates')
  g = C.cfg_of(f.node)
  brk = [k for k in g.nodes if k.kind in ('break', 'stmt') and isinstance(k.ast, ast.Break)]
  np_tests = [k for k in g.nodes if k.kind == 'test' and 'notify_parents' in A.unparse(k.ast)]
  resets = lambda k: k.ast is not None and any((A.call_name(c) or '').split('.')[-1] == '_sym_reset_content_caches' for c in k.calls())
  ok4 = None
  if np_tests:
    ok4 = True
    for t in np_tests:
      for m2, lab in t.succ:
        if lab == 'false':      # `not notify_parents` desugars to the false edge of `notify_parents`
          no_parent = {(k.id, m3.id, l3) for k in g.nodes if k.kind == 'test' and 'sym_parent' in A.unparse(k.ast)
                       and isinstance(k.ast, ast.Compare) and A.unparse(k.ast.comparators[0]) == 'None'
                       for m3, l3 in k.succ if l3 == ('false' if isinstance(k.ast.ops[0], ast.IsNot) else 'true')}
          seen4, _ = g.reach(m2, blocked_nodes={k.id for k in g.nodes if resets(k)}, blocked_edges=no_parent, follow_exc=False)
          seen4.add(m2.id)
          if g.exit.id in seen4 and not resets(m2):
            ok4 = False
  ctx.ob('C09.j', f.fq + '#ancestors-when-not-notified', bool(ok4),
         'when notify_parents=False ends the dispatch at self, the caches of the ancestors are reset before leaving', f.loc,
         'the dispatch stops at self and the ancestors keep their cached is_partial / sym_missing / sym_nondefault')
  f = idx.func('pyglove.core.symbolic.base.Symbolic.sym_rebind')
  upd = {nm for st in ast.walk(f.node) if isinstance(st, ast.Assign) and isinstance(st.value, ast.Call)
         and (A.call_name(st.value) or '') == 'self._sym_rebind' for nm in A.assigned_names(st.targets[0])}
  resets = [c for c in A.calls_in(f.node) if (A.call_name(c) or '') == 'self._sym_reset_content_caches']
  ok = bool(resets) and all(any(isinstance(a, ast.Name) and a.id in upd for a in list(c.args) + [k.value for k in c.keywords])
                            for c in resets)
  ctx.ob('C09.j', f.fq + '#reset-where-it-changed', ok,
         'an un-notified rebind resets the caches from the changed nodes upward (the reset is given the updates)', f.loc,
         'the reset starts at self: nodes between self and a deeper changed field keep their stale facts')


def rule_l(ctx):
  """The path carried by a FieldUpdate is the real location of the change.  The List
  primitives accept negative positions (as list does); before such a position goes into
  `self.sym_path + index` it is rewritten to the real one - once per raw operation that
  takes a negative index (replace: `index += len(self)`; insert: the clamp list.insert
  applies; delete: `index += len(self)`).  `l.insert(-1, x)` and `del l[-1]` reported the
  path `[-1]`."""
  idx = ctx.index
  for mname, raws in ((S.PRIMITIVE, ('list.__setitem__', 'list.insert')), ('_remove_item_without_permission_check', ('list.__delitem__',))):
    f = idx.lookup_method(S.LIST, mname)
    if f is None:
      raise AnalysisError(f'List.{mname} vanished')
    fus = [c for c in A.calls_in(f.node) if (A.call_name(c) or '').endswith('FieldUpdate') and c.args]
    if not fus:
      raise AnalysisError(f'List.{mname}: no FieldUpdate')
    pvars = {x.id for c in fus for x in ast.walk(c.args[0]) if isinstance(x, ast.Name) and x.id != 'self'}
    norms = 0
    for t in ast.walk(f.node):
      if isinstance(t, ast.If):
        parts = t.test.values if isinstance(t.test, ast.BoolOp) else [t.test]
        for pv in pvars:
          if any(A.unparse(p) == f'{pv} < 0' for p in parts):
            if any(isinstance(x, (ast.Assign, ast.AugAssign)) and pv in A.assigned_names(A.stmt_targets(x)[0])
                   and 'len(self)' in A.unparse(x) for b in t.body for x in ast.walk(b)):
              norms += 1
    present = {r for r in raws if any(c08._raw_of_call(idx, f, c) == r for c in A.calls_in(f.node))}
    if mname != S.PRIMITIVE:
      present = set(raws)
    ctx.ob('C09.l', f'List.{mname}#real-position', norms >= len(present),
           f'a negative position is rewritten to the real one before it is reported ({len(present)} raw operations take one)',
           f.loc, f'{norms} normalisation(s) for {sorted(present)}: l.insert(-1, x) / del l[-1] report the path [-1] instead '
           f'of the position that changed')


def rule_m(ctx):
  """The value spec is an input of the derived facts (sym_missing, sym_nondefault: defaults
  and required keys come from it): a public method of Dict / List that stores a new
  `_value_spec` resets the content caches (or notifies) on every normal path after the
  store.  `use_value_spec(None)` stored None and returned, so `sym_nondefault()` kept
  answering with the defaults of the spec that was dropped."""
  idx = ctx.index
  n = 0
  for cls_fq in (S.DICT, S.LIST):
    c = idx.cls(cls_fq)
    for name, f in sorted(c.methods.items()):
      if name.startswith('_') or name in ('__init__',):
        continue
      g = C.cfg_of(f.node)
      # scope: the spec is DROPPED for good (a None store in the method that exists to change the
      # spec).  Dict.clear parks the spec and re-applies it, custom_apply / the type-check-off
      # branch adopt a spec for a value whose content does not change; those were looked at (they
      # would each need their own argument) and are not armed.
      if name != 'use_value_spec':
        continue
      stores = [k for k in g.nodes if k.kind == 'stmt' and isinstance(k.ast, ast.Assign)
                and any(A.dotted(t) == 'self._value_spec' for t in k.ast.targets)
                and isinstance(k.ast.value, ast.Constant) and k.ast.value.value is None]
      if not stores:
        continue
      fresh = lambda k: k.ast is not None and any(
          (A.call_name(x) or '').split('.')[-1] in ('_sym_reset_content_caches', '_notify_field_updates', 'apply', 'use_value_spec')
          for x in k.calls())
      for st in stores:
        n += 1
        w = g.can_skip(st, fresh)
        ctx.ob('C09.m', f'{c.name}.{name}#spec-dropped', w is None,
               'after a new value spec is stored, the content caches are reset (or the change is notified) on every normal path',
               f'{f.module.relpath}:{st.lineno}', f'a path returns with the caches of the previous spec: {w}')
  if n < 2:
    raise AnalysisError(f'C09.m: only {n} spec-dropping stores found')


def run(ctx):
  ctx.consult(*FILES)
  rule_m(ctx)
  rule_l(ctx)
  from sa.rules import c10 as _c10
  _c10.rule_k(ctx, 'C09.k')   # the path carried by a FieldUpdate addresses the changed node
  rule_a(ctx)
  rule_b(ctx)
  rule_c(ctx)
  rule_d(ctx)
  rule_e(ctx)
  rule_f(ctx)
  rule_g(ctx)
  rule_h(ctx)
  rule_i(ctx)
  rule_j(ctx)
  ctx.assume('handlers of user classes outside the repository are out of scope')
