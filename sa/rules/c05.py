"""C05 — serialization and persistence round trip (DESIGN §3 C05)."""
from __future__ import annotations

import ast

from sa import astutil as A
from sa import cfg as C
from sa import dataflow as D
from sa import surface as S
from sa.rules import c08
from sa.index import AnalysisError

PROP = 'C05'
EXPLANATION = (
    'Writer/reader agreement decided as set comparisons over tables extracted '
    'from the source: (a) keys emitted by to_json_dict vs. constructor '
    'parameters and the omitted-at-default sentinel vs. the parameter default; '
    '(b) `_type` tags written vs. dispatched; (c) the int-key prefix and its '
    'unconditional decoding; (d) the tuple marker domain; (e) pickling '
    'getstate/setstate keys; (f) the in-memory file system (prefix removal, '
    'truncate on write, mode vocabulary); (g) emitted vs. registered type key; '
    '(h) the type registry keeps no lookup memo that registration does not '
    'reset; (i) the JSON text is ASCII-safe for every file encoding.  Value-'
    'level round-trip equality is not decided.')
FLOORS = {'C05.a': 12, 'C05.b': 1, 'C05.c': 1, 'C05.d': 1, 'C05.e': 1,
          'C05.f': 2, 'C05.g': 1, 'C05.h': 1, 'C05.i': 1, 'C05.j': 1, 'C05.k': 1, 'C05.l': 5, 'C05.m': 1, 'C05.n': 1}
FILES = ['pyglove/core/utils/json_conversion.py', 'pyglove/core/symbolic/base.py',
         'pyglove/core/symbolic/object.py', 'pyglove/core/symbolic/dict.py',
         'pyglove/core/symbolic/list.py', 'pyglove/core/typing/value_specs.py',
         'pyglove/core/typing/key_specs.py', 'pyglove/core/typing/class_schema.py',
         'pyglove/core/geno/base.py', 'pyglove/core/io/file_system.py',
         'pyglove/core/io/sequence.py']

JC = 'pyglove.core.utils.json_conversion.'
SB = 'pyglove.core.symbolic.base.'

# (class, key) -> reason the sentinel/default pair legitimately differs
SENTINEL_EXCEPTIONS = {
    ('pyglove.core.typing.key_specs.ListKey', 'min_value'):
        'emitted value 0 != sentinel None is always written; the default 0 is never omitted',
    ('pyglove.core.typing.class_schema.Schema', 'metadata'): 'None normalised by `or {}`',
    ('pyglove.core.typing.class_schema.Field', 'metadata'): 'None normalised by `or {}`',
}


def _sentinel_txt(e):
  t = A.unparse(e)
  return t.split('.')[-1] if 'MISSING_VALUE' in t else t


def _admits_sentinel(annotation, sentinel, init=None, key=None):
  """Is the omitted sentinel an admissible value of the parameter?"""
  if init is not None and key is not None and sentinel == 'None':
    # `if <param> is None: raise` in the constructor: None is never stored
    g = C.cfg_of(init.node)
    for k in g.nodes:
      if k.kind == 'test' and A.unparse(k.ast) == f'{key} is None' and g.always_raises_from(k, 'true'):
        return False
  if annotation is None:
    return True
  a = annotation
  top = A.unparse(a.value) if isinstance(a, ast.Subscript) else A.unparse(a)
  top = top.split('.')[-1]
  txt = A.unparse(a, 400)
  if sentinel == 'None':
    if top == 'Optional' or top == 'Any':
      return True
    if top == 'Union':
      return 'None' in txt
    return False
  if sentinel == 'MISSING_VALUE':
    return top in ('Any', 'Optional', 'Union')
  return True


def _normalised_in_init(init, key, sentinel):
  """`key = key or <sentinel>` style normalisation in the constructor."""
  if init is None:
    return False
  for n in ast.walk(init.node):
    if isinstance(n, ast.BoolOp) and isinstance(n.op, ast.Or) and isinstance(n.values[0], ast.Name) \
        and n.values[0].id == key and A.unparse(n.values[-1]) in (sentinel, sentinel.replace('[]', 'list()'),
                                                                    sentinel.replace('{}', 'dict()')):
      return True
  return False


def rule_a(ctx):
  idx = ctx.index
  n = 0
  for c in idx.all_classes():
    m = c.methods.get('to_json')
    if m is None:
      continue
    calls = [x for x in A.calls_in(m.node) if (A.call_name(x) or '').endswith('to_json_dict')]
    if not calls:
      continue
    call = calls[0]
    fields = A.kwarg(call, 'fields') or (call.args[0] if call.args else None)
    if not (isinstance(fields, ast.Call) and A.call_name(fields) == 'dict'):
      ctx.info('C05.a', c.fq, 'to_json_dict fields are not a literal dict(...): not analysed', m.loc)
      continue
    excl = A.kwarg(call, 'exclude_default')
    exclude_default = isinstance(excl, ast.Constant) and excl.value is True
    # custom from_json in the class itself => reader is hand written
    own_from = idx.lookup_method(c.fq, 'from_json')
    custom_reader = own_from is not None and idx.enclosing_class(own_from).fq not in (
        JC + 'JSONConvertible',)
    reader_defaults = {}
    if custom_reader and A.has_call(own_from.node, lambda d: d == 'super().from_json'):
      # a reader that only pre-fills keys and delegates to the generic one
      for x in A.calls_in(own_from.node):
        if (A.call_name(x) or '').endswith('.setdefault') and len(x.args) == 2 and A.const_str(x.args[0]):
          reader_defaults[A.const_str(x.args[0])] = x.args[1]
      custom_reader = False
    init = idx.lookup_method(c.fq, '__init__')
    if init is None:
      # dataclass-like: fields from annotations
      params = {k: v for k, v in c.class_attrs.items()}
      defaults = {}
      ann = {}
    else:
      defaults = A.params_with_defaults(init.node)
      params = defaults
      ann = {p.arg: p.annotation for p in init.node.args.args + init.node.args.kwonlyargs}
    has_kwargs = init is not None and init.node.args.kwarg is not None
    for kw in fields.keywords:
      key = kw.arg
      if key is None:
        continue
      n += 1
      construct = f'{c.fq}#{key}'
      loc = f'{c.module.relpath}:{kw.value.lineno}'
      if custom_reader:
        rd = own_from
        reads = {s for s in A.str_constants(rd.node)}
        ok = key in reads or A.has_call(rd.node, lambda d: d == 'cls') and rd.node.args.kwarg is not None
        ctx.ob('C05.a', construct, ok,
               f'key `{key}` emitted by to_json is consumed by the class\'s own from_json',
               loc, f'`{key}` is written but the custom from_json never reads it')
        continue
      if key not in params and not has_kwargs:
        ctx.ob('C05.a', construct, False,
               f'key `{key}` emitted by to_json is a constructor parameter', loc,
               f'`{key}` is not a parameter of {c.name}.__init__: from_json(cls(**kwargs)) fails')
        continue
      problems = []
      if exclude_default and isinstance(kw.value, ast.Tuple) and len(kw.value.elts) == 2:
        sentinel = _sentinel_txt(kw.value.elts[1])
        if key in params and _admits_sentinel(ann.get(key), sentinel, init, key):
          d = defaults.get(key)
          if d is None and key in reader_defaults:
            d = reader_defaults[key]
          if (c.fq, key) in SENTINEL_EXCEPTIONS:
            pass
          elif _normalised_in_init(init, key, sentinel):
            pass
          elif init is not None and d is None:
            problems.append(f'`{key}` is omitted when it equals {sentinel} but the constructor '
                            f'parameter has no default: the omitted form cannot be loaded back')
          elif init is not None and _sentinel_txt(d) != sentinel:
            problems.append(f'`{key}` is omitted when it equals {sentinel} but the constructor '
                            f'default is {_sentinel_txt(d)}: the value changes across a round trip')
      ctx.ob('C05.a', construct, not problems,
             f'emitted key `{key}` is accepted by the constructor and, when omitted at its '
             f'sentinel, restored by an equal default', loc, '; '.join(problems))
  if n < 30:
    raise AnalysisError(f'only {n} to_json_dict rows found')


def rule_b(ctx):
  idx = ctx.index
  m = idx.module(JC.rstrip('.'))
  # tags written
  written = {}
  for f in m.funcs.values():
    for d in [x for x in ast.walk(f.node) if isinstance(x, ast.Dict)]:
      for k, v in zip(d.keys, d.values):
        if k is not None and 'TYPE_NAME_KEY' in A.unparse(k) and A.const_str(v):
          written.setdefault(A.const_str(v), []).append((f, d))
  rf = idx.func(JC + 'resolve_typenames.<locals>._resolve_typename')
  dispatched = set()
  def is_tag_read(e):
    return isinstance(e, ast.Subscript) and 'TYPE_NAME_KEY' in A.unparse(e.slice)
  tag_locals = {nm for st in ast.walk(rf.node) if isinstance(st, ast.Assign) and is_tag_read(st.value)
                for nm in A.assigned_names(st.targets[0])}
  for n in ast.walk(rf.node):
    if isinstance(n, ast.Compare) and isinstance(n.ops[0], ast.Eq) and (
        is_tag_read(n.left) or (isinstance(n.left, ast.Name) and n.left.id in tag_locals)):
      s = A.const_str(n.comparators[0])
      if s:
        dispatched.add(s)
  if not written or not dispatched:
    raise AnalysisError('type-tag tables not found')
  for tag in sorted(written):
    ctx.ob('C05.b', f'type-tag:{tag}', tag in dispatched,
           f'the literal `_type` tag {tag!r} written by the serializer is dispatched by the reader',
           written[tag][0][0].loc, f'tag {tag!r} is written but resolve_typenames has no branch for it')
  for tag in sorted(dispatched - set(written)):
    ctx.ob('C05.b', f'type-tag:{tag}', False, 'a dispatched tag is written by some serializer',
           rf.loc, f'tag {tag!r} is dispatched but never written')
  # keys written next to each tag ⊇ keys the reader subscripts
  readers = {'type': '_type_from_json', 'function': '_function_from_json', 'method': '_method_from_json'}
  for tag, rname in readers.items():
    r = m.funcs.get(rname)
    if r is None:
      raise AnalysisError(f'{rname} vanished')
    rkeys = set()
    for n in ast.walk(r.node):
      if isinstance(n, ast.Subscript) and A.unparse(n.value) == 'json_value' and A.const_str(n.slice):
        rkeys.add(A.const_str(n.slice))
    wkeys = set()
    for f, d in written.get(tag, []):
      for k in d.keys:
        if k is not None and A.const_str(k):
          wkeys.add(A.const_str(k))
      # keys added later: json_dict['x'] = ...
      for n in ast.walk(f.node):
        if isinstance(n, ast.Subscript) and isinstance(n.ctx, ast.Store) and A.const_str(n.slice):
          wkeys.add(A.const_str(n.slice))
    # required keys = subscripted (not .get) by the reader
    miss = rkeys - wkeys
    ctx.ob('C05.b', f'type-tag:{tag}#keys', not miss,
           f'every key the {tag!r} reader subscripts is written by the {tag!r} writer', r.loc,
           f'reader requires {sorted(miss)} which no writer emits')


def rule_c(ctx):
  idx = ctx.index
  enc = idx.func(SB + 'to_json_str.<locals>._encode_int_keys')
  dec = idx.func(SB + 'from_json_str.<locals>._get_key')
  prefixes_w = set()
  for n in ast.walk(enc.node):
    if isinstance(n, ast.JoinedStr) and n.values and isinstance(n.values[0], ast.Constant):
      prefixes_w.add(n.values[0].value)
  g = C.cfg_of(dec.node)
  tests = [k for k in g.nodes if k.kind == 'test' and '.startswith(' in A.unparse(k.ast)]
  problems = []
  if len(prefixes_w) != 1:
    problems.append(f'writer prefixes: {sorted(prefixes_w)}')
  if not tests:
    problems.append('reader has no startswith test')
  else:
    t = tests[0]
    call = [c for c in A.calls_in(t.ast) if (A.call_name(c) or '').endswith('.startswith')][0]
    pr = A.const_str(call.args[0]) if call.args else None
    if pr not in prefixes_w:
      problems.append(f'reader tests prefix {pr!r}, writer emits {sorted(prefixes_w)}')
    # true edge goes straight to `return int(k[len(prefix):])`
    for m2, lab in t.succ:
      if lab == 'true':
        if m2.kind != 'return':
          problems.append('a further condition stands between the prefix test and the int() '
                          'conversion: some encoded int keys (e.g. negative ones) come back as strings')
        else:
          v = m2.ast.value
          ok = (isinstance(v, ast.Call) and A.call_name(v) == 'int' and v.args
                and isinstance(v.args[0], ast.Subscript) and isinstance(v.args[0].slice, ast.Slice)
                and isinstance(v.args[0].slice.lower, ast.Constant)
                and pr is not None and v.args[0].slice.lower.value == len(pr)
                and v.args[0].slice.upper is None)
          if not ok:
            problems.append(f'decoded value is `{A.unparse(v)}`, not int(k[{len(pr) if pr else "?"}:])')
  ctx.ob('C05.c', dec.fq, not problems,
         'every key carrying the int-key prefix is decoded with int(k[len(prefix):]) unconditionally',
         dec.loc, '; '.join(problems))
  # writer: condition is exactly isinstance(k, int)
  conds = []
  ok_w = False
  for dc in [n for n in ast.walk(enc.node) if isinstance(n, ast.DictComp)]:
    tv = A.assigned_names(dc.generators[0].target)
    if isinstance(dc.key, ast.IfExp) and tv:
      K = tv[0]
      t = dc.key.test
      conds.append(A.unparse(t))
      ok_w = (isinstance(t, ast.Call) and A.call_name(t) == 'isinstance' and len(t.args) == 2
              and A.unparse(t.args[0]) == K and A.unparse(t.args[1]) == 'int'
              and isinstance(dc.key.body, ast.JoinedStr) and A.unparse(dc.key.orelse) == K
              and any(isinstance(v, ast.FormattedValue) and A.unparse(v.value) == K for v in dc.key.body.values))
  ctx.ob('C05.c', enc.fq, ok_w and len(conds) == 1,
         'every int key (and only int keys) is prefixed by the writer', enc.loc,
         f'writer condition(s): {conds}')
  # both recurse into dicts and lists
  for f in (enc, idx.func(SB + 'from_json_str.<locals>._decode_int_keys')):
    prm = A.param_names(f.node)[0]
    kinds = {A.unparse(c.args[1]) for c in A.calls_in(f.node) if A.call_name(c) == 'isinstance' and len(c.args) == 2
             and A.unparse(c.args[0]) == prm}
    rec = [c for c in A.calls_in(f.node) if A.call_name(c) == f.node.name]
    ok = {'dict', 'list'} <= kinds and len(rec) >= 2
    ctx.ob('C05.c', f.fq + '#recursion', ok, 'the key transform recurses through dicts and lists',
           f.loc, 'recursion over dict/list values changed')


def rule_d(ctx):
  idx = ctx.index
  # writers: [TUPLE_MARKER] + list(v) for any length
  for q in (JC + 'from_json', SB + 'from_json'):
    f = idx.func(q)
    g = C.cfg_of(f.node)
    marker_tests = [k for k in g.nodes if k.kind == 'test' and 'TUPLE_MARKER' in A.unparse(k.ast)]
    if not marker_tests:
      raise AnalysisError(f'{q}: tuple-marker branch vanished')
    bad = None
    for k in g.nodes:
      if k.kind != 'test':
        continue
      for left, op, right in A.compare_parts(k.ast):
        if A.unparse(left).startswith('len(') and isinstance(op, ast.Lt) and isinstance(right, ast.Constant) \
            and isinstance(right.value, int) and g.always_raises_from(k, 'true'):
          # only under the marker branch
          seen, _ = g.reach(marker_tests[0], follow_exc=False)
          if k.id in seen and right.value > 1:
            bad = (k.lineno, right.value)
    ctx.ob('C05.d', q + '#tuple-length', bad is None,
           'the reader accepts every length the tuple writer can produce (n >= 0: marker + n items)',
           f.loc, '' if bad is None else
           f'`len(...) < {bad[1]}` raises at line {bad[0]}: the empty tuple () is written as '
           f'[marker] but cannot be read back')
  w = idx.func(JC + 'to_json')
  ok = any(isinstance(n, ast.BinOp) and isinstance(n.op, ast.Add) and 'TUPLE_MARKER' in A.unparse(n.left)
           for n in ast.walk(w.node))
  ctx.ob('C05.d', w.fq + '#tuple-writer', ok, 'tuples are written as [marker] + items', w.loc,
         'tuple writer changed shape')


def rule_e(ctx):
  idx = ctx.index
  for cls in ('pyglove.core.symbolic.list.List', 'pyglove.core.symbolic.dict.Dict',
              'pyglove.core.symbolic.object.Object'):
    gs = idx.lookup_method(cls, '__getstate__')
    ss = idx.lookup_method(cls, '__setstate__')
    if gs is None or ss is None:
      raise AnalysisError(f'{cls} pickling pair vanished')
    wk = set()
    for c in A.calls_in(gs.node):
      if A.call_name(c) == 'dict':
        wk |= {k.arg for k in c.keywords if k.arg}
    rk = {A.const_str(n.slice) for n in ast.walk(ss.node) if isinstance(n, ast.Subscript)
          and A.unparse(n.value) == 'state' and A.const_str(n.slice)}
    ctx.ob('C05.e', cls + '#pickle-keys', wk == rk and bool(wk),
           '__getstate__ keys == keys subscripted by __setstate__', gs.loc,
           f'written {sorted(wk)} vs read {sorted(rk)}')


def rule_f(ctx):
  idx = ctx.index
  FS = 'pyglove.core.io.file_system.'
  # (i) no str.strip-family with a multi-character argument for prefix removal
  m = idx.module(FS.rstrip('.'))
  n_sites = 0
  for f in m.funcs.values():
    for c in A.calls_in(f.node):
      d = A.call_name(c) or (c.func.attr if isinstance(c.func, ast.Attribute) else '')
      if d.split('.')[-1] in ('lstrip', 'rstrip', 'strip') and c.args:
        arg = c.args[0]
        multi = not (isinstance(arg, ast.Constant) and isinstance(arg.value, str) and len(arg.value) <= 1)
        n_sites += 1
        ctx.ob('C05.f', f'{f.fq}#{d.split(".")[-1]}({A.unparse(arg)})', not multi,
               'prefix/suffix removal does not use str.strip-family with a multi-character '
               '(character-set) argument', f'{m.relpath}:{c.lineno}',
               f'`{A.unparse(c)}` strips any of the CHARACTERS of the prefix, not the prefix: '
               f"'/mem/m.json' loses its leading 'm' too")
  # (iii) 'w' on an existing file replaces/truncates the buffer
  f = idx.func(FS + 'MemoryFileSystem.open')
  g = C.cfg_of(f.node)
  wtests = [k for k in g.nodes if k.kind == 'test' and A.unparse(k.ast) == "'w' in mode"]
  fresh = {k.id for k in g.nodes if k.ast is not None and k.kind == 'stmt' and (
      'BytesIO' in A.unparse(k.ast, 200) or 'StringIO' in A.unparse(k.ast, 200)
      or 'truncate' in A.unparse(k.ast, 200) or 'MemoryFile(' in A.unparse(k.ast, 200))}
  bad = None
  # paths on which `'w' in mode` was evaluated False carry no obligation; every
  # other path to a normal return must create or truncate the buffer
  blocked_edges = {(w.id, m2.id, lab) for w in wtests for m2, lab in w.succ if lab == 'false'}
  seen, parent = g.reach(g.entry, blocked_nodes=fresh, blocked_edges=blocked_edges, follow_exc=False)
  rets = [k for k in g.nodes if k.kind == 'return' and k.id in seen]
  if rets:
    bad = g.witness_str(parent, rets[0])
  if not wtests:
    raise AnalysisError("MemoryFileSystem.open: `'w' in mode` test vanished")
  ctx.ob('C05.f', f.fq + "#truncate-on-w", bad is None,
         "opening an existing file with 'w' returns a fresh or truncated buffer", f.loc,
         f"a path with 'w' in mode returns the old buffer untouched: a shorter rewrite leaves "
         f"stale bytes ({bad})", bad)
  # (iv) mode vocabulary: letters tested by callers ⊆ letters open distinguishes
  letters_open = {A.const_str(n.left) for n in ast.walk(f.node) if isinstance(n, ast.Compare)
                  and isinstance(n.ops[0], ast.In) and A.unparse(n.comparators[0]) == 'mode' and A.const_str(n.left)}
  used = set()
  for mod in (m, idx.module('pyglove.core.io.sequence'), idx.module('pyglove.core.symbolic.base')):
    for fn in mod.funcs.values():
      for c in A.calls_in(fn.node):
        md = A.kwarg(c, 'mode')
        if md is not None and A.const_str(md):
          used |= set(A.const_str(md))
        if (A.call_name(c) or '').split('.')[-1] in ('open', 'open_sequence', 'open_jsonl') and len(c.args) >= 2 \
            and A.const_str(c.args[1]) and len(A.const_str(c.args[1])) <= 3:
          used |= set(A.const_str(c.args[1]))
      for n in ast.walk(fn.node):
        if isinstance(n, ast.Compare) and isinstance(n.ops[0], ast.In) and A.unparse(n.comparators[0]) == 'mode' \
            and A.const_str(n.left):
          used.add(A.const_str(n.left))
  used &= set('rwab')
  miss = used - letters_open - {'r'}
  ctx.ob('C05.f', f.fq + '#mode-vocabulary', not miss,
         'every file-mode letter used inside the library is distinguished by the in-memory open',
         f.loc, f'mode letter(s) {sorted(miss)} are used by callers but not distinguished: '
         f"append on /mem overwrites from offset 0 (or fails when the file is missing)")
  # (ii) key written by open == key looked up by _locate: both via _internal_path
  loc_f = idx.func(FS + 'MemoryFileSystem._locate')
  pn = idx.func(FS + 'MemoryFileSystem._parent_and_name')
  ok = A.has_call(loc_f.node, lambda d: d == 'self._internal_path') and (
      A.has_call(pn.node, lambda d: d in ('self._internal_path', 'self._locate')))
  ctx.ob('C05.f', FS + 'MemoryFileSystem#path-normalisation', ok,
         'lookup and creation normalise the path through the same helper', loc_f.loc,
         '_locate / _parent_and_name no longer share _internal_path')
  if n_sites < 1:
    ctx.note('C05.f(i): no strip-family call sites left in io/file_system.py')


def rule_f2(ctx):
  """The /mem prefix is removed exactly once on every route: a path that
  already went through the normaliser is never handed to a method that
  normalises its argument again ('/mem/mem/x' would lose both components)."""
  idx = ctx.index
  c = idx.find_class('pyglove.core.io.file_system.MemoryFileSystem')
  if c is None:
    raise AnalysisError('MemoryFileSystem vanished')
  norm = '_internal_path'
  # methods that normalise (one of) their parameters themselves
  normalising = {}
  for m in c.methods.values():
    ps = [p for p in A.param_names(m.node) if p != 'self']
    for call in A.calls_in(m.node):
      if A.call_name(call) == f'self.{norm}' and call.args and isinstance(call.args[0], ast.Name) and call.args[0].id in ps:
        normalising.setdefault(m.name, set()).add(ps.index(call.args[0].id))
  if not normalising:
    raise AnalysisError('no method of MemoryFileSystem normalises its path')
  bad = []
  n = 0
  for m in c.methods.values():
    # locals holding an already normalised path (or a piece of one)
    normed = set()
    changed = True
    while changed:
      changed = False
      for x in ast.walk(m.node):
        if isinstance(x, ast.Assign):
          v = x.value
          if A.has_call(v, lambda d: d == f'self.{norm}') or (A.names_read(v) & normed):
            for t in x.targets:
              for nm in A.assigned_names(t):
                if nm not in normed:
                  normed.add(nm)
                  changed = True
    for call in A.calls_in(m.node):
      d = A.call_name(call) or ''
      if d.startswith('self.') and d.split('.')[1] in normalising:
        n += 1
        for i in normalising[d.split('.')[1]]:
          if i < len(call.args) and (A.names_read(call.args[i]) & normed or
                                     A.has_call(call.args[i], lambda dd: dd == f'self.{norm}')):
            bad.append(f'{m.name}: `{A.unparse(call, 60)}` passes an already normalised path (line {call.lineno})')
  ctx.ob('C05.f', c.fq + '#prefix-once', not bad,
         'the file-system prefix is stripped exactly once per path (no normalised path is normalised again)',
         c.loc, '; '.join(bad) + " - '/mem/mem/f' is then looked up or created as '/f'")


def rule_g(ctx):
  idx = ctx.index
  m = idx.module(JC.rstrip('.'))
  tj = idx.func(JC + 'JSONConvertible.to_json_dict')
  ok1 = any(isinstance(d, ast.Dict) and any('TYPE_NAME_KEY' in A.unparse(k) for k in d.keys if k is not None)
            and any(A.unparse(v) == '_serialization_key(cls)' for v in d.values) for d in ast.walk(tj.node)
            if isinstance(d, ast.Dict))
  isub = idx.func(JC + 'JSONConvertible.__init_subclass__')
  reg = [c for c in A.calls_in(isub.node) if (A.call_name(c) or '').endswith('register')]
  ok2 = False
  for c in reg:
    if c.args and isinstance(c.args[0], ast.Name):
      ok2 = any(v is not None and A.unparse(v) == '_serialization_key(cls)'
                for _, v in D.defs_of(isub.node, c.args[0].id))
  ctx.ob('C05.g', tj.fq, ok1 and ok2,
         'the `_type` value written by to_json_dict is the key the class is registered under '
         '(_serialization_key(cls) on both sides)', tj.loc, 'emitted and registered keys differ')
  for q in ('pyglove.core.symbolic.object.Object.sym_jsonify', 'pyglove.core.geno.base.DNA.sym_jsonify'):
    f = idx.func(q)
    ok = any(isinstance(d, ast.Dict) and any('TYPE_NAME_KEY' in A.unparse(k) for k in d.keys if k is not None)
             and any('__serialization_key__' in A.unparse(v) for v in d.values) for d in ast.walk(f.node)
             if isinstance(d, ast.Dict))
    ctx.ob('C05.g', q, ok, 'sym_jsonify writes the class\'s __serialization_key__ under `_type`',
           f.loc, '`_type` value is no longer __serialization_key__')
  om = idx.func('pyglove.core.symbolic.object.ObjectMeta.register_for_deserialization')
  ok = '__serialization_key__' in A.unparse(om.node, 4000) and A.has_call(om.node, lambda d: d.endswith('register'))
  ctx.ob('C05.g', om.fq, ok, 'Object classes are registered under __serialization_key__', om.loc,
         'registration key changed')


def rule_h(ctx):
  idx = ctx.index
  c = idx.cls(JC + '_TypeRegistry')
  writes = {}
  for mth in c.methods.values():
    for n in ast.walk(mth.node):
      tgt = None
      if isinstance(n, (ast.Assign, ast.AugAssign)):
        for t in A.stmt_targets(n):
          b = t
          while isinstance(b, ast.Subscript):
            b = b.value
          d = A.dotted(b)
          if d and d.startswith('self._'):
            writes.setdefault(d.split('.')[1], set()).add(mth.name)
      elif isinstance(n, ast.Call):
        d = A.call_name(n) or ''
        p = d.split('.')
        if len(p) == 3 and p[0] == 'self' and p[2] in ('append', 'pop', 'update', 'clear', 'setdefault', 'add'):
          writes.setdefault(p[1], set()).add(mth.name)
  lookups = ('class_from_typename', 'is_registered', 'iteritems')
  for mname in lookups:
    mth = c.methods.get(mname)
    if mth is None:
      raise AnalysisError(f'_TypeRegistry.{mname} vanished')
    mine = sorted(f for f, ms in writes.items() if mname in ms)
    stale = [f for f in mine if 'register' not in writes[f]]
    ctx.ob('C05.h', f'{c.fq}.{mname}', not stale,
           'a registry lookup keeps no state that `register` does not reset (a re-registered '
           'class must be what the next lookup returns)', mth.loc,
           f'lookup writes {stale} which register() never invalidates: a class re-defined under '
           f'the same name keeps resolving to the stale class')
  reg = c.methods.get('register')
  ok = reg is not None and '_type_to_cls_map' in writes and 'register' in writes['_type_to_cls_map']
  ctx.ob('C05.h', f'{c.fq}.register', ok, 'register stores into the table the lookup reads',
         reg.loc if reg else c.loc, 'register no longer writes _type_to_cls_map')


def rule_i(ctx):
  idx = ctx.index
  f = idx.func(SB + 'to_json_str')
  dumps = [c for c in A.calls_in(f.node) if A.call_name(c) == 'json.dumps']
  if not dumps:
    raise AnalysisError('to_json_str no longer calls json.dumps')
  problems = []
  for c in dumps:
    ea = A.kwarg(c, 'ensure_ascii')
    if ea is not None and not (isinstance(ea, ast.Constant) and ea.value is True):
      problems.append('ensure_ascii is disabled: non-ASCII text (e.g. lone surrogates) reaches '
                      'file writes that use the platform encoding and fails after truncation')
    extra = {k.arg for k in c.keywords} - {'indent', 'ensure_ascii', 'sort_keys'}
    if extra:
      problems.append(f'unexpected json.dumps options {sorted(extra)}')
  ctx.ob('C05.i', f.fq, not problems,
         'the JSON text handed to save/record writers is ASCII-only (json.dumps default), '
         'so it is writable under every file encoding', f.loc, '; '.join(problems))


def rule_k(ctx):
  """The Dict serializer drops a key only for the documented reasons: excluded
  by the caller, frozen (a class constant), holding the MISSING marker, or -
  with hide_default_values - equal to the field's default.  Any other way round
  the store loses data that the reader cannot reconstruct."""
  idx = ctx.index
  f = idx.lookup_method(S.DICT, 'sym_jsonify')
  g = C.cfg_of(f.node)
  stores = [k for k in g.nodes if k.kind == 'stmt' and isinstance(k.ast, ast.Assign)
            and isinstance(k.ast.targets[0], ast.Subscript) and A.has_call(k.ast.value, lambda d: d.endswith('to_json'))]
  if not stores:
    # two-step form: v = to_json(...); json_repr[key] = v
    tj = {nm for k in g.nodes if k.kind == 'stmt' and isinstance(k.ast, ast.Assign)
          and A.has_call(k.ast.value, lambda d: d.endswith('to_json')) for nm in A.assigned_names(k.ast.targets[0])}
    stores = [k for k in g.nodes if k.kind == 'stmt' and isinstance(k.ast, ast.Assign)
              and isinstance(k.ast.targets[0], ast.Subscript) and isinstance(k.ast.value, ast.Name) and k.ast.value.id in tj]
  if not stores:
    raise AnalysisError('Dict.sym_jsonify: the per-key store was not found')
  st = stores[0]
  # innermost loop containing the store
  loops = [k for k in g.nodes if k.kind == 'iter' and any(x is st.ast for x in ast.walk(k.ast))]
  loop = loops[-1]
  def allowed_skip_edge(t):
    txt = A.unparse(t.ast, 200)
    if 'exclude_keys' in txt:
      return 'false' if ' not in ' in txt else 'true'
    if c08.is_missing_cmp(t.ast):
      return 'true'
    if txt.endswith('.frozen'):
      return 'true'
    if isinstance(t.ast, ast.Call) and (A.call_name(t.ast) or '').split('.')[-1] == 'eq' and 'default' in txt:
      return 'true'
    return None
  blocked = set()
  for t in g.nodes:
    if t.kind == 'test':
      lab = allowed_skip_edge(t)
      if lab:
        blocked |= {(t.id, m.id, l) for m, l in t.succ if l == lab}
  body_entries = [m for m, lab in loop.succ if lab in ('body', 'true', 'next')]
  bad = None
  for m in body_entries:
    seen, parent = g.reach(m, blocked_nodes={st.id}, blocked_edges=blocked, follow_exc=False)
    seen.add(m.id)
    if loop.id in seen or any(h.id in seen for h in g.nodes if h.kind == 'loophead' and h.ast is loop.ast):
      bad = g.witness_str(parent, loop) if loop.id in seen else ['(back to the loop head)']
  ctx.ob('C05.k', f.fq, bad is None,
         'a key of a schema-backed Dict is omitted from the JSON only when excluded, frozen, missing, or (with '
         'hide_default_values) equal to its default', f.loc,
         f'another path goes round the store: {bad}: the omitted value cannot be reconstructed when loading')
  # non-schema branch: the comprehension filters on exclude_keys only
  comps = [n for n in ast.walk(f.node) if isinstance(n, ast.DictComp)]
  ok = True
  why = ''
  for c in comps:
    for gen in c.generators:
      for cond in gen.ifs:
        if 'exclude_keys' not in A.unparse(cond):
          ok, why = False, f'items are filtered by `{A.unparse(cond)}`'
  ctx.ob('C05.k', f.fq + '#untyped', ok, 'an untyped Dict serializes every item except the excluded keys', f.loc, why)


CONSUMING = ('pop', 'popitem', 'clear', 'update', 'setdefault', 'remove', 'append', 'extend', 'insert', 'sort', 'reverse')
COPIERS_L = ('dict', 'list', 'copy.copy', 'copy.deepcopy')


def rule_l(ctx):
  """Loading does not consume what it loads from: a `from_json` never removes
  or rewrites entries of the JSON value it was handed (only of a copy), so the
  same in-memory JSON value can be loaded again with the same result."""
  idx = ctx.index
  n = 0
  for f in idx.all_funcs():
    if f.name != 'from_json' or '<locals>' in f.qualname:
      continue
    ps = A.param_names(f.node)
    jp = [p for p in ps if p in ('json_value', 'json_dict', 'value', 'json')]
    if not jp:
      continue
    g = C.cfg_of(f.node)
    n += 1
    bad = []
    for k in g.nodes:
      if k.ast is None:
        continue
      muts = []
      for c in k.calls():
        if isinstance(c.func, ast.Attribute) and c.func.attr in CONSUMING and isinstance(c.func.value, ast.Name) \
            and c.func.value.id in jp:
          muts.append((c.func.value.id, A.unparse(c, 60)))
      if k.kind == 'stmt' and isinstance(k.ast, (ast.Assign, ast.AugAssign, ast.Delete)):
        tg = k.ast.targets if not isinstance(k.ast, ast.AugAssign) else [k.ast.target]
        for t in tg:
          if isinstance(t, ast.Subscript) and isinstance(t.value, ast.Name) and t.value.id in jp:
            muts.append((t.value.id, A.unparse(k.ast, 60)))
      for nm, txt in muts:
        # still the caller's object here?  (no re-binding to a copy reaches this point)
        for dn, val in D.reaching_defs(g, k, nm):
          if val is None:
            bad.append(f'`{txt}` (line {k.lineno})')
            break
          copied = isinstance(val, ast.Call) and ((A.call_name(val) or '') in COPIERS_L or (A.call_name(val) or '').endswith('.copy'))
          if not copied and nm in A.names_read(val):
            bad.append(f'`{txt}` (line {k.lineno})')
            break
    ctx.ob('C05.l', f.fq, not bad,
           'from_json does not modify the JSON value it is given (it works on a copy when it needs to remove keys)',
           f.loc, 'the caller\'s JSON value is consumed: ' + ', '.join(bad) +
           ' - loading the same value again gives a different result (a plain dict instead of the object)')
  if n < 5:
    raise AnalysisError(f'only {n} from_json functions found')


STRIP_FAMILY = ('strip', 'rstrip', 'lstrip', 'removesuffix', 'removeprefix', 'splitlines', 'split')


def _line_class(idx, f, expr, depth=4):
  """'raw' = exactly what readline() returned; 'stripped' = readline() result
  with characters removed; None = unrelated.  Followed through locals and the
  returns of private helpers (one level per step)."""
  if depth <= 0 or expr is None:
    return None
  if isinstance(expr, ast.Call):
    if isinstance(expr.func, ast.Attribute) and expr.func.attr == 'readline':
      return 'raw'
    if isinstance(expr.func, ast.Attribute) and expr.func.attr in STRIP_FAMILY:
      inner = _line_class(idx, f, expr.func.value, depth)
      return 'stripped' if inner else None
    d = A.call_name(expr) or ''
    if d.startswith('self.') and d.count('.') == 1:
      cls = idx.enclosing_class(f)
      h = idx.lookup_method(cls.fq, d.split('.')[1]) if cls is not None else None
      if h is not None:
        cs = {_line_class(idx, h, r.value, depth - 1) for r in ast.walk(h.node)
              if isinstance(r, ast.Return) and r.value is not None}
        if 'stripped' in cs:
          return 'stripped'
        if 'raw' in cs:
          return 'raw'
    if d in ('len', 'bool') and expr.args:
      return _line_class(idx, f, expr.args[0], depth)
    return None
  if isinstance(expr, ast.Name):
    cs = {_line_class(idx, f, v, depth - 1) for _, v in D.defs_of(f.node, expr.id) if v is not None}
    if 'stripped' in cs:
      return 'stripped'
    if 'raw' in cs:
      return 'raw'
    return None
  if isinstance(expr, ast.NamedExpr):
    return _line_class(idx, f, expr.value, depth)
  if isinstance(expr, (ast.UnaryOp,)):
    return _line_class(idx, f, expr.operand, depth)
  if isinstance(expr, ast.Compare):
    for e in [expr.left] + list(expr.comparators):
      c = _line_class(idx, f, e, depth)
      if c:
        return c
  return None


def rule_j(ctx):
  """Record framing of the line sequence: the writer terminates every record
  with one newline after removing trailing newlines; the reader removes that
  newline from what it yields, and recognises end-of-file on the RAW result of
  readline() (an empty record is the line '\\n', not the empty string)."""
  idx = ctx.index
  ctx.consult('pyglove/core/io/sequence.py')
  f = idx.func('pyglove.core.io.sequence.LineSequence._iter')
  g = C.cfg_of(f.node)
  problems = []
  if 'readline' not in S.closure_text(idx, f):
    raise AnalysisError('LineSequence._iter no longer uses readline()')
  classes = [(k, _line_class(idx, f, k.ast)) for k in g.nodes if k.kind == 'test']
  eof = [(k, c) for k, c in classes if c]
  if not eof:
    problems.append('no end-of-file test on what readline() returned')
  for k, c in eof:
    if c == 'stripped':
      problems.append(f'end of file is tested on a stripped line (`{A.unparse(k.ast, 60)}`, line {k.lineno}), not on the raw '
                      f'readline() result: an empty record (the line "\\n") is taken for the end of the file and '
                      f'everything after it is lost')
  ys = [n for n in ast.walk(f.node) if isinstance(n, ast.Yield) and n.value is not None]
  if not ys or not all(_line_class(idx, f, y.value) == 'stripped' for y in ys):
    problems.append("the reader no longer removes the record terminator '\\n' from what it yields")
  ctx.ob('C05.j', f.fq, not problems,
         'the line reader detects end-of-file on the raw readline() result and strips exactly the terminator',
         f.loc, '; '.join(problems))
  f = idx.func('pyglove.core.io.sequence.LineSequence._add')
  writes = [A.unparse(c.args[0]) for c in A.calls_in(f.node) if (A.call_name(c) or '').endswith('.write') and c.args]
  ok = len(writes) == 2 and writes[1] == "'\\n'" and "rstrip('\\n')" in writes[0] or (
      len(writes) == 1 and "rstrip('\\n')" in writes[0] and "'\\n'" in writes[0])
  ctx.ob('C05.j', f.fq, ok, "the line writer terminates every record with exactly one '\\n'", f.loc,
         f'writes {writes}')


def rule_m(ctx):
  """A raw line-sequence record is one line.  The reader splits on the record
  separator, so the writer must refuse (or escape) a record that contains it;
  otherwise one appended record comes back as several."""
  idx = ctx.index
  f = idx.func('pyglove.core.io.sequence.LineSequence._add')
  rd = idx.func('pyglove.core.io.sequence.LineSequence._iter')
  g = C.cfg_of(f.node)
  rec = [p for p in A.param_names(f.node) if p != 'self'][0]
  reads_lines = any(isinstance(c.func, ast.Attribute) and c.func.attr in ('readline', 'readlines', 'splitlines')
                    for c in A.calls_in(rd.node)) or any(isinstance(n, ast.For) for n in ast.walk(rd.node))
  guards = [k for k in g.nodes if k.kind == 'test' and isinstance(k.ast, ast.Compare) and len(k.ast.ops) == 1
            and isinstance(k.ast.ops[0], ast.In) and A.const_str(k.ast.left) == '\n' and g.always_raises_from(k, 'true')]
  escapes = any(isinstance(c.func, ast.Attribute) and c.func.attr in ('replace', 'encode', 'translate') and c.args
                and A.const_str(c.args[0]) == '\n' for c in A.calls_in(f.node))
  ctx.ob('C05.m', f.fq + '#separator', (not reads_lines) or bool(guards) or escapes,
         'the raw line-sequence writer refuses or escapes a record that contains the record separator the reader splits on',
         f.loc, "a record with an embedded '\\n' is written as is and read back as several records")


def rule_n(ctx):
  """`_typename_resolved=True` tells from_json that the `_type` names of the
  whole value were already turned into factories.  Only code that has resolved
  them may say so: a function that itself calls resolve_typenames (when the
  flag it received is off), or a factory that resolve_typenames hands the value
  to.  A class-method entry point (List.from_json, Dict.from_json ...) is
  reachable with raw JSON and must leave the decision to from_json."""
  idx = ctx.index
  rt = idx.func(JC + 'resolve_typenames')
  factory_names = {n.id for n in ast.walk(rt.node) if isinstance(n, ast.Name)}
  bad = []
  n = 0
  for rel in FILES:
    m = idx.by_relpath.get(rel)
    if m is None:
      continue
    for f in m.funcs.values():
      top = f
      while top.parent is not None:
        top = top.parent
      for c in A.calls_in(f.node):
        for kw in c.keywords:
          if kw.arg == '_typename_resolved' and A.unparse(kw.value) == 'True':
            if any(c is x for x in ast.walk(f.node) if isinstance(x, ast.Call)) and any(
                isinstance(y, (ast.FunctionDef, ast.Lambda)) and y is not f.node and any(c is z for z in ast.walk(y))
                for y in ast.walk(f.node)):
              continue     # reported at the nested function itself
            n += 1
            resolves = any((A.call_name(x) or '').split('.')[-1] == 'resolve_typenames' for x in A.calls_in(top.node))
            if not (resolves or top.name in factory_names):
              bad.append(f'{f.qualname}:{c.lineno}')
  ctx.ob('C05.n', 'typename-resolved-claims', n >= 4 and not bad,
         'only code that resolved the type names (or a factory called by the resolver) passes _typename_resolved=True',
         JC.rstrip('.').replace('.', '/') + '.py:1',
         '; '.join(bad) + ': this entry point can be reached with raw JSON, whose `_type` strings are then called as '
         'if they were factories' if bad else f'only {n} claims found')


def rule_o(ctx):
  """Saving works for every path the file system accepts - a bare file name included:
  `os.path.dirname('x.json')` is '' and `makedirs('')` raises FileNotFoundError, so a
  directory derived with os.path.dirname is created only under a test that it is not
  empty."""
  idx = ctx.index
  n = 0
  for f in idx.all_funcs():
    if f.module.relpath.endswith('_test.py') or not f.module.name.startswith('pyglove.core.'):
      continue
    g = None
    for c in A.calls_in(f.node):
      if (A.call_name(c) or '').split('.')[-1] not in ('mkdirs', 'makedirs') or not c.args:
        continue
      a = c.args[0]
      direct = isinstance(a, ast.Call) and (A.call_name(a) or '').endswith('path.dirname')
      via = None
      if isinstance(a, ast.Name):
        defs = [v for _, v in D.defs_of(f.node, a.id) if v is not None]
        if defs and all(isinstance(v, ast.Call) and (A.call_name(v) or '').endswith('path.dirname') for v in defs):
          via = a.id
      if not direct and via is None:
        continue
      n += 1
      ok = False
      if via is not None:
        g = g or C.cfg_of(f.node)
        node = [k for k in g.nodes if k.ast is not None and any(x is c for x in k.calls())]
        tests = [t for t in g.nodes if t.kind == 'test' and via in A.names_read(t.ast)]
        if node and tests:
          blocked = {(t.id, m.id, l) for t in tests for m, l in t.succ if l == 'true'}
          seen, _ = g.reach(g.entry, blocked_edges=blocked, follow_exc=False)
          ok = node[0].id not in seen
      ctx.ob('C05.o', f'{f.qualname}#mkdirs-of-dirname', ok,
             'the directory part of the target path is created only when there is one', f'{f.module.relpath}:{c.lineno}',
             f'`{A.unparse(c, 60)}`: pg.save(value, \'x.json\') in the current directory raises FileNotFoundError (makedirs(\'\'))')
  if n < 1:
    ctx.ob('C05.o', 'save#mkdirs', True, 'no directory is created from os.path.dirname', 'pyglove/core/symbolic/base.py:1')


def run(ctx):
  ctx.consult(*FILES, 'pyglove/core/io/sequence.py')
  rule_o(ctx)
  rule_a(ctx)
  rule_b(ctx)
  rule_c(ctx)
  rule_d(ctx)
  rule_e(ctx)
  rule_f(ctx)
  rule_f2(ctx)
  rule_g(ctx)
  rule_h(ctx)
  rule_i(ctx)
  rule_j(ctx)
  rule_k(ctx)
  rule_l(ctx)
  rule_m(ctx)
  rule_n(ctx)
  ctx.assume('injectivity of the encoding over the value space and pg.eq after a round trip are not decided')
