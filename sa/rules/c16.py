"""C16 — concurrent sampling (DESIGN §3 C16)."""
from __future__ import annotations

import ast

from sa import astutil as A
from sa import cfg as C
from sa import dataflow as D
from sa import surface as S
from sa.index import AnalysisError

PROP = 'C16'
EXPLANATION = (
    'Lockset and atomicity analysis of the in-memory backend and of the '
    'evolution algorithm: (a) every write of a shared field happens inside '
    '`with self._lock` (lexically, or in a private helper all of whose call '
    'sites are inside the lock), and budget test, id allocation, proposal and '
    'append of a new trial share ONE locked region; (b) check-then-act: a read '
    'of shared state that decides a write of the same state is in the same '
    'lock region as the write; (c) status guards exist; (d) read-modify-write '
    'of generator counters is under a lock on every path from a worker entry '
    'point.  Necessary conditions for exactly-once; schedules are not explored.')
FLOORS = {'C16.g': 4, 'C16.r': 3, 'C16.a': 6, 'C16.b': 2, 'C16.c': 1, 'C16.d': 1, 'C16.e': 2, 'C16.z': 2, 'C16.f': 1}
FILES = ['pyglove/core/tuning/local_backend.py', 'pyglove/core/tuning/sample.py',
         'pyglove/core/tuning/protocols.py', 'pyglove/core/tuning/backend.py',
         'pyglove/core/geno/dna_generator.py', 'pyglove/ext/evolution/base.py']

LB = 'pyglove.core.tuning.local_backend.'
EVO = 'pyglove.ext.evolution.base.Evolution'
MUT_METHODS = {'append', 'extend', 'pop', 'popleft', 'appendleft', 'remove', 'clear', 'update',
               'insert', 'add', 'discard', 'setdefault', 'sort'}
SETUP_METHODS = {'__init__', '_on_bound', 'setup', '_setup', 'recover', '_replay', '__setstate__'}

SINGLE_STORE_EXEMPT = {
    LB + '_InMemoryResult': {'_is_active': 'single boolean store', '_metadata': 'single item store'},
    EVO: {},
}


LOCK_NAMES = set()      # attribute / global names bound to threading.Lock() / RLock() in the repository
LOCK_CTORS = ('threading.Lock', 'threading.RLock', 'Lock', 'RLock')


def discover_locks(idx):
  """Names that hold a lock: `self.X = threading.Lock()` (attribute X) and
  module-level `X = threading.Lock()`; discovered from the code on every run,
  so a lock is recognised by what it is, not by how it is called."""
  LOCK_NAMES.clear()
  for m in idx.modules.values():
    for n in ast.walk(m.tree):
      if isinstance(n, ast.Assign) and isinstance(n.value, ast.Call) and (A.call_name(n.value) or '') in LOCK_CTORS:
        for t in n.targets:
          d = A.dotted(t)
          if d:
            LOCK_NAMES.add(d.split('.')[-1])
  if not LOCK_NAMES:
    raise AnalysisError('no threading.Lock() found in the repository')
  # aliases: `lk = self._study._lock` makes `lk` a lock as well (fixpoint)
  changed = True
  while changed:
    changed = False
    for m in idx.modules.values():
      for n in ast.walk(m.tree):
        if isinstance(n, ast.Assign) and isinstance(n.value, (ast.Attribute, ast.Name)):
          d = A.dotted(n.value)
          if d and d.split('.')[-1] in LOCK_NAMES:
            for t in n.targets:
              td = A.dotted(t)
              if td and td.split('.')[-1] not in LOCK_NAMES:
                LOCK_NAMES.add(td.split('.')[-1])
                changed = True


def _lock_expr(e):
  d = A.dotted(e)
  if d and d.split('.')[-1] in LOCK_NAMES:
    return d
  return None


def _is_lock_with(w):
  for it in w.items:
    d = _lock_expr(it.context_expr)
    if d:
      return d
  return None


def _in_lock(node):
  for w in node.withs:
    if _is_lock_with(w):
      return w
  # lock.acquire(); try: ... finally: lock.release()
  for t, kind in node.trys:
    if kind != 'body':
      continue
    for st in t.finalbody:
      for c in A.calls_in(st):
        if isinstance(c.func, ast.Attribute) and c.func.attr == 'release' and _lock_expr(c.func.value):
          return t
  return None


def _lock_name(node):
  """Dotted name of the lock protecting a CFG node, or None."""
  for w in node.withs:
    d = _is_lock_with(w)
    if d:
      return d
  for t, kind in node.trys:
    if kind != 'body':
      continue
    for st in t.finalbody:
      for c in A.calls_in(st):
        if isinstance(c.func, ast.Attribute) and c.func.attr == 'release' and _lock_expr(c.func.value):
          return _lock_expr(c.func.value)
  return None


def _field_writes(cnode):
  """[(cfg_node, field, how)] writes of self.<field> in a CFG node."""
  out = []
  for e in cnode.exprs():
    for n in A.walk_local(e):
      if isinstance(n, (ast.Assign, ast.AugAssign, ast.AnnAssign)):
        for t in A.stmt_targets(n):
          for tt in ([t] if not isinstance(t, (ast.Tuple, ast.List)) else t.elts):
            base = tt
            how = 'store'
            while isinstance(base, ast.Subscript):
              base = base.value
              how = 'item store'
            d = A.dotted(base)
            if d and d.startswith('self._') and d.count('.') == 1:
              out.append((d.split('.')[1], how if not isinstance(n, ast.AugAssign) else 'read-modify-write'))
            elif d and d.startswith('self._') and d.count('.') == 2 and isinstance(tt, ast.Attribute):
              out.append((d.split('.')[1], 'attribute store on ' + d))
      elif isinstance(n, ast.Call):
        d = A.call_name(n) or ''
        parts = d.split('.')
        if len(parts) == 3 and parts[0] == 'self' and parts[1].startswith('_') and parts[2] in MUT_METHODS:
          out.append((parts[1], f'.{parts[2]}()'))
  return out


def rule_a(ctx):
  idx = ctx.index
  for cls_fq in (LB + '_InMemoryResult', EVO):
    c = idx.cls(cls_fq)
    # shared fields = assigned in __init__/_on_bound, written again elsewhere
    shared = {}
    callers_cache = {}
    for m in c.methods.values():
      g = C.cfg_of(m.node)
      for k in g.nodes:
        if k.ast is None:
          continue
        for field, how in _field_writes(k):
          shared.setdefault(field, []).append((m, k, how))
    n = 0
    # the lock of the class: the one most of its writes are under; a write
    # under another lock object excludes nobody
    import collections
    cnt = collections.Counter(_lock_name(k) for sites in shared.values() for m, k, _ in sites
                              if m.name not in SETUP_METHODS and _lock_name(k))
    primary = cnt.most_common(1)[0][0] if cnt else None
    # prefer the lock the class creates for itself
    own = [A.dotted(t) for m in c.methods.values() for n in ast.walk(m.node)
           if isinstance(n, ast.Assign) and isinstance(n.value, ast.Call) and (A.call_name(n.value) or '') in LOCK_CTORS
           for t in n.targets if (A.dotted(t) or '').startswith('self.')]
    if len(own) == 1:
      primary = own[0]
    for field, sites in sorted(shared.items()):
      if field in LOCK_NAMES:
        continue
      runtime = [(m, k, how) for m, k, how in sites if m.name not in SETUP_METHODS]
      if not runtime:
        continue
      if field in SINGLE_STORE_EXEMPT.get(cls_fq, {}):
        ctx.ob('C16.a', f'{cls_fq}#{field}', True,
               'exempt: ' + SINGLE_STORE_EXEMPT[cls_fq][field], c.loc)
        continue
      # only fields that are protected by the lock somewhere are "shared
      # protected" state (a field never written under the lock is not claimed)
      any_locked = any(_in_lock(k) for _, k, _ in runtime)
      for m, k, how in runtime:
        ok = bool(_in_lock(k))
        why = ''
        if ok and _lock_name(k) != primary:
          ok = False
          why = (f'under a different lock ({_lock_name(k)}) than the other shared writes of this class '
                 f'({primary}): the two do not exclude each other')
        elif not ok:
          # private helper all of whose call sites are inside the lock
          if m.name.startswith('_') and m.name not in ('_propose', '_feedback', '_complete_trial'):
            sites_ = [(f, call) for f in c.methods.values() for call in A.calls_in(f.node)
                      if A.call_name(call) == f'self.{m.name}']
            if sites_:
              ok = True
              for f, call in sites_:
                gf = C.cfg_of(f.node)
                cn = [x for x in gf.nodes if x.ast is not None and any(cc is call for cc in x.calls())]
                if not cn or not all(_in_lock(x) for x in cn):
                  ok = False
                  why = f'helper {m.name} is called outside the lock in {f.name} (line {call.lineno})'
            else:
              why = 'no call site found to establish lock context'
          else:
            why = 'not inside `with self._lock`'
        if not any_locked and not ok:
          ctx.info('C16.a', f'{m.fq}#{field}', f'field {field} is never lock-protected: not claimed as shared state', m.loc)
          continue
        n += 1
        ctx.ob('C16.a', f'{m.fq}#{field}', ok,
               f'write of shared field {field} ({how}) happens under self._lock',
               f'{m.module.relpath}:{k.lineno}', f'{how} of {field} {why}')
    if n < 2:
      raise AnalysisError(f'only {n} lock-protected writes found in {cls_fq}')
  # one region for budget test + id allocation + proposal + append
  f = idx.func(LB + '_InMemoryResult.create_trial')
  g = C.cfg_of(f.node)
  roles = {
      'budget test': lambda k: k.kind == 'test' and '_max_num_trials' in A.unparse(k.ast, 200) and 'next_trial_id' in A.unparse(k.ast, 200),
      'id allocation': lambda k: k.kind != 'test' and any(A.call_name(c) == 'self.next_trial_id' for c in k.calls()),
      'proposal call': lambda k: any(A.call_name(c) == 'dna_fn' for c in k.calls()),
      'append': lambda k: any(A.call_name(c) == 'self._trials.append' for c in k.calls()),
      'group registration': lambda k: any(isinstance(x, ast.Subscript) and A.dotted(x.value) == 'self._latest_trial_per_group'
                                          for e in k.exprs() for x in ast.walk(e) if isinstance(getattr(x, 'ctx', None), ast.Store)),
  }
  regions = {}
  problems = []
  for role, pred in roles.items():
    ks = [k for k in g.nodes if k.ast is not None and pred(k)]
    if not ks:
      problems.append(f'{role} not found')
      continue
    for k in ks:
      w = _in_lock(k)
      if w is None:
        problems.append(f'{role} (line {k.lineno}) is outside the lock')
      else:
        regions.setdefault(id(w), []).append(role)
  if len(regions) > 1:
    problems.append('split over %d separate locked regions: %s' % (len(regions), list(regions.values())))
  ctx.ob('C16.a', f.fq + '#one-region', not problems,
         'budget test, id allocation, proposal, append and group registration of a new '
         'trial are in ONE locked region', f.loc, '; '.join(problems))
  f = idx.func(LB + '_InMemoryResult._complete_trial')
  g = C.cfg_of(f.node)
  reads = [k for k in g.nodes if k.ast is not None and any(
      isinstance(x, ast.Attribute) and A.dotted(x) == 'self._best_trial' for e in k.exprs() for x in ast.walk(e))]
  ok = bool(reads) and all(_in_lock(k) for k in reads)
  regs = {id(_in_lock(k)) for k in reads if _in_lock(k)}
  ctx.ob('C16.a', f.fq + '#best-trial-region', ok and len(regs) == 1,
         'the best-trial compare and replace happen in one locked region', f.loc,
         'best-trial read/compare/replace not inside a single `with self._lock`')


def rule_b(ctx):
  idx = ctx.index
  # (1) get-or-create of the named study
  f = idx.func(LB + '_InMemoryBackend.__init__')
  g = C.cfg_of(f.node)
  tests = [k for k in g.nodes if k.kind == 'test' and '_in_memory_results' in A.unparse(k.ast, 200)]
  stores = [k for k in g.nodes if k.kind == 'stmt' and isinstance(k.ast, ast.Assign) and any(
      isinstance(t, ast.Subscript) and A.dotted(t.value) == '_in_memory_results' for t in k.ast.targets)]
  if not tests or not stores:
    raise AnalysisError('get-or-create of the named study vanished')
  def lock_of(k):
    w = _in_lock(k)
    return id(w) if w is not None else None
  ok = all(lock_of(k) is not None for k in tests + stores) and len({lock_of(k) for k in tests + stores}) == 1
  ctx.ob('C16.b', f.fq + '#_in_memory_results', ok,
         'membership test and insertion of the named study are in one lock region', f.loc,
         '`name not in _in_memory_results` and `_in_memory_results[name] = study` are not protected by '
         'a common lock: two simultaneous first callers each create (and keep) a private study')
  # (2) latest-trial read decides trial creation
  f = idx.func(LB + '_InMemoryBackend.next')
  g = C.cfg_of(f.node)
  rd = [k for k in g.nodes if k.ast is not None and any(A.call_name(c) == 'self._study.get_latest_trial' for c in k.calls())]
  wr = [k for k in g.nodes if k.ast is not None and any(A.call_name(c) == 'self._study.create_trial' for c in k.calls())]
  if not rd or not wr:
    raise AnalysisError('_InMemoryBackend.next changed shape')
  atomic = all(lock_of(k) is not None for k in rd + wr) and len({lock_of(k) for k in rd + wr}) == 1
  # or: create_trial itself re-checks the group's latest trial under its lock
  ct = idx.func(LB + '_InMemoryResult.create_trial')
  gct = C.cfg_of(ct.node)
  rechecks = any(k.kind == 'test' and _in_lock(k) and (
      '_latest_trial_per_group' in A.unparse(k.ast, 200) or 'get_latest_trial' in A.unparse(k.ast, 200)
      or 'PENDING' in A.unparse(k.ast, 200)) for k in gct.nodes)
  ctx.ob('C16.b', f.fq + '#_latest_trial_per_group', atomic or rechecks,
         'the read of the group\'s latest trial that decides whether a new trial is '
         'created is atomic with the creation (same lock region, or re-checked under the lock)',
         f.loc, 'get_latest_trial() is read outside the study lock and create_trial() does not '
         're-check: two workers of one group can each be handed a new trial')
  # (4) status check-then-set in done / skip
  for meth in ('done', 'skip'):
    f = idx.func(LB + f'_InMemoryFeedback.{meth}')
    g = C.cfg_of(f.node)
    tests = [k for k in g.nodes if k.kind == 'test' and '.status' in A.unparse(k.ast, 100) and 'PENDING' in A.unparse(k.ast, 100)]
    sets = [k for k in g.nodes if k.kind == 'stmt' and isinstance(k.ast, ast.Assign) and any(
        isinstance(t, ast.Attribute) and t.attr == 'status' for t in k.ast.targets)]
    if not tests or not sets:
      raise AnalysisError(f'_InMemoryFeedback.{meth} changed shape')
    ok = all(lock_of(k) is not None for k in tests + sets) and len({lock_of(k) for k in tests + sets}) == 1
    ctx.ob('C16.b', f.fq + '#status', ok,
           'the PENDING test and the transition to COMPLETED are in one lock region', f.loc,
           'status is tested and then set with no lock: two co-workers finishing the same trial both pass '
           'the test, the algorithm is fed back twice and the PENDING counter goes negative')
  # (3) observation
  ctx.info('C16.b', LB + '_InMemoryBackend.__init__#algorithm.setup',
           '`algorithm.dna_spec is None` -> `algorithm.setup(...)` is unsynchronised; not demonstrated, not armed',
           idx.func(LB + '_InMemoryBackend.__init__').loc)


def rule_c(ctx):
  idx = ctx.index
  for meth, raising in (('done', False), ('skip', False), ('_add_measurement', True)):
    f = idx.func(LB + f'_InMemoryFeedback.{meth}')
    g = C.cfg_of(f.node)
    tests = [k for k in g.nodes if k.kind == 'test' and '.status' in A.unparse(k.ast, 100) and 'PENDING' in A.unparse(k.ast, 100)]
    changes = [k for k in g.nodes if k.ast is not None and k.kind in ('stmt',) and (
        any(isinstance(t, ast.Attribute) and t.attr in ('status', 'final_measurement', 'infeasible')
            for t in (k.ast.targets if isinstance(k.ast, ast.Assign) else []))
        or any((A.call_name(c) or '').endswith('measurements.append') or (A.call_name(c) or '').endswith('_complete_trial')
               or (A.call_name(c) or '').endswith('_feedback_fn') for c in k.calls()))]
    problems = []
    if not tests:
      # the guard may live in a private helper called at the same place
      from sa import surface as S3
      matcher = lambda n, recvs: '.status' in A.unparse(n.ast, 100) and 'PENDING' in A.unparse(n.ast, 100)
      ga = S3.GuardAnalysis(idx, 'status', lambda fn, n: [], test_matcher=matcher)
      helpers = ga._guard_helper_calls(f, g, ('self',))
      seen, _ = g.reach(g.entry, blocked_nodes=helpers, follow_exc=False)
      bad = [k for k in changes if k.id in seen]
      if not helpers:
        problems.append('PENDING status test vanished')
      elif bad:
        problems.append(f'trial changed at line {bad[0].lineno} without passing the PENDING guard')
    elif not changes:
      problems.append('no trial change recognised')
    else:
      t = tests[0]
      is_eq = '==' in A.unparse(t.ast)
      pend_lab = 'true' if is_eq else 'false'
      other = 'false' if pend_lab == 'true' else 'true'
      blocked = {(t.id, m.id, l) for m, l in t.succ if l == pend_lab}
      seen, _ = g.reach(g.entry, blocked_edges=blocked, follow_exc=False)
      bad = [k for k in changes if k.id in seen]
      if bad:
        problems.append(f'trial changed at line {bad[0].lineno} without passing the PENDING test')
      if raising and not g.always_raises_from(t, other):
        problems.append('non-PENDING trial does not raise RaceConditionError')
    ctx.ob('C16.c', f.fq, not problems,
           'the trial is changed only after its status was tested to be PENDING', f.loc,
           '; '.join(problems))


def rule_d(ctx):
  idx = ctx.index
  gen = 'pyglove.core.geno.dna_generator.DNAGenerator.'
  # propose counter: reached from workers only through create_trial's dna_fn()
  f = idx.func(gen + 'propose')
  aug = [n for n in ast.walk(f.node) if isinstance(n, ast.AugAssign) and A.dotted(n.target) == 'self._num_proposals']
  if not aug:
    raise AnalysisError('DNAGenerator.propose no longer increments _num_proposals')
  own_lock = any(_is_lock_with(w) for w in ast.walk(f.node) if isinstance(w, ast.With))
  ct = idx.func(LB + '_InMemoryResult.create_trial')
  g = C.cfg_of(ct.node)
  calls = [k for k in g.nodes if k.ast is not None and any(A.call_name(c) == 'dna_fn' for c in k.calls())]
  nx = idx.func(LB + '_InMemoryBackend.next')
  passes = any(A.call_name(c) == 'self._study.create_trial' for c in A.calls_in(nx.node)) and any(
      A.call_name(c) == 'self._algorithm.propose' for c in ast.walk(nx.node) if isinstance(c, ast.Call))
  direct = [c for c in A.calls_in(nx.node) if A.call_name(c) == 'self._algorithm.propose']
  ok = own_lock or (passes and bool(calls) and all(_in_lock(k) for k in calls) and not direct)
  ctx.ob('C16.d', f.fq + '#_num_proposals', ok,
         '`_num_proposals += 1` runs under a lock on every path from Backend.next '
         '(the proposal callback is invoked inside the study lock)', f.loc,
         'the proposer is invoked outside the study lock: concurrent proposals race on the counter '
         '(and on the algorithm state)')
  # feedback counter
  f = idx.func(gen + 'feedback')
  aug = [n for n in ast.walk(f.node) if isinstance(n, ast.AugAssign) and A.dotted(n.target) == 'self._num_feedbacks']
  if not aug:
    raise AnalysisError('DNAGenerator.feedback no longer increments _num_feedbacks')
  gf = C.cfg_of(f.node)
  an = [k for k in gf.nodes if k.ast is not None and k.ast in aug]
  own = bool(an) and all(_in_lock(k) for k in an)
  dn = idx.func(LB + '_InMemoryFeedback.done')
  gd = C.cfg_of(dn.node)
  fb = [k for k in gd.nodes if k.ast is not None and any((A.call_name(c) or '').endswith('_feedback_fn') for c in k.calls())]
  bk = idx.func(LB + '_InMemoryBackend._feedback')
  gb = C.cfg_of(bk.node)
  fb2 = [k for k in gb.nodes if k.ast is not None and any(A.call_name(c) == 'self._algorithm.feedback' for c in k.calls())]
  def locked(ks):
    return bool(ks) and all(_in_lock(k) for k in ks)
  ok = own or locked(fb) or locked(fb2)
  ctx.ob('C16.d', f.fq + '#_num_feedbacks', ok,
         '`_num_feedbacks += 1` runs under a lock on every path from Feedback.done', f.loc,
         'done() -> _feedback_fn -> algorithm.feedback increments the counter with no lock held: '
         'concurrent feedbacks lose updates')


GROUP_FILES = ('pyglove/core/tuning/sample.py', 'pyglove/core/tuning/backend.py',
               'pyglove/core/tuning/local_backend.py')


def rule_e(ctx):
  """Worker-group identity: group ids are ints or strings, 0 and '' included.
  Whether a group was given is decided with `is None`; the id is handed to the
  backend unchanged, so two workers passing the same id land in one group."""
  idx = ctx.index
  ctx.consult(*GROUP_FILES)
  n = 0
  for rel in GROUP_FILES:
    m = idx.by_relpath.get(rel)
    if m is None:
      continue
    for f in m.funcs.values():
      ps = [p for p in A.param_names(f.node) if p in ('group', 'group_id')]
      if not ps:
        continue
      g = C.cfg_of(f.node)
      bad = []
      for k in g.nodes:
        if k.kind == 'test' and isinstance(k.ast, ast.Name) and k.ast.id in ps:
          bad.append(f'`{A.unparse(k.ast)}` tested by truth value (line {k.lineno})')
      # redefinitions other than "None -> per-thread id"
      for p in ps:
        for dn, val in [(nd, D.node_defs(nd).get(p)) for nd in g.nodes if p in D.node_defs(nd)]:
          if val is None:
            continue
          # allowed: assignment under `p is None`
          tests = [t for t in g.nodes if t.kind == 'test' and A.unparse(t.ast) == f'{p} is None']
          blocked = {(t.id, m2.id, l) for t in tests for m2, l in t.succ if l == 'true'}
          seen, _ = g.reach(g.entry, blocked_edges=blocked, follow_exc=False)
          if dn.id in seen:
            bad.append(f'`{p}` is rewritten as `{A.unparse(val, 60)}` (line {dn.lineno}) also when a group was given')
      n += 1
      ctx.ob('C16.e', f.fq, not bad,
             'a given group id (including 0 and the empty string) reaches the backend unchanged; only None means '
             '"no group"', f.loc, '; '.join(bad) + ': co-workers that pass such an id are split into per-thread groups '
             'and are handed different trials')
  if n < 2:
    raise AnalysisError(f'only {n} functions take a group id')


def rule_f(ctx):
  """The default worker group is the id of the thread that creates the
  backend.  pg.sample therefore creates the backend lazily, in the iterating
  thread: sample() itself is a generator and the backend creation sits in the
  same generator as the loop that asks it for trials (a sampling loop built by
  a coordinator thread and consumed by workers must not pin all of them to the
  coordinator's group)."""
  idx = ctx.index
  f = idx.func('pyglove.core.tuning.sample.sample')
  own = [n for n in A.walk_local(f.node)]
  has_yield = any(isinstance(n, (ast.Yield, ast.YieldFrom)) for n in own)
  def attr_calls(name):
    return [c for c in A.calls_in(f.node) if isinstance(c.func, ast.Attribute) and c.func.attr == name]
  creates = attr_calls('create')
  nexts = attr_calls('next')
  problems = []
  if not creates:
    problems.append('the backend is not created in sample()')
  if not has_yield:
    problems.append('sample() is not a generator: the backend (and the default worker group = creating thread) is fixed '
                    'when sample() is called, not when the loop is iterated')
  if not nexts:
    problems.append('the trial loop is not in the generator that creates the backend')
  ctx.ob('C16.f', f.fq, not problems,
         'pg.sample creates the backend lazily in the thread that iterates the loop', f.loc, '; '.join(problems))


def rule_g(ctx):
  """(1) done(): whatever can refuse the completion (no measurement yet) is
  decided BEFORE the trial leaves PENDING - after the status store no `raise`
  is reachable; otherwise the trial is COMPLETED without final measurement,
  bookkeeping and feedback, and nobody can finish it any more.
  (2) next(): a worker whose group still holds a PENDING trial gets that trial,
  whatever the budget: the only way to StopIteration that does not pass the
  pending-trial lookup is the study's own `is_active` test."""
  idx = ctx.index
  f = idx.func(LB + '_InMemoryFeedback.done')
  g = C.cfg_of(f.node)
  stores = [k for k in g.nodes if k.kind == 'stmt' and isinstance(k.ast, ast.Assign)
            and any(isinstance(t, ast.Attribute) and t.attr == 'status' for t in k.ast.targets)]
  problems = []
  if not stores:
    problems.append('status store not found')
  for st in stores:
    after, _ = g.reach(st, follow_exc=False)
    later = [g.nodes[i] for i in after if i != st.id and g.nodes[i].kind == 'raisestmt' and isinstance(g.nodes[i].ast, ast.Raise)]
    if later:
      problems.append(f'line {later[0].lineno}: `{A.unparse(later[0].ast, 60)}` can still refuse after the trial was '
                      f'marked (line {st.lineno})')
  ctx.ob('C16.g', f.fq + '#refuse-before-transition', not problems,
         'done() refuses (raises) only while the trial is still PENDING: nothing raises after the status transition',
         f.loc, '; '.join(problems))
  # (1b) once the trial has left PENDING it is accounted for: from the status store every way
  # out of done() - also the exceptional one (the algorithm's feedback raised) - passes the
  # study's completion bookkeeping
  f = idx.func(LB + '_InMemoryFeedback.done')
  g = C.cfg_of(f.node)
  book = lambda k: k.ast is not None and any((A.call_name(c) or '').endswith('_complete_trial') for c in k.calls())
  stores = [k for k in g.nodes if k.kind == 'stmt' and isinstance(k.ast, ast.Assign)
            and any(isinstance(t, ast.Attribute) and t.attr == 'status' for t in k.ast.targets)]
  problems = []
  def user_code(c):
    d = (A.call_name(c) or '').split('.')[-1]
    return d.endswith('_fn') or d.endswith('callback') or d in ('feedback', '_feedback')
  for st in stores:
    blocked = {k.id for k in g.nodes if book(k)}
    seen, _ = g.reach(st, blocked_nodes=blocked, follow_exc=False)
    if g.exit.id in seen:
      problems.append(f'normal exit reachable from the status store (line {st.lineno}) without _complete_trial')
    for i in seen:
      u = g.nodes[i]
      if u.ast is None or not any(user_code(c) for c in u.calls()):
        continue
      for m, lab in u.succ:
        if lab != 'exc':
          continue
        seen2, _ = g.reach(m, blocked_nodes=blocked, follow_exc=True)
        seen2.add(m.id)
        if g.raise_exit.id in seen2:
          problems.append(f'when `{A.unparse(u.ast, 50)}` (line {u.lineno}) raises, done() is left without _complete_trial')
  ctx.ob('C16.g', f.fq + '#accounted-on-every-exit', bool(stores) and not problems,
         'a trial that left PENDING is counted as completed on every way out of done(), also when the algorithm\'s '
         'feedback raises', f.loc, '; '.join(problems))
  # (1c) the best-trial comparison orders rewards only when both are present
  f = idx.func(LB + '_InMemoryResult._complete_trial')
  g = C.cfg_of(f.node)
  problems = []
  ncmp = 0
  for k in g.nodes:
    if k.kind != 'test':
      continue
    for left, op, right in A.compare_parts(k.ast):
      if isinstance(op, (ast.Lt, ast.LtE, ast.Gt, ast.GtE)) and 'reward' in A.unparse(left) and 'reward' in A.unparse(right):
        ncmp += 1
        for side in (left, right):
          txt = A.unparse(side)
          guards = [t for t in g.nodes if t.kind == 'test' and isinstance(t.ast, ast.Compare) and len(t.ast.ops) == 1
                    and A.unparse(t.ast.left) == txt and A.unparse(t.ast.comparators[0]) == 'None']
          ok = False
          for t in guards:
            lab = 'false' if isinstance(t.ast.ops[0], ast.IsNot) else 'true'   # the "is None" outcome
            blocked = {(t.id, m.id, l) for m, l in t.succ if l != lab}
            seen, _ = g.reach(t, blocked_edges=blocked, follow_exc=False)
            if k.id not in seen:
              ok = True
          if not ok:
            problems.append(f'line {k.lineno}: `{txt}` is ordered without a None test: a best trial without reward '
                            f'(multi-objective metrics only) makes the comparison raise TypeError')
  ctx.ob('C16.g', f.fq + '#best-trial-comparison', ncmp >= 1 and not problems,
         'rewards are ordered only when both are present (None never reaches `<`)', f.loc,
         '; '.join(problems) or 'reward comparison not found')
  f = idx.func(LB + '_InMemoryBackend.next')
  g = C.cfg_of(f.node)
  lookups = {k.id for k in g.nodes if k.ast is not None and any((A.call_name(c) or '').endswith('get_latest_trial') for c in k.calls())}
  problems = []
  if not lookups:
    problems.append('pending-trial lookup not found')
  else:
    seen, parent = g.reach(g.entry, blocked_nodes=lookups, follow_exc=False)
    for k in g.nodes:
      if k.id in seen and k.kind == 'raisestmt' and isinstance(k.ast, ast.Raise) and 'StopIteration' in A.unparse(k.ast):
        # which tests lead here?
        tests = [t for t in g.nodes if t.kind == 'test' and t.id in seen]
        culprits = [A.unparse(t.ast, 60) for t in tests if 'is_active' not in A.unparse(t.ast)]
        if culprits:
          problems.append(f'line {k.lineno}: StopIteration before the pending-trial lookup, decided by {culprits}')
  ctx.ob('C16.g', f.fq + '#pending-first', not problems,
         'next() hands a group its PENDING trial before any budget test can end the loop', f.loc, '; '.join(problems))


def run(ctx):
  ctx.consult(*FILES)
  from sa.rejections import REJECTIONS as _REJ
  S.rejection_census_obligations(ctx, 'C16.r', _REJ['C16'], floor=3)
  discover_locks(ctx.index)
  ctx.note('locks discovered (names bound to threading.Lock/RLock): ' + ', '.join(sorted(LOCK_NAMES)))
  rule_a(ctx)
  rule_b(ctx)
  rule_c(ctx)
  rule_d(ctx)
  rule_e(ctx)
  rule_f(ctx)
  rule_g(ctx)
  S.optional_truthiness_obligations(ctx, 'C16.z', ['pyglove/core/tuning/sample.py', 'pyglove/core/tuning/backend.py', 'pyglove/core/tuning/local_backend.py', 'pyglove/core/tuning/protocols.py'], 'group 0 is a group, reward 0.0 is a reward')
  ctx.assume('setup-time methods (__init__, _on_bound, setup, recover) run before workers start')
  ctx.assume('atomicity by construction is necessary, not sufficient, for exactly-once')
