"""C20 — HTML views (DESIGN §3 C20)."""
from __future__ import annotations

import ast
import re

from sa import astutil as A
from sa import cfg as C
from sa import dataflow as D
from sa import surface as S
from sa.index import AnalysisError

PROP = 'C20'
EXPLANATION = (
    'Taint analysis over views/html/tree_view.py (the renderer of arbitrary '
    'values): user data (name, keys, values and their str()/repr()/format) '
    'must pass Html.escape before reaching an HTML sink (inner_html of '
    'Html.element, Html.write, attribute values, and the markup-contract '
    'parameters `title`/`content` of the renderers).  Plus: literal tag '
    'fragments written in one function balance on every branch combination; '
    'the rendered value is never the receiver of a mutating operation; '
    'Html.element closes what it opens and Html.escape escapes.  Whole-document '
    'well-formedness for all inputs is not decided.')
FLOORS = {'C20.a': 12, 'C20.b': 1, 'C20.c': 4, 'C20.d': 1, 'C20.e': 2}
FILES = ['pyglove/core/views/html/tree_view.py', 'pyglove/core/views/html/base.py',
         'pyglove/core/views/html/controls/tab.py', 'pyglove/core/views/html/controls/label.py',
         'pyglove/core/views/html/controls/tooltip.py',
         'pyglove/core/views/html/controls/progress_bar.py',
         'pyglove/core/views/html/controls/base.py']

TV = 'pyglove.core.views.html.tree_view.HtmlTreeView'
DATA_PARAMS = {'name', 'value', 'root_path', 'parent', 'kv', 'items'}
CLEAN, CLASSNAME, MARKUP, TAINT = 0, 1, 2, 3
TEXTIFY = {'str', 'repr', 'format', 'utils.format', 'utils.quote_if_str', 'utils.kvlist_str',
           'json.dumps', 'utils.maybe_markdown_quote'}
HTML_FACTORIES = ('Html.element', 'Html', 'Html.from_value', 'Html.concate', 'Html.style_str')


class Taint:
  def __init__(self, idx, func):
    self.idx = idx
    self.f = func
    self.fn = func.node
    self.cls = idx.enclosing_class(func)
    self.params = A.param_names(self.fn)
    self.ann = {}
    a = self.fn.args
    for p in a.posonlyargs + a.args + a.kwonlyargs:
      self.ann[p.arg] = A.unparse(p.annotation, 300) if p.annotation is not None else ''
    # enclosing function's params are visible from nested defs
    par = func.parent
    while par is not None:
      pa = par.node.args
      for p in pa.posonlyargs + pa.args + pa.kwonlyargs:
        self.ann.setdefault(p.arg, A.unparse(p.annotation, 300) if p.annotation is not None else '')
        if p.arg not in self.params:
          self.params.append(p.arg)
      par = par.parent
    self._seen = set()

  def name(self, nm, depth):
    worst = (CLEAN, '')
    if nm in self.params:
      ann = self.ann.get(nm, '')
      if 'Html' in ann:
        worst = (MARKUP, f'parameter `{nm}` ({ann[:40]}): markup contract')
      elif nm in DATA_PARAMS:
        return TAINT, f'data parameter `{nm}`'
      # a parameter that is re-assigned inside the function also takes the
      # class of what it is assigned (`content = value.path`)
      if not any(v is not None for _, v in D.defs_of(self.fn, nm)):
        return worst
    key = (nm, depth)
    if key in self._seen or depth <= 0:
      return worst
    self._seen.add(key)
    scopes = [self.fn]
    par = self.f.parent
    while par is not None:
      scopes.append(par.node)
      par = par.parent
    for sc in scopes:
      for stmt, val in D.defs_of(sc, nm):
        if val is None:
          continue
        if isinstance(stmt, (ast.For, ast.comprehension)):
          # loop variable over data => data; over anything else: classify iter
          r = self.expr(val, depth - 1)
          if r[0] == TAINT or (A.names_read(val) & DATA_PARAMS):
            r = (TAINT, f'loop variable `{nm}` over rendered data')
        else:
          r = self.expr(val, depth - 1)
        if r[0] > worst[0]:
          worst = r
      # nested function used as a lazily evaluated value
      for n in A.walk_local(sc):
        if isinstance(n, A.FuncDef) and n.name == nm and n is not sc:
          sub = Taint(self.idx, self.idx.find_func(f'{self.f.module.name}.'
                      + self._qual(sc) + f'.<locals>.{nm}') or self.f)
          for r_ in [x for x in ast.walk(n) if isinstance(x, ast.Return) and x.value is not None]:
            r = sub.expr(r_.value, depth - 1) if sub.f is not self.f else self.expr(r_.value, depth - 1)
            if r[0] > worst[0]:
              worst = r
    return worst

  def _nested_def(self, name):
    f = self.f
    while f is not None:
      q = f'{f.qualname}.<locals>.{name}'
      if q in f.module.funcs:
        return f.module.funcs[q]
      f = f.parent
    return None

  def _qual(self, sc):
    for f in self.f.module.funcs.values():
      if f.node is sc:
        return f.qualname
    return self.f.qualname

  def expr(self, e, depth=6):
    if e is None or isinstance(e, ast.Constant):
      return CLEAN, ''
    if isinstance(e, ast.Name):
      return self.name(e.id, depth)
    if isinstance(e, ast.Lambda):
      return self.expr(e.body, depth)
    if isinstance(e, ast.IfExp):
      return max(self.expr(e.body, depth), self.expr(e.orelse, depth), key=lambda r: r[0])
    if isinstance(e, ast.BoolOp):
      return max((self.expr(v, depth) for v in e.values), key=lambda r: r[0])
    if isinstance(e, ast.BinOp):
      return max(self.expr(e.left, depth), self.expr(e.right, depth), key=lambda r: r[0])
    if isinstance(e, (ast.List, ast.Tuple, ast.Set)):
      rs = [self.expr(x, depth) for x in e.elts] or [(CLEAN, '')]
      return max(rs, key=lambda r: r[0])
    if isinstance(e, ast.Starred):
      return self.expr(e.value, depth)
    if isinstance(e, ast.JoinedStr):
      rs = [self.expr(v.value, depth) for v in e.values if isinstance(v, ast.FormattedValue)] or [(CLEAN, '')]
      r = max(rs, key=lambda r: r[0])
      if r[0] in (TAINT,):
        return TAINT, f'f-string over {r[1]}'
      return r
    if isinstance(e, ast.Subscript):
      return self.expr(e.value, depth)
    if isinstance(e, ast.Attribute):
      d = A.dotted(e) or ''
      if e.attr == '__name__':
        return CLASSNAME, f'class name `{A.unparse(e)}`'
      if d.split('.')[0] in ('self', 'cls', 'Html', 'utils'):
        return CLEAN, ''
      r = self.expr(e.value, depth)
      if r[0] == TAINT:
        return TAINT, f'`{A.unparse(e)}` of {r[1]}'
      return r
    if isinstance(e, ast.Call):
      d = A.call_name(e) or ''
      last = d.split('.')[-1]
      if last == 'escape' and d.startswith('Html'):
        return CLEAN, ''
      if d in HTML_FACTORIES or d.endswith('.add_style') or d.endswith('.add_script'):
        return CLEAN, ''
      if d == 'type':
        return CLASSNAME, 'type(...)'
      if d.startswith('self.') and d.count('.') == 1 and self.cls is not None:
        m = self.idx.lookup_method(self.cls.fq, last)
        if m is not None:
          ret = A.unparse(m.node.returns, 200) if m.node.returns is not None else ''
          if ret.strip("'\" ") in ('Html', 'base.Html'):
            return CLEAN, ''      # an Html object: what went into it is checked at the callee's own sinks
          if 'Html' in ret and depth > 1 and m.node is not self.fn:
            # "str or Html": the str alternative is text - look at what the method returns
            sub = Taint(self.idx, m)
            rs = [sub.expr(r.value, depth - 2) for r in ast.walk(m.node)
                  if isinstance(r, ast.Return) and r.value is not None] or [(CLEAN, '')]
            r = max(rs, key=lambda x: x[0])
            if r[0] == TAINT:
              return TAINT, f'{d}(...) returning {r[1]}'
            return CLEAN, ''
          if m.name == 'css_class_name':
            return CLASSNAME, 'css_class_name(...)'
          if 'bool' in ret or 'Tuple' in ret or 'KeyPathSet' in ret or 'Dict' in ret:
            return CLEAN, ''
      # callable parameter annotated to return Html
      if d in self.params and 'Html' in self.ann.get(d, ''):
        return CLEAN, ''
      if isinstance(e.func, ast.Name) and e.func.id not in self.params and d not in TEXTIFY:
        nested = self._nested_def(e.func.id)
        if nested is not None:
          # nested def: worst of its return expressions (its parameters named
          # like data parameters are data)
          sub = Taint(self.idx, nested)
          rs = [sub.expr(r.value, depth - 1) for r in ast.walk(nested.node)
                if isinstance(r, ast.Return) and r.value is not None] or [(CLEAN, '')]
          return max(rs, key=lambda r: r[0])
        # local variable holding a renderer (`x = kwargs.get(.., render_fn)` /
        # `x = x or HtmlTreeView.render`)
        nm, exprs = D.backward_slice_names(self.fn, {e.func.id})
        par = self.f.parent
        while par is not None:
          nm2, ex2 = D.backward_slice_names(par.node, set(nm))
          nm |= nm2
          exprs += ex2
          par = par.parent
        if any('Html' in self.ann.get(x, '') for x in nm) or any(
            'HtmlTreeView.' in A.unparse(x, 300) for x in exprs):
          return CLEAN, ''
      args = list(e.args) + [k.value for k in e.keywords]
      rs = [self.expr(a, depth) for a in args] or [(CLEAN, '')]
      r = max(rs, key=lambda r: r[0])
      if r[0] == TAINT:
        return TAINT, f'{d or "call"}(...) over {r[1]}'
      return (r if r[0] != MARKUP else (CLEAN, ''))
    if isinstance(e, (ast.Compare, ast.UnaryOp)):
      return CLEAN, ''
    if isinstance(e, (ast.ListComp, ast.GeneratorExp, ast.SetComp)):
      return self.expr(e.elt, depth)
    if isinstance(e, ast.Dict):
      rs = [self.expr(v, depth) for v in e.values] or [(CLEAN, '')]
      return max(rs, key=lambda r: r[0])
    return CLEAN, ''


def _sinks(fn):
  """(kind, label, expr, lineno) for every HTML sink in fn (not nested defs'
  own sinks: they are visited as their own functions)."""
  out = []
  def walk(node, root=True):
    for ch in ast.iter_child_nodes(node):
      if isinstance(ch, (ast.FunctionDef, ast.AsyncFunctionDef, ast.ClassDef)):
        continue
      yield ch
      yield from walk(ch, False)
  for c in [n for n in walk(fn) if isinstance(n, ast.Call)]:
    d = A.call_name(c) or ''
    if d == 'Html.element':
      inner = c.args[1] if len(c.args) > 1 else A.kwarg(c, 'inner_html')
      tag = A.const_str(c.args[0]) if c.args else '?'
      if isinstance(inner, (ast.List, ast.Tuple)):
        for i, el in enumerate(inner.elts):
          out.append(('inner_html', f'<{tag}>[{i}]', el, el.lineno))
      elif inner is not None:
        out.append(('inner_html', f'<{tag}>[*]', inner, inner.lineno))
      for k in c.keywords:
        if k.arg in ('inner_html', None):
          continue
        out.append(('attribute', f'<{tag}> {k.arg}=', k.value, k.value.lineno))
    elif d == 'Html' and c.args:
      for a in c.args:
        out.append(('inner_html', 'Html(...)', a, a.lineno))
    elif d.endswith('.write') and d.count('.') == 1:
      for a in c.args:
        out.append(('inner_html', f'{d}(...)', a, a.lineno))
    # markup-contract parameters of renderers
    for k in c.keywords:
      if k.arg in ('title', 'content') and d != 'Html.element':
        out.append(('markup-param', f'{d or "call"}({k.arg}=)', k.value, k.value.lineno))
  return out


def rule_a(ctx):
  idx = ctx.index
  cls = idx.cls(TV)
  n = 0
  funcs = [f for f in cls.module.funcs.values()
           if f.qualname.startswith('HtmlTreeView.')]
  for f in funcs:
    t = Taint(idx, f)
    for kind, label, e, line in _sinks(f.node):
      n += 1
      lvl, why = t.expr(e)
      construct = f'{f.fq}#{label}:{A.unparse(e, 60)}'
      loc = f'{f.module.relpath}:{line}'
      if lvl == CLASSNAME:
        ctx.info('C20.a', construct, f'class name reaches an HTML sink unescaped ({why}); information only', loc)
        continue
      ctx.ob('C20.a', construct, lvl != TAINT,
             f'no user data reaches this HTML sink ({kind}) without Html.escape', loc,
             f'{why} is written into {label} without Html.escape: data can introduce markup')
  if n < 20:
    raise AnalysisError(f'only {n} HTML sinks found in the tree view')


TAG_RE = re.compile(r'<(/?)([a-zA-Z][a-zA-Z0-9]*)((?:\s[^<>]*)?)(/?)>')
VOID = {'br', 'hr', 'img', 'input', 'meta', 'link'}


def _tag_events(s):
  ev = []
  for m in TAG_RE.finditer(s):
    close, tag, _, selfclose = m.group(1), m.group(2).lower(), m.group(3), m.group(4)
    if tag in VOID or selfclose:
      continue
    ev.append(('-' if close else '+', tag))
  return ev


def _alts(e):
  """Alternative literal strings an expression can evaluate to ([] if not a
  literal fragment; None element = non-literal balanced item)."""
  if isinstance(e, ast.Constant) and isinstance(e.value, str):
    return [e.value]
  if isinstance(e, ast.IfExp):
    a, b = _alts(e.body), _alts(e.orelse)
    return a + b
  if isinstance(e, ast.JoinedStr):
    return [''.join(v.value if isinstance(v, ast.Constant) else '' for v in e.values)]
  return ['']


def _check_sequence(items):
  """items: list of alternatives (list of str).  Every combination must keep
  the literal tag stack balanced; returns problem text or None.  Branch
  alternatives are explored independently (bounded product)."""
  stacks = [[]]
  for alts in items:
    new = []
    for st in stacks:
      for s in alts:
        cur = list(st)
        bad = None
        for kind, tag in _tag_events(s):
          if kind == '+':
            cur.append(tag)
          else:
            if not cur or cur[-1] != tag:
              bad = f'</{tag}> closes while <{cur[-1] if cur else "nothing"}> is open'
              break
            cur.pop()
        if bad:
          return bad
        if cur not in new:
          new.append(cur)
    stacks = new[:64]
  for st in stacks:
    if st:
      return f'<{st[-1]}> is left open'
  return None


def rule_b(ctx):
  """Literal tag fragments balance."""
  idx = ctx.index
  n = 0
  for m in idx.modules.values():
    if not m.name.startswith('pyglove.core.views.html'):
      continue
    for f in m.funcs.values():
      # (1) inner_html lists of Html.element
      for c in A.calls_in(f.node):
        if A.call_name(c) != 'Html.element':
          continue
        inner = c.args[1] if len(c.args) > 1 else A.kwarg(c, 'inner_html')
        if not isinstance(inner, (ast.List, ast.Tuple)):
          continue
        items = [_alts(e) for e in inner.elts]
        if not any(TAG_RE.search(s) for alts in items for s in alts):
          continue
        n += 1
        bad = _check_sequence(items)
        tag = A.const_str(c.args[0]) if c.args else '?'
        ctx.ob('C20.b', f'{f.fq}#<{tag}>@inner_html', bad is None,
               'literal tag fragments inside one inner_html list are balanced for '
               'every combination of conditional alternatives',
               f'{m.relpath}:{c.lineno}', bad or '')
      # (2) literal fragments written to one Html object along the CFG
      writers = {}
      for c in A.calls_in(f.node):
        d = A.call_name(c) or ''
        if d.endswith('.write') and d.count('.') == 1 and c.args:
          if any(TAG_RE.search(s) for a in c.args for s in _alts(a)):
            writers.setdefault(d.split('.')[0], []).append(c)
      for var, calls in writers.items():
        n += 1
        bad = _check_writes_on_paths(f, var)
        ctx.ob('C20.b', f'{f.fq}#{var}.write', bad is None,
               'literal tag fragments written to one Html object balance on every CFG path',
               f'{m.relpath}:{calls[0].lineno}', bad or '')
  if n < 2:
    raise AnalysisError(f'only {n} literal-tag sites found')


def _check_writes_on_paths(f, var):
  g = C.cfg_of(f.node)
  # net effect per node
  eff = {}
  for k in g.nodes:
    if k.ast is None:
      continue
    evs = []
    for c in k.calls():
      if A.call_name(c) == f'{var}.write':
        for a in c.args:
          alts = _alts(a)
          evs += _tag_events(alts[0]) if alts else []
    if evs:
      eff[k.id] = evs
  # DFS over acyclic paths with the literal tag stack as state (loops: a back
  # edge must return to the same stack)
  seen_state = {}
  stack = [(g.entry, ())]
  count = 0
  while stack:
    node, st = stack.pop()
    count += 1
    if count > 20000:
      return None
    key = (node.id, st)
    if key in seen_state:
      continue
    seen_state[key] = True
    if node.id in eff:
      cur = list(st)
      for kind, tag in eff[node.id]:
        if kind == '+':
          cur.append(tag)
        elif not cur or cur[-1] != tag:
          return f'</{tag}> written while <{cur[-1] if cur else "nothing"}> is open (line {node.lineno})'
        else:
          cur.pop()
      st = tuple(cur)
    if node is g.exit and st:
      return f'<{st[-1]}> is left open at return'
    for m, lab in node.succ:
      if lab == 'exc' and node.kind not in ('raisestmt',):
        continue
      if m is g.raise_exit:
        continue
      stack.append((m, st))
  return None


MUTATING = {'pop', 'popitem', 'clear', 'update', 'setdefault', 'append', 'extend', 'insert',
            'remove', 'sort', 'reverse', 'rebind', 'sym_rebind', '__setitem__', '__delitem__',
            'add', 'discard', 'seal', 'sym_seal', 'set_accessor_writable', 'use_value_spec'}
RENDERED = {'value', 'kv', 'parent', 'items'}


def rule_c(ctx):
  idx = ctx.index
  funcs = []
  cls = idx.cls(TV)
  for f in cls.module.funcs.values():
    if f.qualname.startswith('HtmlTreeView.') and (set(A.param_names(f.node)) & RENDERED):
      funcs.append(f)
  if len(funcs) < 4:
    raise AnalysisError(f'only {len(funcs)} renderer functions found')
  for f in funcs:
    rendered = set(A.param_names(f.node)) & RENDERED
    # aliases: `items = value` / `items = {...}` is a fresh container only when
    # built by a comprehension/constructor
    aliases = set(rendered)
    for n in A.walk_local(f.node):
      if isinstance(n, ast.Assign) and isinstance(n.value, ast.Name) and n.value.id in aliases:
        aliases.update(A.assigned_names(n.targets[0]))
    bad = []
    g = C.cfg_of(f.node)

    def alias_at(node, var, depth=4):
      """Can `var` refer to the rendered value at this CFG node?"""
      for dn, val in D.reaching_defs(g, node, var):
        if val is None:
          if dn is g.entry and var in rendered:
            return True
          continue
        if isinstance(val, ast.Name) and depth > 0:
          if val.id in rendered and alias_at(dn, val.id, depth - 1):
            return True
          if val.id not in rendered and alias_at(dn, val.id, depth - 1):
            return True
      return False

    for k in g.nodes:
      if k.ast is None:
        continue
      for e in k.exprs():
        for n in A.walk_local(e):
          if isinstance(n, ast.Call):
            d = A.call_name(n) or ''
            parts = d.split('.')
            if len(parts) == 2 and parts[0] in aliases and parts[1] in MUTATING \
                and alias_at(k, parts[0]):
              bad.append((n.lineno, d))
          elif isinstance(n, (ast.Assign, ast.AugAssign, ast.Delete)):
            tg = n.targets if isinstance(n, (ast.Assign, ast.Delete)) else [n.target]
            for t in tg:
              if isinstance(t, (ast.Subscript, ast.Attribute)):
                base = t.value
                while isinstance(base, (ast.Subscript, ast.Attribute)):
                  base = base.value
                if isinstance(base, ast.Name) and base.id in aliases and alias_at(k, base.id):
                  bad.append((n.lineno, A.unparse(t)))
    ctx.ob('C20.c', f.fq, not bad,
           'rendering never mutates the rendered value (no mutating call / '
           'item or attribute store on it or on an alias)', f.loc,
           'rendered value is modified: ' + ', '.join(f'{d}@{l}' for l, d in bad[:4]))


def rule_d(ctx):
  """Html.element closes what it opens; Html.escape escapes."""
  idx = ctx.index
  f = idx.func('pyglove.core.views.html.base.Html.element')
  writes = [A.unparse(a, 200) for c in A.calls_in(f.node) if (A.call_name(c) or '').endswith('.write')
            for a in c.args]
  opens = any(w.startswith("f'<{tag}") for w in writes)
  closes = any("</{tag}>" in w for w in writes)
  g = C.cfg_of(f.node)
  cl = lambda n: any((A.call_name(c) or '').endswith('.write') and any('</{tag}>' in A.unparse(a, 100) for a in c.args)
                     for c in n.calls())
  wit = g.can_skip(g.entry, cl)
  ctx.ob('C20.d', f.fq, opens and closes and wit is None,
         'Html.element writes the closing tag of the tag it opened on every path', f.loc,
         f'closing tag missing or skippable: {wit}')
  f = idx.func('pyglove.core.views.html.base.Html.escape')
  txt = S.closure_text(idx, f)
  ok = 'html_lib.escape(' in txt
  rets = [n for n in ast.walk(f.node) if isinstance(n, ast.Return)]
  ctx.ob('C20.d', f.fq, ok, 'Html.escape escapes text with html.escape (&, <, >, quotes)', f.loc,
         'html.escape is no longer applied')
  # what is escaped is the text itself: the argument of html.escape derives from
  # the parameter by names only (un-escaping, stripping or slicing first lets
  # `&lt;script&gt;` through as markup-looking text or drops characters)
  bad = []
  ne = 0
  scan = []
  for hf in S.helper_closure(idx, f, depth=2):
    scan += [hf.node] + [n for n in ast.walk(hf.node) if isinstance(n, (ast.FunctionDef, ast.Lambda)) and n is not hf.node]
  for fn in {id(x): x for x in scan}.values():
    for c in A.walk_local(fn):
      if isinstance(c, ast.Call) and A.call_name(c) == 'html_lib.escape':
        ne += 1
        arg = c.args[0] if c.args else None
        def plain(e, depth=0):
          if isinstance(e, ast.Name):
            ds = D.defs_of(fn, e.id)
            return depth < 4 and bool(ds) and all(v is None or plain(v, depth + 1) for _, v in ds)
          if isinstance(e, ast.Attribute):
            return plain(e.value, depth)
          return False
        if arg is None or not plain(arg) or any(k.arg == 'quote' and A.unparse(k.value) != 'True' for k in c.keywords) or len(c.args) > 1:
          bad.append(f'line {c.lineno}: `{A.unparse(c, 80)}`')
  # ... on every path: the helper that escapes a str never hands its input back as it came
  # (a shortcut for text that "looks escaped already" lets `&amp; <script>` through)
  raw_returns = []
  for fn in {id(x): x for x in scan}.values():
    if not isinstance(fn, ast.FunctionDef):
      continue
    if not any(isinstance(c, ast.Call) and A.call_name(c) == 'html_lib.escape' for c in A.walk_local(fn)):
      continue
    prm = set(A.param_names(fn))
    for r in A.walk_local(fn):
      if isinstance(r, ast.Return) and isinstance(r.value, ast.Name) and r.value.id in prm and not D.defs_of(fn, r.value.id)[1:]:
        raw_returns.append(f'line {r.lineno}: `return {r.value.id}`')
  ctx.ob('C20.d', f.fq + '#every-path', not raw_returns,
         'the string escaper never returns its input unchanged', f.loc, '; '.join(raw_returns))
  ctx.ob('C20.d', f.fq + '#argument', ne > 0 and not bad,
         'html.escape is applied to the text itself (not to an un-escaped, stripped or truncated form) with quotes escaped',
         f.loc, '; '.join(bad) or 'no html_lib.escape call')
  m = idx.module('pyglove.core.views.html.base')
  imp = m.imports.get('html_lib')
  ctx.ob('C20.d', m.name + '#html_lib', imp == 'html', 'html_lib is the standard html module',
         m.relpath + ':1', f'html_lib is {imp}')
  # controls escape their str payloads
  for q, field in (('pyglove.core.views.html.controls.tooltip.Tooltip._to_html', 'content'),
                   ('pyglove.core.views.html.controls.label.Label._to_html', 'text')):
    fn = idx.find_func(q)
    if fn is None:
      continue
    t = A.unparse(fn.node, 4000)
    if 'isinstance(self.%s, str)' % field in t:
      ok = 'Html.escape(self.%s)' % field in t
      ctx.ob('C20.d', q, ok, f'a str `{field}` is escaped before being written', fn.loc,
             'str payload written unescaped')


def rule_e(ctx):
  """(1) Escaping is a pure function of (text, mode): Html.escape keeps no memo
  (a cache keyed by the text alone returns the JavaScript-escaped form where
  the HTML-escaped one is needed, and vice versa).
  (2) The per-thread rendering scopes of the view layer (options, rendering
  stack, tracked scripts) are undone on every way out, so a rendering that
  raised does not change what the next rendering on that thread emits."""
  from sa.rules import c17
  idx = ctx.index
  f = idx.func('pyglove.core.views.html.base.Html.escape')
  stores = []
  for x in [y for h in S.helper_closure(idx, f) for y in ast.walk(h.node)]:
    if isinstance(x, (ast.Assign, ast.AugAssign)):
      for t in A.stmt_targets(x):
        if isinstance(t, (ast.Subscript, ast.Attribute)):
          stores.append(A.unparse(x, 70))
    elif isinstance(x, (ast.Global, ast.Nonlocal)):
      stores.append(A.unparse(x, 70))
    elif isinstance(x, ast.Call) and (A.call_name(x) or '').split('.')[-1] in ('setdefault', 'lru_cache', 'cache'):
      stores.append(A.unparse(x, 70))
  decos = [d for d in A.decorator_names(f.node) if 'cache' in d]
  ctx.ob('C20.e', f.fq, not stores and not decos,
         'Html.escape is a pure function of its arguments (no memo shared between the HTML and the JavaScript mode)',
         f.loc, 'escape keeps state: ' + '; '.join(stores + decos))
  n = 0
  for q in ('pyglove.core.views.base.view_options', 'pyglove.core.views.base.View._track_rendering',
            'pyglove.core.views.html.controls.base.HtmlControl.track_scripts'):
    fn = idx.find_func(q)
    if fn is None:
      continue
    n += 1
    before = len(ctx.obs)
    c17.analyse_generator(ctx, fn)
    for o in ctx.obs[before:]:
      if o.rule in ('C17.a', 'C17.b'):
        o.rule = 'C20.e'
      else:
        o.info = True
        o.rule = 'C20.e'
  if n < 2:
    raise AnalysisError('view-layer scope managers vanished')


ESCAPERS = ('escape', '_escape_attribute')


def _is_escape_call(e):
  return isinstance(e, ast.Call) and (A.call_name(e) or '').split('.')[-1] in ESCAPERS


def rule_f(ctx):
  """"... appears only as escaped text or as an escaped attribute value": Html.element is the
  one place that writes attributes, so every interpolation of the form `name="{expr}"` in it
  writes an expression that went through an escaper (directly, or a local assigned from
  one).  `style` is exempt: its text is assembled by style_str from the library's own CSS
  property names and the values of view options.  Pre-fix neither the class attribute nor
  the free-form properties (href, ...) were escaped: a class named `E<i>"x` or a link
  `"><script>` ended the attribute."""
  idx = ctx.index
  f = idx.func('pyglove.core.views.html.base.Html.element')
  n = 0
  for js in [x for x in ast.walk(f.node) if isinstance(x, ast.JoinedStr)]:
    parts = js.values
    for i, part in enumerate(parts):
      if not (isinstance(part, ast.FormattedValue) and i > 0 and isinstance(parts[i - 1], ast.Constant)
              and str(parts[i - 1].value).endswith('="')):
        continue
      attr = str(parts[i - 1].value).strip().rstrip('="').split(' ')[-1] or '<dynamic>'
      if attr == 'style':
        continue
      e = part.value
      ok = _is_escape_call(e)
      if not ok and isinstance(e, ast.Name):
        defs = [v for _, v in D.defs_of(f.node, e.id) if v is not None]
        # the loop variable of `for k, v in properties.items()` is re-assigned from an escaper before use
        ok = bool(defs) and any(_is_escape_call(v) for v in defs) and all(
            _is_escape_call(v) or not isinstance(v, (ast.Constant, ast.JoinedStr)) for v in defs)
        ok = ok and any(_is_escape_call(v) for v in defs)
      n += 1
      ctx.ob('C20.f', f'Html.element#attribute:{attr}', ok,
             f'the value written into the `{attr}` attribute went through an escaper', f'{f.module.relpath}:{js.lineno}',
             f'`{A.unparse(js, 60)}` writes `{A.unparse(e)}` raw: a value containing `"` ends the attribute and can open an '
             f'element of its own')
  if n < 2:
    raise AnalysisError(f'Html.element: only {n} attribute interpolations found')


def rule_g(ctx):
  """Class names are data: wherever the html views put a class name (type(x).__name__,
  __class__.__name__, __qualname__) into the children of an element - directly, through a
  nested helper that returns it, or as the right operand of `title or helper(...)` - it is
  wrapped in Html.escape.  (A class created with type('E<i>"x', ...) opened an <i> element
  in the summary title.)"""
  idx = ctx.index
  def namey(e):
    return any(isinstance(x, ast.Attribute) and x.attr in ('__name__', '__qualname__') for x in ast.walk(e))
  n = 0
  for f in idx.all_funcs():
    if not f.module.name.startswith('pyglove.core.views.html.') or f.module.relpath.endswith('_test.py'):
      continue
    helpers = {h.name for h in ast.walk(f.node) if isinstance(h, ast.FunctionDef) and h is not f.node
               and any(isinstance(r, ast.Return) and r.value is not None and namey(r.value) for r in ast.walk(h))}
    for c in A.calls_in(f.node):
      if (A.call_name(c) or '').split('.')[-1] != 'element' or len(c.args) < 2 or not isinstance(c.args[1], (ast.List, ast.Tuple)):
        continue
      for child in c.args[1].elts:
        # look at every sub-expression that is not under an escaper
        stack = [child]
        while stack:
          e = stack.pop()
          if _is_escape_call(e):
            continue
          hit = None
          if isinstance(e, ast.Call) and A.call_name(e) in helpers:
            hit = A.unparse(e, 50)
          elif isinstance(e, (ast.Attribute, ast.JoinedStr)) and namey(e):
            hit = A.unparse(e, 50)
          if hit is not None:
            n += 1
            ctx.ob('C20.g', f'{f.qualname}#class-name-text:{n}', False,
                   'a class name written as element content is escaped', f'{f.module.relpath}:{e.lineno}',
                   f'`{hit}` reaches the element content unescaped: type(\'E<i>\', ...) opens an <i> element')
            continue
          if isinstance(e, (ast.Lambda, ast.FunctionDef)):
            continue
          stack.extend(ast.iter_child_nodes(e))
  ctx.ob('C20.g', 'html-views#class-names', True, f'{n} unescaped class-name contents found', 'pyglove/core/views/html/tree_view.py:1')


def rule_h(ctx):
  """Rendering does not modify what it was given - including the options it inherits:
  utils.merge_tree(dest, src) patches dest IN PLACE at every depth, so a dest that is only a
  shallow copy (`x.copy()`, `dict(x)`) of a dict shared with other nodes still shares its
  nested dicts with them.  In the html views no merge_tree is applied to such a shallow copy
  (utils.merge works on copies).  `get_kwargs` did: a `child_config` with `extra_flags` for
  one child changed the flags of its later siblings."""
  idx = ctx.index
  n = 0
  for f in idx.all_funcs():
    if not f.module.name.startswith('pyglove.core.views.') or f.module.relpath.endswith('_test.py'):
      continue
    for c in A.calls_in(f.node):
      if (A.call_name(c) or '').split('.')[-1] != 'merge_tree' or not c.args or not isinstance(c.args[0], ast.Name):
        continue
      dest = c.args[0].id
      defs = [v for _, v in D.defs_of(f.node, dest) if v is not None]
      shallow = [v for v in defs if isinstance(v, ast.Call) and (
          ((A.call_name(v) or '').endswith('.copy') and not (A.call_name(v) or '').startswith('copy.')) or A.call_name(v) == 'dict')]
      n += 1
      ctx.ob('C20.h', f'{f.qualname}#merge-into-shallow-copy', not shallow,
             'no in-place deep merge into a shallow copy of a shared dict', f'{f.module.relpath}:{c.lineno}',
             f'`{A.unparse(c, 60)}` with `{dest} = {A.unparse(shallow[0], 40) if shallow else ""}`: the nested dicts are still the '
             f'caller\'s - child_config={{a: {{extra_flags: ...}}}} leaks into the siblings of `a`')
  ctx.ob('C20.h', 'views#merge_tree-uses', True, f'{n} merge_tree calls with a local destination examined', 'pyglove/core/views/html/tree_view.py:1')


def rule_i(ctx):
  """Every key is present in the output - as itself: the tree view addresses a child by
  KeyPath(key, root_path).  `root_path + key` PARSES a str key (C10.k), so the key 'a.b' was
  shown as `b`, 'x[0]' as `0`, and '[' made the rendering raise.  In the html views no path
  is built by adding a variable key to a path (adding a literal path string is fine)."""
  idx = ctx.index
  n = 0
  for f in idx.all_funcs():
    if not f.module.name.startswith('pyglove.core.views.html.') or f.module.relpath.endswith('_test.py'):
      continue
    for b in ast.walk(f.node):
      if isinstance(b, ast.BinOp) and isinstance(b.op, ast.Add) and isinstance(b.left, ast.Name) \
          and b.left.id in ('root_path', 'path', 'child_path', 'parent_path') and not isinstance(b.right, ast.Constant):
        n += 1
        ctx.ob('C20.i', f'{f.qualname}#path-plus-key:{A.unparse(b.right, 20)}', False,
               'a child path in the html views is KeyPath(key, root_path)', f'{f.module.relpath}:{b.lineno}',
               f'`{A.unparse(b)}` parses a str key: the key \'a.b\' is rendered as `b`, and \'[\' raises "KeyPath parse failed"')
  ctx.ob('C20.i', 'html-views#child-paths', True, f'{n} `path + key` constructions found', 'pyglove/core/views/html/tree_view.py:1')


def run(ctx):
  ctx.consult(*FILES)
  rule_f(ctx)
  rule_g(ctx)
  rule_h(ctx)
  rule_i(ctx)
  # the scope that carries the view options never writes into the enclosing scope's value
  # (C17.g, decided here for views.base.view_options: leaked child options drop keys and leaves)
  from sa.rules import c17 as _c17
  _before = len(ctx.obs)
  _c17.rule_g(ctx, _c17.context_managers(ctx.index)[0])
  kept = []
  for o in ctx.obs[_before:]:
    if 'views' in o.construct:
      o.rule = 'C20.e'
      kept.append(o)
  ctx.obs[_before:] = kept
  rule_a(ctx)
  rule_b(ctx)
  rule_c(ctx)
  rule_d(ctx)
  rule_e(ctx)
  ctx.assume('view options declared Union[str, Html] (title, tooltip content) and control '
             'fields (Label.text, Tab.label) are a markup contract, not data')
  ctx.assume('class names (type(value).__name__) are reported as information only')
