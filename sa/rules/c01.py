"""C01 — symbolic tree integrity (DESIGN §3 C01)."""
from __future__ import annotations

import ast

from sa import astutil as A
from sa import cfg as C
from sa import dataflow as D
from sa import surface as S
from sa.index import AnalysisError
from sa.rules import c08

PROP = 'C01'
EXPLANATION = (
    'Static decision of the structural clauses of C01 over the CFGs of the '
    'write primitives and mutators of pg.List/pg.Dict/pg.Object: override '
    'completeness of the builtin mutating slots, raw-write confinement, '
    'relocate-on-store (def-use), re-index after positional shifts, detach on '
    'removal, validate-before-mutate ordering, and path/parent propagation '
    'coverage.  It decides that the mechanisms are on every path; it does not '
    'execute histories.')
FLOORS = {'C01.a': 10, 'C01.b': 4, 'C01.c': 2, 'C01.d': 3, 'C01.e': 1, 'C01.h': 2,
          'C01.f': 7, 'C01.m2': 5, 'C01.g': 1, 'C01.h': 2, 'C01.i': 1}

FILES = c08.FILES

STORE_SLOTS = {'list': ('__setitem__', 'insert', 'append'), 'dict': ('__setitem__',)}
SHIFT_SLOTS = ('insert', '__delitem__', 'sort', 'reverse', 'pop', 'remove')
REMOVE_SLOTS = {'list': ('__setitem__', '__delitem__', 'clear', 'pop', 'remove'),
                'dict': ('__setitem__', '__delitem__', 'pop', 'popitem', 'clear')}

# M2: functions that may contain raw writes (discovered today, confirmed by
# reading; each then carries the per-rule obligations below).
RAW_WRITE_OWNERS = {
    S.LIST + '._set_item_without_permission_check': 'the list write primitive',
    S.LIST + '._remove_item_without_permission_check': 'the list removal primitive (callers: guarded __delitem__, '
                                                       'shrinking slice assignment)',
    S.LIST + '.clear': 'guarded clear',
    S.LIST + '.sort': 'guarded sort',
    S.LIST + '.reverse': 'guarded reverse',
    S.LIST + '._remove_missing_items': 'sweep of MISSING placeholders after rebind',
    S.DICT + '.__init__': 'constructor fill',
    S.DICT + '._set_item_without_permission_check': 'the dict write primitive',
    S.DICT + '.popitem': 'guarded popitem',
    S.DICT + '.clear': 'guarded clear',
}


def _recv_of(call):
  if isinstance(call.func, ast.Attribute):
    return A.dotted(call.func.value)
  return None


def rule_m2(ctx):
  """Raw-write confinement (who may write storage)."""
  idx = ctx.index
  raws = S.all_raw_writes(idx)
  seen_funcs = {}
  for rw in raws:
    seen_funcs.setdefault(rw.func.fq, []).append(rw)
  for fq, rws in sorted(seen_funcs.items()):
    ok = fq in RAW_WRITE_OWNERS
    ctx.ob('C01.m2', fq, ok,
           'raw writes of the builtin storage occur only in the enumerated '
           'primitives/mutators', rws[0].loc,
           'new raw storage write ' + ', '.join(f'{r.kind}.{r.slot}@{r.call.lineno}' for r in rws)
           + ' outside the confirmed owner set (bypasses relocation/detach/notification)')
  for fq in RAW_WRITE_OWNERS:
    if fq not in seen_funcs and idx.find_func(fq) is None:
      raise AnalysisError(f'raw-write owner vanished: {fq}')
  # also: any other class deriving from builtin list/dict with Symbolic in MRO
  for c in idx.all_classes():
    if c.fq in (S.LIST, S.DICT):
      continue
    mro = idx.mro(c.fq)
    if S.SYMBOLIC in mro and ('builtins.list' in mro or 'builtins.dict' in mro) \
        and S.LIST not in mro and S.DICT not in mro:
      ctx.ob('C01.m2', c.fq, False, 'only pg.List/pg.Dict combine Symbolic with a builtin container',
             c.loc, 'new symbolic builtin-container class outside the analysed surface')
  return raws


def rule_b(ctx, raws):
  idx = ctx.index
  fmt = lambda n: n in ('self._formalized_value', 'self._relocate_if_symbolic')
  for rw in raws:
    if rw.slot not in STORE_SLOTS[rw.kind]:
      continue
    args = rw.call.args[1:] if A.call_name(rw.call).split('.')[0] == rw.kind else rw.call.args
    if not args:
      continue
    stored = args[-1]
    g = C.cfg_of(rw.func.node)
    wn = [k for k in g.nodes if any(c is rw.call for c in k.calls())]
    ok = bool(wn) and all(
        D.derives_from_call_at(g, rw.func.node, w, stored, fmt) for w in wn)
    ctx.ob('C01.b', f'{rw.func.fq}#{rw.kind}.{rw.slot}', ok,
           'the value stored by the raw write derives (all definitions) from '
           '_formalized_value / _relocate_if_symbolic',
           rw.loc, f'stored expression `{A.unparse(stored)}` does not derive from the relocating helpers')
  # _formalized_value returns through _relocate_if_symbolic
  for cls_fq in (S.LIST, S.DICT):
    f = idx.lookup_method(cls_fq, '_formalized_value')
    if f is None:
      raise AnalysisError(f'{cls_fq}._formalized_value vanished')
    rets = [n for n in A.walk_local(f.node) if isinstance(n, ast.Return)]
    ok = bool(rets) and all(
        r.value is not None and D.derives_from_call(
            f.node, r.value, lambda n: n == 'self._relocate_if_symbolic') for r in rets)
    # and the relocated value is the (possibly applied) `value`
    ctx.ob('C01.b', f.fq, ok,
           'every return of _formalized_value goes through _relocate_if_symbolic',
           f.loc, 'a return bypasses _relocate_if_symbolic')
  # shape of _relocate_if_symbolic
  f = idx.func(S.SYMBOLIC + '._relocate_if_symbolic')
  g = C.cfg_of(f.node)
  problems = []
  topo_tests = [n for n in g.nodes if n.kind == 'test'
                and 'TopologyAware' in A.unparse(n.ast) and 'isinstance' in A.unparse(n.ast)]
  if not topo_tests:
    problems.append('no isinstance(value, TopologyAware) test')
  else:
    t = topo_tests[0]
    if g.can_skip(g.entry, lambda n: n is t):
      problems.append('a path to the exit skips the TopologyAware test')
    for meth, need in (('sym_setpath', ('KeyPath', 'key', 'sym_path')),
                       ('sym_setparent', ('_sym_parent_for_children',))):
      pred = lambda n, meth=meth: any(
          (A.call_name(c) or '').endswith('.' + meth) for c in n.calls())
      for m, lab in t.succ:
        if lab == 'true':
          if not pred(m) and g.can_skip(m, pred):
            problems.append(f'TopologyAware value can reach the exit without {meth}')
      calls = A.find_calls(f.node, lambda d, meth=meth: d.endswith('.' + meth))
      for c in calls:
        txt = A.unparse(c, 300)
        for w in need:
          if w not in txt:
            problems.append(f'{meth} argument no longer built from {w}')
  # clone when already parented
  clones = [n for n in ast.walk(f.node) if isinstance(n, ast.Assign)
            and A.has_call(n.value, lambda d: d.endswith('.clone'))]
  if not clones:
    problems.append('no clone of an already-parented value')
  else:
    cn = [n for n in g.nodes if n.ast is clones[0]]
    tests = [n for n in g.nodes if n.kind == 'test' and 'sym_parent is not None' in A.unparse(n.ast)]
    if not tests:
      problems.append('clone not conditioned on `sym_parent is not None`')
    else:
      # the clone must be reachable, and only through the parent test's true edge
      t = tests[0]
      blocked = {(t.id, m.id, l) for m, l in t.succ if l == 'true'}
      seen, _ = g.reach(g.entry, blocked_edges=blocked)
      if cn and cn[0].id in seen:
        problems.append('clone reachable without the parent test')
      # a parented value located elsewhere must not skip the clone: from the
      # `is not self` true edge the clone is unavoidable
      for n in g.nodes:
        if n.kind == 'test' and 'sym_parent is not self' in A.unparse(n.ast):
          for m, lab in n.succ:
            if lab == 'true' and cn and m is not cn[0]:
              if g.can_skip(m, lambda k: k is cn[0], to=topo_tests[0] if topo_tests else None):
                problems.append('value parented elsewhere can skip the clone')
  problems += relocate_identity_problems(f)
  # a parentless value is not necessarily a free one: the attribute container of an
  # object under construction has no parent to give yet, so a value already placed
  # at another key of it is recognised by its path and cloned too
  parent_none = set()
  for n in g.nodes:
    if n.kind != 'test' or not (isinstance(n.ast, ast.Compare) and len(n.ast.ops) == 1
                                and A.unparse(n.ast.comparators[0]) == 'None'
                                and A.unparse(n.ast.left).endswith('.sym_parent')):
      continue
    lab = 'true' if isinstance(n.ast.ops[0], ast.IsNot) else 'false'
    parent_none |= {(n.id, m.id, l) for m, l in n.succ if l == lab}     # assume: the value has no parent
  clone_nodes = {k.id for k in g.nodes if k.ast is not None and any(n is k.ast for n in clones)}
  seen_np, _ = g.reach(g.entry, blocked_edges=parent_none, follow_exc=False)
  path_cmp = any(isinstance(n, ast.Compare) and len(n.ops) == 1 and isinstance(n.ops[0], (ast.NotEq, ast.Eq))
                 and any(A.unparse(x).endswith('.sym_path') for x in (n.left, n.comparators[0])) for n in ast.walk(f.node))
  ctx.ob('C01.b', f.fq + '#unattached-container', bool(clone_nodes & seen_np) and path_cmp,
         'a value without a parent that already sits at another location (same object passed for two arguments '
         'of an object under construction) is cloned as well: one node never appears in two places', f.loc,
         'with `sym_parent is None` no clone is reachable: P(p=x, q=x) stores the very same node under p and q '
         '(both report path q)')
  ctx.ob('C01.b', f.fq, not problems,
         'relocation: clone when parented elsewhere, then set path = '
         'KeyPath(key, self.sym_path) and parent = _sym_parent_for_children() '
         'on every TopologyAware path', f.loc, '; '.join(problems))


def _is_reindex(idx, func, node):
  """A step that re-indexes children: a loop over sym_items/enumerate that
  calls sym_setpath, or a call to a same-class helper that does."""
  a = node.ast
  if node.kind == 'iter' and isinstance(a, ast.For):
    if A.has_call(a, lambda d: d.endswith('.sym_setpath'), local=True):
      return True
  for c in node.calls():
    d = A.call_name(c) or ''
    if d.startswith('self.') and d.count('.') == 1:
      cls = idx.enclosing_class(func)
      callee = idx.lookup_method(cls.fq, d.split('.')[1]) if cls else None
      if callee is not None and callee is not func and callee.name not in (
          '_notify_field_updates',):
        for n in ast.walk(callee.node):
          if isinstance(n, ast.For) and A.has_call(n, lambda x: x.endswith('.sym_setpath')):
            return callee.name != '_on_change' or True
  return False


def rule_c(ctx, raws):
  idx = ctx.index
  n = 0
  for rw in raws:
    if rw.kind != 'list' or rw.slot not in SHIFT_SLOTS:
      continue
    n += 1
    f = rw.func
    g = C.cfg_of(f.node)
    wn = [k for k in g.nodes if any(c is rw.call for c in k.calls())]
    if not wn:
      raise AnalysisError(f'cannot locate raw write node in {f.fq}')
    # a re-index reached through _notify_field_updates is conditional on the
    # notification flag: only count direct re-index steps
    pred = lambda k: _is_reindex(idx, f, k) and not _under_notify_flag(g, k)
    wit = None
    for w in wn:
      wit = g.can_skip(w, pred)
      if wit:
        break
    ctx.ob('C01.c', f'{f.fq}#list.{rw.slot}', wit is None,
           'a positional shift of list storage is followed on every normal '
           'path by a child re-index that does not depend on the '
           'change-notification flag', rw.loc,
           f'children keep stale indices after list.{rw.slot}: path to exit without re-index {wit}',
           wit)
    # a raw operation that runs caller-supplied code (sort: key function / comparison) can
    # raise half-way, with the storage already partly reordered: the re-index covers the
    # exceptional way out as well (it sits in a `finally` around the raw call)
    if rw.slot == 'sort':
      in_finally = any(isinstance(t, ast.Try) and any(rw.call is x for b_ in t.body for x in ast.walk(b_))
                       and any(_stmt_reindexes(idx, f, st) for st in t.finalbody) for t in ast.walk(f.node))
      ctx.ob('C01.c', f'{f.fq}#list.{rw.slot}#exceptional', in_finally,
             'a sort that raises (user key / comparison) still re-indexes the children of the partly reordered list',
             rw.loc, 'the re-index is skipped when the comparison raises: children keep the paths of their old positions')
  return n


def _stmt_reindexes(idx, func, st):
  for c in ast.walk(st):
    if isinstance(c, ast.Call):
      d = A.call_name(c) or ''
      if d.endswith('.sym_setpath'):
        return True
      if d.startswith('self.') and d.count('.') == 1:
        cls = idx.enclosing_class(func)
        callee = idx.lookup_method(cls.fq, d.split('.')[1]) if cls else None
        if callee is not None and any((A.call_name(x) or '').endswith('.sym_setpath') for x in A.calls_in(callee.node)):
          return True
  return False


def _under_notify_flag(g, node):
  """Is node control-dependent on is_change_notification_enabled()?"""
  tests = [t for t in g.nodes if t.kind == 'test'
           and 'is_change_notification_enabled' in A.unparse(t.ast)]
  for t in tests:
    blocked = {(t.id, m.id, l) for m, l in t.succ if l == 'true'}
    seen, _ = g.reach(g.entry, blocked_edges=blocked)
    if node.id not in seen:
      return True
  return False


DETACH_EXCEPTIONS = {
    S.LIST + '._on_change#list.__delitem__':
        'removes only elements that compared equal to the MISSING marker two '
        'statements earlier (placeholders, not tree nodes)',
    S.DICT + '.__init__#dict.__setitem__':
        'constructor: the key is stored into a fresh, empty dict (nothing replaced)',
}


def rule_d(ctx, raws):
  idx = ctx.index
  for rw in raws:
    if rw.slot not in REMOVE_SLOTS[rw.kind]:
      continue
    f = rw.func
    key = f'{f.fq}#{rw.kind}.{rw.slot}'
    is_sweep = rw.kind == 'list' and rw.slot == '__delitem__' and f is S.list_sweep_function(idx)
    if key in DETACH_EXCEPTIONS or is_sweep:
      if is_sweep:
        key = f'{f.fq}#{rw.kind}.{rw.slot}'
      ok = True
      if rw.slot == '__delitem__' and f is S.list_sweep_function(idx):
        # the exemption is checked, not assumed: the sweep deletes only
        # indices whose item compared equal to the MISSING marker
        ok = c08.sweeps_only_placeholders(idx, f)
      ctx.ob('C01.d', key, ok, 'exempt: ' + DETACH_EXCEPTIONS.get(key, DETACH_EXCEPTIONS[S.LIST + '._on_change#list.__delitem__']), rw.loc,
             'the sweep can delete an element that is not a MISSING placeholder without detaching it')
      continue
    g = C.cfg_of(f.node)
    wn = [k for k in g.nodes if any(c is rw.call for c in k.calls())]

    def detach_step(k):
      # direct call X.sym_setparent(None)
      for c in k.calls():
        if (A.call_name(c) or '').endswith('.sym_setparent') and c.args \
            and isinstance(c.args[0], ast.Constant) and c.args[0].value is None:
          return True
      # isinstance(X, TopologyAware) test whose true branch detaches X
      if k.kind == 'test' and 'TopologyAware' in A.unparse(k.ast):
        for m, lab in k.succ:
          if lab == 'true':
            seen, _ = g.reach(m, follow_exc=False)
            seen.add(m.id)
            for i in seen:
              for c in g.nodes[i].calls():
                if (A.call_name(c) or '').endswith('.sym_setparent') and c.args \
                    and isinstance(c.args[0], ast.Constant) and c.args[0].value is None:
                  return True
      # loop whose body detaches each element
      if k.kind == 'iter' and A.has_call(k.ast, lambda d: d.endswith('.sym_setparent')):
        return True
      return False

    bad = None
    for w in wn:
      blocked = {k.id for k in g.nodes if k.ast is not None and k is not w and detach_step(k)}
      if detach_step(w):
        continue
      seen_to, p1 = g.reach(g.entry, blocked_nodes=blocked, follow_exc=False)
      seen_from, p2 = g.reach(w, blocked_nodes=blocked, follow_exc=False)
      if w.id in seen_to and g.exit.id in seen_from:
        bad = g.witness_str(p1, w) + g.witness_str(p2, g.exit)[1:]
        break
    ctx.ob('C01.d', key, bad is None,
           'a raw removal/replacement of a stored value is accompanied by '
           'sym_setparent(None) on the old value on every path', rw.loc,
           f'{rw.kind}.{rw.slot} removes a child that still reports this container as parent; path {bad}',
           bad)
    # ... and the detached value becomes a root: every detach (sym_setparent(None)) in this
    # function is paired with a path reset of the same value (sym_setpath(KeyPath()))
    unpaired = []
    for c in A.calls_in(f.node):
      if (A.call_name(c) or '').endswith('.sym_setparent') and c.args and isinstance(c.args[0], ast.Constant) \
          and c.args[0].value is None and isinstance(c.func, ast.Attribute):
        recv = A.unparse(c.func.value)
        paired = any((A.call_name(x) or '') == f'{recv}.sym_setpath' and x.args and isinstance(x.args[0], ast.Call)
                     and (A.call_name(x.args[0]) or '').endswith('KeyPath') and not x.args[0].args
                     for x in A.calls_in(f.node))
        if not paired:
          unpaired.append(f'line {c.lineno}: `{recv}` is detached but keeps its old path')
    ctx.ob('C01.d', key + '#root-path', not unpaired,
           'a value removed from the tree becomes a root: its path is reset together with its parent', rw.loc,
           '; '.join(unpaired))


def rule_e(ctx):
  idx = ctx.index
  for cls_fq in (S.LIST, S.DICT):
    f = idx.lookup_method(cls_fq, S.PRIMITIVE)
    if f is None:
      raise AnalysisError(f'{cls_fq} primitive vanished')
    g = C.cfg_of(f.node)
    form = [n for n in g.nodes if any(A.call_name(c) == 'self._formalized_value' for c in n.calls())]
    if not form:
      raise AnalysisError(f'{f.fq} no longer calls _formalized_value')
    bad = None
    for n in g.nodes:
      if n.ast is None:
        continue
      change = None
      for c in n.calls():
        d = A.call_name(c) or ''
        if d.endswith('.sym_setparent') or d.endswith('.sym_setpath'):
          change = d
        elif c08._raw_of_call(idx, f, c):
          change = c08._raw_of_call(idx, f, c)
      if change is None or n in form:
        continue
      seen, parent = g.reach(n, follow_exc=False)
      hit = [x for x in form if x.id in seen]
      if hit:
        bad = (change, n.lineno, g.witness_str(parent, hit[0]))
        break
    ctx.ob('C01.e', f.fq, bad is None,
           'no tree-state change (raw write / sym_setparent / sym_setpath) '
           'precedes the call that can reject the new value (_formalized_value)',
           f.loc, '' if bad is None else
           f'{bad[0]} at line {bad[1]} happens before _formalized_value can reject: '
           f'a rejected write leaves the old child detached', None if bad is None else bad[2])


def _iterates_all_items(m, it):
  """The iterable is self.sym_items()/sym_values() (possibly wrapped in
  list/tuple/enumerate/reversed), or a local every definition of which is."""
  t = A.unparse(it, 300)
  if 'sym_items' in t or 'sym_values' in t:
    return True
  if isinstance(it, ast.Call) and (A.call_name(it) or '') in ('list', 'tuple', 'enumerate', 'reversed') and it.args:
    return _iterates_all_items(m, it.args[0])
  if isinstance(it, ast.Name):
    defs = [v for _, v in D.defs_of(m.node, it.id)]
    return bool(defs) and all(v is not None and not (isinstance(v, ast.Name) and v.id == it.id)
                              and _iterates_all_items(m, v) for v in defs)
  return False


def relocate_identity_problems(f):
  """"Parented elsewhere" is an identity question: containers compare by value,
  so an equal-but-different parent (original vs fresh clone) must not pass for
  self.  Shared with C07 (independence of a clone)."""
  problems = []
  cmp_self = []
  for n in ast.walk(f.node):
    if isinstance(n, ast.Compare) and len(n.ops) == 1:
      l, r = A.unparse(n.left), A.unparse(n.comparators[0])
      if (l.endswith('.sym_parent') and r == 'self') or (r.endswith('.sym_parent') and l == 'self'):
        cmp_self.append(n)
  if not cmp_self:
    problems.append('the parent of the inserted value is never compared with self')
  for n in cmp_self:
    if not isinstance(n.ops[0], (ast.Is, ast.IsNot)):
      problems.append(f'`{A.unparse(n)}` compares the parent with self by value, not identity: a node owned by an '
                      f'equal-but-different container is adopted without a copy and ends up with two owners')
  return problems


def rule_g(ctx):
  """A child is addressed by its real position: once the List primitive has
  read the item it is going to replace at position X, a negative X is
  rewritten to the real position on every path (the insert / delete branches
  are covered by the unconditional re-index of C01.c)."""
  idx = ctx.index
  f = idx.lookup_method(S.LIST, S.PRIMITIVE)
  g = C.cfg_of(f.node)
  problems = []
  reads = []
  for k in g.nodes:
    if k.ast is None:
      continue
    for c in k.calls():
      if A.call_name(c) == 'list.__getitem__' and len(c.args) == 2 and isinstance(c.args[1], ast.Name):
        reads.append((k, c.args[1].id))
  sets = [c for k in g.nodes if k.ast is not None for c in k.calls()
          if c08._raw_of_call(idx, f, c) == 'list.__setitem__']
  if not reads or not sets:
    raise AnalysisError('List primitive no longer reads/stores the replaced item with list.__getitem__/__setitem__')
  for k, var in reads:
    tests = [n for n in g.nodes if n.kind == 'test' and A.unparse(n.ast) == f'{var} < 0']
    if not tests:
      problems.append(f'a negative `{var}` is never rewritten to the real position when an item is replaced: '
                      f'the new child reports the path [{var}] (e.g. [-1])')
      continue
    w = g.can_skip(k, lambda n: n in tests)
    if w:
      problems.append(f'after the replaced item is read, a path leaves without testing `{var} < 0`: {w}')
    ok_norm = False
    for t in tests:
      for m, lab in t.succ:
        if lab == 'true' and m.ast is not None:
          d = D.node_defs(m).get(var)
          if d is not None and A.unparse(d) in (f'{var} + len(self)', f'len(self) + {var}'):
            ok_norm = True
    if not ok_norm:
      problems.append(f'`{var} < 0` does not rewrite {var} to {var} + len(self)')
    for c in sets:
      if not (isinstance(c.args[1], ast.Name) and c.args[1].id == var):
        problems.append('the item is stored at another expression than the position it was read from')
    # the path key of the new child is that same variable, taken after the read
    for n in g.nodes:
      if n.ast is None:
        continue
      for c in n.calls():
        if A.call_name(c) == 'self._formalized_value':
          if not (c.args and isinstance(c.args[0], ast.Name) and c.args[0].id == var):
            problems.append('the child path is derived from another expression than the stored position')
          else:
            seen, _ = g.reach(n, follow_exc=False)
            if k.id in seen:
              problems.append('the child path is derived before the replaced item is read / the index normalised')
  ctx.ob('C01.g', f.fq + '#position', not problems,
         'a replaced item is addressed by its real (non-negative) position, independent of change notification',
         f.loc, '; '.join(problems))


def rule_f(ctx):
  idx = ctx.index
  for cls_fq in (S.LIST, S.DICT):
    f = idx.lookup_method(cls_fq, '_update_children_paths')
    if f is None or idx.enclosing_class(f).fq != cls_fq:
      raise AnalysisError(f'{cls_fq}._update_children_paths vanished')
    problems = []
    loops = [n for n in ast.walk(f.node) if isinstance(n, ast.For)
             and A.has_call(n.iter, lambda d: d == 'self.sym_items')]
    if not loops:
      problems.append('no loop over self.sym_items()')
    else:
      lp = loops[0]
      tnames = A.assigned_names(lp.target)
      calls = A.find_calls(lp, lambda d: d.endswith('.sym_setpath'))
      good = False
      for c in calls:
        recv = _recv_of(c)
        arg = c.args[0] if c.args else None
        if (recv in tnames and isinstance(arg, ast.Call)
            and (A.call_name(arg) or '').endswith('KeyPath') and len(arg.args) == 2
            and isinstance(arg.args[0], ast.Name) and arg.args[0].id in tnames
            and arg.args[0].id != recv
            and isinstance(arg.args[1], ast.Name) and arg.args[1].id == 'new_path'):
          good = True
      if not good:
        problems.append('children are not given KeyPath(<loop key>, new_path)')
      # guarded only by the TopologyAware test
      for n in ast.walk(lp):
        if isinstance(n, ast.If) and 'TopologyAware' not in A.unparse(n.test):
          problems.append(f'extra condition on child path update: {A.unparse(n.test)}')
      if any(isinstance(n, (ast.Break, ast.Continue, ast.Return)) for n in ast.walk(lp)):
        problems.append('loop may stop early')
    ctx.ob('C01.f', f.fq, not problems,
           'every TopologyAware child is given KeyPath(key, new_path)', f.loc,
           '; '.join(problems))
  f = idx.lookup_method(S.OBJECT, '_update_children_paths')
  if f is None:
    raise AnalysisError('Object._update_children_paths vanished')
  g = C.cfg_of(f.node)
  pred = lambda n: any(A.call_name(c) == 'self._sym_attributes.sym_setpath' and c.args
                       and isinstance(c.args[0], ast.Name) and c.args[0].id == 'new_path'
                       for c in n.calls())
  wit = g.can_skip(g.entry, pred)
  ctx.ob('C01.f', f.fq, wit is None,
         'Object forwards the new path to its attribute container on every path',
         f.loc, f'path without _sym_attributes.sym_setpath(new_path): {wit}')
  # Dict.sym_setparent
  f = idx.lookup_method(S.DICT, 'sym_setparent')
  if f is None or idx.enclosing_class(f).fq != S.DICT:
    raise AnalysisError('Dict.sym_setparent vanished')
  problems = []
  g = C.cfg_of(f.node)
  if g.can_skip(g.entry, lambda n: any(A.call_name(c) == 'super().sym_setparent' for c in n.calls())):
    problems.append('base sym_setparent skipped on some path')
  tests = [n for n in g.nodes if n.kind == 'test' and '_as_object_attributes_container' in A.unparse(n.ast)]
  if not tests:
    problems.append('no _as_object_attributes_container branch')
  else:
    ok = False
    for n in ast.walk(f.node):
      if isinstance(n, ast.For) and A.has_call(n.iter, lambda d: d in ('self.sym_values', 'self.sym_items')):
        tn = A.assigned_names(n.target)
        for c in A.find_calls(n, lambda d: d.endswith('.sym_setparent')):
          if _recv_of(c) in tn and c.args and isinstance(c.args[0], ast.Name) and c.args[0].id == 'parent':
            ok = True
    if not ok:
      problems.append('children are not given the forwarded parent')
  ctx.ob('C01.f', f.fq, not problems,
         'attribute-container Dict forwards its parent to every child', f.loc,
         '; '.join(problems))
  # Symbolic.sym_setpath
  f = idx.func(S.SYMBOLIC + '.sym_setpath')
  g = C.cfg_of(f.node)
  store = [n for n in g.nodes if any(A.call_name(c) == 'self._set_raw_attr' and c.args
                                     and A.const_str(c.args[0]) == '_sym_path' for c in n.calls())]
  problems = []
  if not store:
    problems.append('_sym_path is not stored')
  else:
    wit = g.can_skip(store[0], lambda n: any(A.call_name(c) == 'self._update_children_paths' for c in n.calls()))
    if wit:
      problems.append(f'path stored without updating children: {wit}')
  ctx.ob('C01.f', f.fq, not problems,
         'storing a new path always propagates to children', f.loc, '; '.join(problems))
  # Symbolic.sym_setparent stores
  f = idx.func(S.SYMBOLIC + '.sym_setparent')
  ok = any(A.call_name(c) == 'self._set_raw_attr' and c.args and A.const_str(c.args[0]) == '_sym_parent'
           and isinstance(c.args[1], ast.Name) and c.args[1].id == 'parent'
           for c in A.calls_in(f.node))
  ctx.ob('C01.f', f.fq, ok, 'sym_setparent stores its argument', f.loc,
         '_sym_parent is not assigned from the argument')
  # Object.__init__: container parent set before _on_init
  f = idx.lookup_method(S.OBJECT, '__init__')
  g = C.cfg_of(f.node)
  oninit = [n for n in g.nodes if any(A.call_name(c) == 'self._on_init' for c in n.calls())]
  problems = []
  if not oninit:
    problems.append('_on_init call vanished')
  else:
    setp = lambda n: any(A.call_name(c) == 'self._sym_attributes.sym_setparent' and c.args
                         and isinstance(c.args[0], ast.Name) and c.args[0].id == 'self'
                         for c in n.calls())
    blocked = {n.id for n in g.nodes if n.ast is not None and setp(n)}
    seen, parent = g.reach(g.entry, blocked_nodes=blocked, follow_exc=False)
    if oninit[0].id in seen:
      problems.append('_on_init reachable before _sym_attributes.sym_setparent(self)')
  ctx.ob('C01.f', f.fq, not problems,
         'the attribute container is attached to the object before _on_init',
         f.loc, '; '.join(problems))
  # the attribute container is created at the object's own path
  f = idx.lookup_method(S.OBJECT, '__init__')
  ctor = [c for c in A.calls_in(f.node) if (A.call_name(c) or '').endswith('Dict')
          and A.kwarg(c, 'as_object_attributes_container') is not None]
  problems = []
  if len(ctor) != 1:
    problems.append(f'{len(ctor)} attribute-container constructions found')
  else:
    rp = A.kwarg(ctor[0], 'root_path')
    if not (isinstance(rp, ast.Name) and rp.id == 'root_path' and 'root_path' in A.param_names(f.node)):
      problems.append('attribute container is not created with root_path=root_path: children of an '
                      'object built at a non-root path get paths relative to the object')
    ac = A.kwarg(ctor[0], 'as_object_attributes_container')
    if not (isinstance(ac, ast.Constant) and ac.value is True):
      problems.append('as_object_attributes_container is not True')
    sup = [c for c in A.calls_in(f.node) if A.call_name(c) == 'super().__init__']
    if not sup or not (isinstance(A.kwarg(sup[0], 'root_path'), ast.Name)
                       and A.kwarg(sup[0], 'root_path').id == 'root_path'):
      problems.append('root_path is not forwarded to Symbolic.__init__')
  ctx.ob('C01.f', f.fq + '#container-path', not problems,
         'Object and its attribute container are created at the same root_path',
         f.loc, '; '.join(problems))
  # Symbolic.__init__ stores the given root path
  f = idx.func(S.SYMBOLIC + '.__init__')
  ok = any(A.call_name(c) == 'self._set_raw_attr' and len(c.args) == 2
           and A.const_str(c.args[0]) == '_sym_path' and 'root_path' in A.names_read(c.args[1])
           for c in A.calls_in(f.node)) and any(
               A.call_name(c) == 'self._set_raw_attr' and len(c.args) == 2
               and A.const_str(c.args[0]) == '_sym_parent'
               and isinstance(c.args[1], ast.Constant) and c.args[1].value is None
               for c in A.calls_in(f.node))
  ctx.ob('C01.f', f.fq, ok, 'a new node starts with parent None and path root_path',
         f.loc, '_sym_path/_sym_parent initialisation changed')
  # deserialization: children are loaded at KeyPath(<key>, root_path)
  for cls_fq in (S.LIST, S.DICT):
    f = idx.lookup_method(cls_fq, 'from_json')
    problems = []
    kp = [c for c in A.calls_in(f.node) if (A.call_name(c) or '').endswith('KeyPath')]
    if not any(len(c.args) == 2 and isinstance(c.args[0], ast.Name)
               and isinstance(c.args[1], ast.Name) and c.args[1].id == 'root_path' for c in kp):
      problems.append('children are not loaded at KeyPath(key, root_path)')
    cc = [c for c in A.calls_in(f.node) if A.call_name(c) == 'cls']
    if not cc or not (isinstance(A.kwarg(cc[0], 'root_path'), ast.Name)
                      and A.kwarg(cc[0], 'root_path').id == 'root_path'):
      problems.append('the container itself is not created at root_path')
    ctx.ob('C01.f', f.fq, not problems,
           'from_json creates the container at root_path and each child at KeyPath(key, root_path)',
           f.loc, '; '.join(problems))
  # every loop that propagates paths/parents visits all items
  for cls_fq in (S.LIST, S.DICT, S.OBJECT, S.SYMBOLIC):
    c = idx.cls(cls_fq)
    for m in c.methods.values():
      for lp in [n for n in ast.walk(m.node) if isinstance(n, ast.For)]:
        if not A.has_call(lp, lambda d: d.endswith('.sym_setpath') or d.endswith('.sym_setparent')):
          continue
        problems = []
        for n in ast.walk(lp):
          if isinstance(n, (ast.Break, ast.Return)):
            problems.append(f'early stop at line {n.lineno}')
          if isinstance(n, ast.If):
            t = A.unparse(n.test, 200)
            conts = [x for x in n.body + n.orelse if isinstance(x, ast.Continue)]
            allowed = ('TopologyAware' in t or 'Symbolic' in t
                       or (m.name in ('_on_change', S.list_sweep_function(idx).name) and t.replace(' ', '') in (
                           'item.sym_path.key!=idx',)))
            if not allowed and (conts or A.has_call(n, lambda d: d.endswith('.sym_setpath') or d.endswith('.sym_setparent'))):
              problems.append(f'propagation conditioned on `{t}`')
            if m.name in ('_on_change', S.list_sweep_function(idx).name) and 'sym_path.key' in t and 'TopologyAware' in t and 'and' in t:
              pass
        if not _iterates_all_items(m, lp.iter):
          problems.append(f'iterates `{A.unparse(lp.iter)}` instead of the symbolic items')
        ctx.ob('C01.f', f'{m.fq}#loop@{A.unparse(lp.target)}', not problems,
               'a loop that propagates path/parent to children visits every '
               'symbolic item (no early stop, no extra condition)',
               f'{m.module.relpath}:{lp.lineno}', '; '.join(problems))
  # _sym_parent_for_children
  f = idx.lookup_method(S.DICT, '_sym_parent_for_children')
  problems = []
  rets = [A.unparse(n.value) for n in ast.walk(f.node) if isinstance(n, ast.Return)]
  if sorted(rets) != ['self', 'self.sym_parent']:
    problems.append(f'returns {rets}')
  ctx.ob('C01.f', f.fq, not problems,
         'children of an attribute container are parented to the object, '
         'children of a plain Dict to the Dict', f.loc, '; '.join(problems))


def rule_h(ctx):
  """The default object held by a schema never becomes a node of an instance's
  tree: wherever a field's default is taken as the value to store, it is copied
  first (as Schema.apply does at construction).  Otherwise the first instance
  that resets the field adopts the class-level default itself, and a later
  mutation of that child changes the default of every future instance."""
  idx = ctx.index
  n = 0
  COPIERS = ('copy.deepcopy', 'deepcopy')
  for q in ('pyglove.core.typing.class_schema.Schema.apply', 'pyglove.core.typing.value_specs.ValueSpecBase.apply',
            S.DICT + '._formalized_value', S.LIST + '._formalized_value', S.OBJECT + '._formalized_value'):
    f = idx.find_func(q)
    if f is None:
      continue
    bad = []
    reads = 0
    for st in A.walk_local(f.node):
      if not isinstance(st, (ast.Assign, ast.Return)) or st.value is None:
        continue
      v = st.value
      dfl = [x for x in ast.walk(v) if isinstance(x, ast.Attribute) and x.attr in ('default_value', 'default')
             and isinstance(x.ctx, ast.Load)]
      if not dfl:
        continue
      for x in dfl:
        reads += 1
        # the default must sit inside a copying call within this value expression
        copied = any(isinstance(c, ast.Call) and ((A.call_name(c) or '') in COPIERS or
                                                  (isinstance(c.func, ast.Attribute) and c.func.attr in ('clone', 'sym_clone')))
                     and any(y is x for y in ast.walk(c)) for c in ast.walk(v))
        if not copied:
          bad.append(f'line {st.lineno}: `{A.unparse(st, 70)}` takes the schema\'s default object itself')
    if reads:
      n += 1
      ctx.ob('C01.h', f.fq, not bad,
             'a schema default is copied before it is stored: the default object of the class is never a child of an instance',
             f.loc, '; '.join(bad))
  if n < 2:
    raise AnalysisError(f'only {n} functions take a field default as the value to store')


def rule_i(ctx):
  """An insertion never replaces anything, so inserting a value that is already an
  item of this list is a second placement of one node.  _relocate_if_symbolic
  cannot see it when the insert position equals the item's current position
  (same parent, same path): the List primitive clones such a value itself."""
  idx = ctx.index
  f = idx.lookup_method(S.LIST, S.PRIMITIVE)
  g = C.cfg_of(f.node)
  ins = [k for k in g.nodes if k.kind == 'test' and isinstance(k.ast, ast.Call) and A.call_name(k.ast) == 'isinstance'
         and len(k.ast.args) == 2 and A.unparse(k.ast.args[1]).endswith('Insertion')]
  problems = []
  if not ins:
    problems.append('Insertion branch not found')
  else:
    ok = False
    for m, lab in ins[0].succ:
      if lab != 'true':
        continue
      seen, _ = g.reach(m, follow_exc=False)
      seen.add(m.id)
      tests = [g.nodes[i] for i in seen if g.nodes[i].kind == 'test' and isinstance(g.nodes[i].ast, ast.Compare)
               and isinstance(g.nodes[i].ast.ops[0], ast.Is) and A.unparse(g.nodes[i].ast.left).endswith('.sym_parent')
               and A.unparse(g.nodes[i].ast.comparators[0]) == 'self']
      for t in tests:
        for m2, l2 in t.succ:
          if l2 == 'true' and m2.kind == 'stmt' and A.has_call(m2.ast, lambda d: d.endswith('.clone')):
            ok = True
    if not ok:
      problems.append('an item of this list that is inserted again is not copied')
  ctx.ob('C01.i', f.fq + '#insert-own-item', not problems,
         'an item of the list that is inserted again (Insertion) is stored as a copy', f.loc,
         '; '.join(problems) + ': l.insert(i, l[i]) stores one node at two positions')


def run(ctx):
  ctx.consult(*FILES, 'pyglove/core/typing/class_schema.py', 'pyglove/core/typing/value_specs.py')
  c08.rule_a(ctx, 'C01.a')
  raws = rule_m2(ctx)
  rule_b(ctx, raws)
  rule_c(ctx, raws)
  rule_d(ctx, raws)
  rule_e(ctx)
  rule_f(ctx)
  rule_g(ctx)
  rule_h(ctx)
  rule_i(ctx)
  ctx.note(f'{len(raws)} raw storage writes in {len({r.func.fq for r in raws})} functions')
  ctx.assume('aliasing through user subclasses outside the repository is out of scope')
