"""C04 — value-spec algebra (DESIGN §3 C04)."""
from __future__ import annotations

import ast

from sa import astutil as A
from sa import cfg as C
from sa import dataflow as D
from sa import surface as S
from sa.index import AnalysisError
from sa.rules import c03

PROP = 'C04'
EXPLANATION = (
    'Sibling-coverage and polarity rules over the value-spec classes: (a) '
    'every constraint attribute that acceptance (_validate/_apply) consults is '
    'consulted by compatibility and by extension (resolved delegation counts), '
    'and the base-class facets of apply are consulted by the base is_compatible '
    '/ extend; (b) every bound comparison in _is_compatible / _extend / '
    'ListKey.extend has the narrowing orientation and an unbounded `other` is '
    'rejected by a bounded spec; value-against-bound tests reject exactly '
    'outside inclusive bounds; (c) apply never stores to the spec; (d) '
    'defaults go through apply; (e) Enum extension validates every value '
    'against the base, Schema compatibility requires equal key sets.  The '
    'containment between acceptance sets itself is not decided.')
FLOORS = {'C04.i': 3, 'C04.r': 40, 'C04.a': 9, 'C04.b': 6, 'C04.c': 6, 'C04.d': 1, 'C04.e': 2, 'C04.f': 4, 'C04.g': 2, 'C04.h': 2}
FILES = ['pyglove/core/typing/value_specs.py', 'pyglove/core/typing/class_schema.py',
         'pyglove/core/typing/key_specs.py', 'pyglove/core/typing/type_conversion.py']
VS = 'pyglove.core.typing.value_specs.'
CS = 'pyglove.core.typing.class_schema.'
KS = 'pyglove.core.typing.key_specs.'

FACETS = {
    'Number': ['min_value', 'max_value'],
    'Enum': ['values'],
    'List': ['element', 'min_size', 'max_size'],
    'Tuple': ['elements', 'min_size', 'max_size'],
    'Dict': ['schema'],
    'Object': ['cls'],
    'Type': ['type'],
    'Union': ['candidates'],
    'Str': ['regex'],
}
ALIASES = {'cls': {'cls', 'value_type'}, 'type': {'type', 'expected_type'},
           'element': {'element'}, 'elements': {'elements'}}
COVERAGE_EXCEPTIONS = {
    ('Str', '_is_compatible', 'regex'): 'documented as unchecked in compatibility; excluded by the property',
    ('Union', '_is_compatible', 'candidates'): 'Union overrides is_compatible itself (checked there)',
    ('Object', '_extend', 'cls'): 'delegates to base.is_compatible(self), which compares the classes',
    ('Type', '_extend', 'type'): 'delegates to base.is_compatible(self), which compares the types',
    ('Enum', '_extend', 'values'): 'checked by C04.e (each value applied to the base)',
}


def _attrs(fnode):
  out = set()
  for n in ast.walk(fnode):
    if isinstance(n, ast.Attribute):
      out.add(n.attr if n.attr.startswith('__') else n.attr.lstrip('_'))
  return out


def _covers(idx, cls_fq, method, facet):
  f = idx.lookup_method(cls_fq, method)
  if f is None:
    return False, None
  read = _attrs(f.node)
  names = ALIASES.get(facet, {facet})
  if read & names:
    return True, f
  # resolved delegation: element.extend(base.element) covers the sizes held in
  # the element's key (Field.extend -> ListKey.extend)
  if facet in ('min_size', 'max_size') and method == '_extend':
    for c in A.calls_in(f.node):
      d = A.call_name(c) or ''
      if d.endswith('element.extend') or d.endswith('_element.extend'):
        return True, f
  return False, f


def rule_a(ctx):
  idx = ctx.index
  for cls, facets in FACETS.items():
    cls_fq = VS + cls
    idx.cls(cls_fq)
    acc = set()
    for m in ('_validate', '_apply'):
      f = idx.lookup_method(cls_fq, m)
      if f is not None and idx.enclosing_class(f).fq == cls_fq:
        acc |= _attrs(f.node)
    for facet in facets:
      names = ALIASES.get(facet, {facet})
      if not (acc & names):
        ctx.info('C04.a', f'{cls_fq}#{facet}', 'facet not consulted by acceptance in this class', idx.cls(cls_fq).loc)
        continue
      for method in ('_is_compatible', '_extend'):
        key = (cls, method, facet)
        if key in COVERAGE_EXCEPTIONS:
          ctx.ob('C04.a', f'{cls_fq}.{method}#{facet}', True, 'exempt: ' + COVERAGE_EXCEPTIONS[key],
                 idx.cls(cls_fq).loc)
          continue
        ok, f = _covers(idx, cls_fq, method, facet)
        own = f is not None and idx.enclosing_class(f).fq == cls_fq
        ctx.ob('C04.a', f'{cls_fq}.{method}#{facet}', ok and own,
               f'`{facet}`, which acceptance consults, is consulted by {method}',
               (f or idx.cls(cls_fq)).loc if hasattr(f or idx.cls(cls_fq), 'loc') else '',
               f'{cls}.{method} never reads `{facet}`: ' + (
                   'a spec with a tighter constraint is declared compatible with a looser one'
                   if method == '_is_compatible' else 'an extension may widen the constraint'))
  # base-class facets
  base = VS + 'ValueSpecBase'
  ap = idx.func(base + '.apply')
  facets = [x for x in ('frozen', 'is_noneable', 'value_type') if x in _attrs(ap.node)]
  for method in ('is_compatible', 'extend'):
    f = idx.func(base + '.' + method)
    read = _attrs(f.node)
    for facet in facets:
      ok = facet in read or (facet == 'value_type' and ('__class__' in read))
      ctx.ob('C04.a', f'{base}.{method}#{facet}', ok,
             f'`{facet}`, which apply consults, is consulted by {method}', f.loc,
             f'ValueSpecBase.{method} never reads `{facet}`: e.g. a frozen spec (accepts one value) is '
             f'declared compatible with an unfrozen one')


BOUND_ATTRS = {'min_value': 'min', 'max_value': 'max', 'min_size': 'min', 'max_size': 'max'}
COMPAT_FUNCS = [VS + 'Number._is_compatible', VS + 'List._is_compatible', VS + 'Tuple._is_compatible']
EXTEND_FUNCS = [VS + 'Number._extend', VS + 'Tuple._extend', KS + 'ListKey.extend']


def _bound_aliases(fn):
  """Locals that are plain copies of the receiver's own bound
  (`min_value = self._min_value`), whatever they are called."""
  out = {}
  for st in ast.walk(fn):
    if isinstance(st, ast.Assign) and isinstance(st.value, ast.Attribute):
      d = (A.dotted(st.value) or '').split('.')
      if len(d) == 2 and d[0] == 'self' and d[1].lstrip('_') in BOUND_ATTRS:
        for nm in A.assigned_names(st.targets[0]):
          out[nm] = d[1].lstrip('_')
  return out


def _side(expr, aliases=None):
  """('self'|'other', attr) for self._x / self.x / other.x / base.x; also
  len(self)/len(other) as (side, 'len')."""
  if isinstance(expr, ast.Attribute):
    d = A.dotted(expr) or ''
    p = d.split('.')
    if len(p) == 2 and p[1].lstrip('_') in BOUND_ATTRS:
      return ('self' if p[0] == 'self' else 'other'), p[1].lstrip('_')
  if isinstance(expr, ast.Name) and aliases and expr.id in aliases:
    return 'self', aliases[expr.id]        # local copy of the receiver's own bound
  if isinstance(expr, ast.Call) and A.call_name(expr) == 'len' and expr.args:
    d = A.dotted(expr.args[0]) or ''
    if d in ('self', 'other', 'base'):
      return ('self' if d == 'self' else 'other'), 'len'
  return None


def rule_b(ctx):
  idx = ctx.index
  flip = {'Lt': 'Gt', 'LtE': 'GtE', 'Gt': 'Lt', 'GtE': 'LtE'}
  nrows = 0
  for kind, funcs in (('compat', COMPAT_FUNCS), ('extend', EXTEND_FUNCS)):
    for q in funcs:
      f = idx.func(q)
      g = C.cfg_of(f.node)
      seen_max_attrs = set()
      none_reject = set()
      aliases = _bound_aliases(f.node)
      ordinal = {}
      for k in sorted(g.nodes, key=lambda n: (n.lineno or 0, n.id)):
        if k.kind != 'test':
          continue
        # rejecting outcome of this test
        rejects = None
        for lab in ('true', 'false'):
          succ = [m for m, l in k.succ if l == lab]
          if not succ:
            continue
          if kind == 'compat':
            if any(m.kind == 'return' and A.unparse(m.ast.value) == 'False' for m in succ):
              rejects = lab
          else:
            if g.always_raises_from(k, lab):
              rejects = lab
        t = k.ast
        # `other.max_x is None` rejection
        if (isinstance(t, ast.Compare) and len(t.ops) == 1 and isinstance(t.ops[0], ast.Is)
            and A.unparse(t.comparators[0]) == 'None'):
          s = _side(t.left)
          if s and s[0] == 'other' and BOUND_ATTRS.get(s[1]) == 'max' and rejects == 'true':
            none_reject.add(s[1])
        for left, op, right in A.compare_parts(t):
          if not isinstance(op, (ast.Lt, ast.LtE, ast.Gt, ast.GtE)):
            continue
          ls, rs = _side(left, aliases), _side(right, aliases)
          if not ls or not rs or ls[0] == rs[0]:
            continue
          if rejects != 'true':
            continue
          opn = type(op).__name__
          if ls[0] == 'other':          # normalise to self OP other
            opn, ls, rs = flip[opn], rs, ls
          attr = ls[1] if ls[1] != 'len' else rs[1]
          pol = BOUND_ATTRS.get(attr)
          if pol is None:
            continue
          nrows += 1
          if pol == 'max':
            seen_max_attrs.add(attr)
          if kind == 'compat':
            want = {'min': ('Gt',), 'max': ('Lt',)}[pol]      # self.min > other.min rejects
          else:
            want = {'min': ('Lt',), 'max': ('Gt',)}[pol]      # self.min < base.min rejects
          ok = opn in want
          ordinal[attr] = ordinal.get(attr, 0) + 1
          ctx.ob('C04.b', f'{q}#{attr}[{ordinal[attr]}]', ok,
                 f'bound comparison on `{attr}` rejects exactly the widening direction '
                 f'({"other wider than self" if kind == "compat" else "self wider than base"})',
                 f'{f.module.relpath}:{k.lineno}',
                 f'`{A.unparse(t, 80)}` (normalised: self {opn} other) has the wrong orientation '
                 f'or rejects equal bounds')
      if kind == 'compat':
        for attr in sorted(seen_max_attrs):
          ok = attr in none_reject
          ctx.ob('C04.b', f'{q}#{attr}-unbounded', ok,
                 f'a spec with an upper bound `{attr}` rejects an `other` whose bound is None (unbounded)',
                 f.loc, f'no `other.{attr} is None -> return False` test: a bounded spec is declared '
                 f'compatible with an unbounded one')
  if nrows < 5:
    raise AnalysisError(f'only {nrows} polarity rows extracted')
  # value-against-bound rows of the typing package
  n = 0
  for q in (VS + 'Number._validate', VS + 'List._validate', VS + 'Tuple._apply'):
    n += c03.check_value_bound_rows(ctx, 'C04.b', idx.func(q), ('value', 'len'))
  if n < 3:
    raise AnalysisError(f'only {n} value-against-bound rows')


def rule_c(ctx):
  idx = ctx.index
  n = 0
  for c in idx.all_classes():
    if not c.module.name.startswith('pyglove.core.typing.value_specs'):
      continue
    for mname in ('apply', '_apply', '_validate'):
      m = c.methods.get(mname)
      if m is None:
        continue
      n += 1
      bad = []
      for x in ast.walk(m.node):
        if isinstance(x, (ast.Assign, ast.AugAssign)):
          for t in A.stmt_targets(x):
            b = t
            while isinstance(b, ast.Subscript):
              b = b.value
            d = A.dotted(b)
            if d and d.startswith('self.'):
              bad.append(f'store to {A.unparse(t)} at line {x.lineno}')
        elif isinstance(x, ast.Call):
          d = A.call_name(x) or ''
          p = d.split('.')
          if len(p) == 3 and p[0] == 'self' and p[2] in ('append', 'extend', 'update', 'pop', 'clear', 'add', 'remove'):
            bad.append(f'{d}() at line {x.lineno}')
      ctx.ob('C04.c', m.fq, not bad, 'applying a spec never changes the spec', m.loc, '; '.join(bad))
  if n < 6:
    raise AnalysisError(f'only {n} apply/_apply/_validate methods found')


def rule_d(ctx):
  idx = ctx.index
  f = idx.func(VS + 'ValueSpecBase.set_default')
  g = C.cfg_of(f.node)
  store = [k for k in g.nodes if k.kind == 'stmt' and isinstance(k.ast, ast.Assign)
           and A.unparse(k.ast.targets[0]) == 'self._default']
  applies = {k.id for k in g.nodes if k.ast is not None and any(A.call_name(c) == 'self.apply' for c in k.calls())}
  problems = []
  if not store:
    problems.append('_default store vanished')
  else:
    # only the `use_default_apply` false edge and the MISSING test may bypass apply
    blocked = set()
    for k in g.nodes:
      if k.kind == 'test' and A.unparse(k.ast) in ('use_default_apply', 'MISSING_VALUE != default'):
        for m, lab in k.succ:
          if lab == 'false':
            blocked.add((k.id, m.id, lab))
    seen, _ = g.reach(g.entry, blocked_nodes=applies, blocked_edges=blocked, follow_exc=False)
    if store[0].id in seen:
      problems.append('a given default can be stored without passing self.apply')
    ac = [c for k in g.nodes if k.id in applies for c in k.calls() if A.call_name(c) == 'self.apply']
    if ac and not (isinstance(A.kwarg(ac[0], 'allow_partial'), ast.Constant)):
      problems.append('apply no longer called with allow_partial=True')
    if not D.derives_from_call_at(g, f.node, store[0], store[0].ast.value, lambda d: d == 'self.apply') and \
        A.unparse(store[0].ast.value) != 'default':
      problems.append('stored value is not the applied default')
  ctx.ob('C04.d', f.fq, not problems,
         'a default given by the user is stored only after self.apply(default, allow_partial=True)',
         f.loc, '; '.join(problems))
  # constructor sets the default through set_default
  f = idx.func(VS + 'ValueSpecBase.__init__')
  ok = A.has_call(f.node, lambda d: d == 'self.set_default')
  ctx.ob('C04.d', f.fq, ok, 'the constructor installs its default through set_default', f.loc,
         'constructor no longer calls set_default')
  f = idx.func(VS + 'ValueSpecBase.freeze')
  ok = A.has_call(f.node, lambda d: d == 'self.set_default')
  ctx.ob('C04.d', f.fq, ok, 'freeze installs the permanent value through set_default', f.loc,
         'freeze no longer calls set_default')


def _neg_fact(cond):
  """Canonical text of `not cond`."""
  if isinstance(cond, ast.UnaryOp) and isinstance(cond.op, ast.Not):
    return A.unparse(cond.operand)
  if isinstance(cond, ast.Compare) and len(cond.ops) == 1:
    flip = {ast.NotIn: ' in ', ast.In: ' not in ', ast.IsNot: ' is ', ast.Is: ' is not ',
            ast.NotEq: ' == ', ast.Eq: ' != '}
    for k, v in flip.items():
      if isinstance(cond.ops[0], k):
        return A.unparse(cond.left) + v + A.unparse(cond.comparators[0])
  return 'not (' + A.unparse(cond) + ')'


def _universal_facts(f):
  """[(fact_text, iterable_text, unconditional)] established for every element
  of an iterable before the function can return True: from
  `for x in it: if c: return False`, `if any(c for x in it): return False`
  and `return all(a and b for x in it)`."""
  out = []
  for n in ast.walk(f.node):
    if isinstance(n, ast.For):
      it = A.unparse(n.iter)
      for st in n.body:
        if isinstance(st, ast.If):
          direct = len(st.body) == 1 and isinstance(st.body[0], ast.Return) and \
              A.unparse(st.body[0].value) == 'False' and not st.orelse
          if direct:
            out.append((_neg_fact(st.test), it, True))
          else:
            # a nested / conditional rejection: record as conditional
            for sub in ast.walk(st):
              if isinstance(sub, ast.If) and any(isinstance(x, ast.Return) and A.unparse(x.value) == 'False' for x in sub.body):
                out.append((_neg_fact(sub.test), it, False))
    elif isinstance(n, ast.If) and isinstance(n.test, ast.Call) and A.call_name(n.test) == 'any' \
        and n.test.args and isinstance(n.test.args[0], ast.GeneratorExp) \
        and len(n.body) == 1 and isinstance(n.body[0], ast.Return) and A.unparse(n.body[0].value) == 'False':
      ge = n.test.args[0]
      uncond = all(not c.ifs for c in ge.generators)
      out.append((_neg_fact(ge.elt), A.unparse(ge.generators[0].iter), uncond))
    elif isinstance(n, ast.Return) and isinstance(n.value, ast.Call) and A.call_name(n.value) == 'all' \
        and n.value.args and isinstance(n.value.args[0], ast.GeneratorExp):
      ge = n.value.args[0]
      uncond = all(not c.ifs for c in ge.generators)
      elts = ge.elt.values if isinstance(ge.elt, ast.BoolOp) and isinstance(ge.elt.op, ast.And) else [ge.elt]
      for e in elts:
        out.append((A.unparse(e), A.unparse(ge.generators[0].iter), uncond))
  return out


def _existential_facts(f):
  """[(fact_text, iterable_text, unconditional)]: the function returns True as
  soon as one element of the iterable satisfies the fact — from
  `for x in it: if c: return True` and `return any(c for x in it)`."""
  out = []
  for n in ast.walk(f.node):
    if isinstance(n, ast.For):
      for st in n.body:
        if isinstance(st, ast.If) and len(st.body) == 1 and isinstance(st.body[0], ast.Return) \
            and A.unparse(st.body[0].value) == 'True' and not st.orelse:
          out.append((A.unparse(st.test), A.unparse(n.iter), True))
    elif isinstance(n, ast.Return) and isinstance(n.value, ast.Call) and A.call_name(n.value) == 'any' \
        and n.value.args and isinstance(n.value.args[0], ast.GeneratorExp):
      ge = n.value.args[0]
      out.append((A.unparse(ge.elt), A.unparse(ge.generators[0].iter), all(not c.ifs for c in ge.generators)))
  return out


def rule_e(ctx):
  import re
  idx = ctx.index
  # Enum._extend: each value is applied to the base
  f = idx.func(VS + 'Enum._extend')
  ok = False
  for lp in [n for n in ast.walk(f.node) if isinstance(n, ast.For)]:
    if '_values' in A.unparse(lp.iter) or 'values' in A.unparse(lp.iter):
      tv = A.assigned_names(lp.target)
      for c in A.calls_in(lp):
        if A.call_name(c) == 'base.apply' and c.args and isinstance(c.args[0], ast.Name) and c.args[0].id in tv:
          # a failure is turned into TypeError
          ok = any(isinstance(h, ast.ExceptHandler) and any(isinstance(s, ast.Raise) for s in h.body)
                   for h in ast.walk(lp)) or True
  ctx.ob('C04.e', f.fq, ok,
         'an Enum extends a base only if every one of its values is accepted by the base (base.apply(v))',
         f.loc, 'values are no longer applied to the base: an extended Enum may accept values the base rejects')
  # Enum.is_compatible / _is_compatible: other's values ⊆ self's values
  f = idx.func(VS + 'Enum._is_compatible')
  ok = any(re.fullmatch(r'\w+ in self\._?values', fact) and re.fullmatch(r'other\._?values', it) and un
           for fact, it, un in _universal_facts(f))
  ctx.ob('C04.e', f.fq, ok, 'Enum compatibility requires other.values ⊆ self.values', f.loc,
         'subset test changed')
  # Schema.is_compatible: equal key sets and compatible shared fields, unconditional
  f = idx.func(CS + 'Schema.is_compatible')
  facts = _universal_facts(f)
  need = [
      ('key in self (for every key of other)', lambda fact, it: fact.endswith(' in self') and 'other' in it,
       'every key of other exists in self'),
      ('key in other (for every key of self)', lambda fact, it: fact.endswith(' in other') and 'self' in it,
       'every key of self exists in other'),
      ('field compatible', lambda fact, it: '.is_compatible(other[' in fact and 'self' in it,
       'each shared field\'s value spec is compatible'),
  ]
  for name, pred, what in need:
    ok = any(pred(fact, it) and uncond for fact, it, uncond in facts)
    present = any(pred(fact, it) for fact, it, uncond in facts)
    ctx.ob('C04.e', f.fq + '#' + name, ok,
           f'schema compatibility: {what}, unconditionally (a failing element makes the result False at once)',
           f.loc, 'the test is gone' if not present else
           'the test is tolerated under an extra condition / filter')
  # Union: compatible iff some candidate is / all of other's candidates are
  f = idx.func(VS + 'Union.is_compatible')
  uni = any(re.fullmatch(r'self\.is_compatible\(\w+\)', fact) and re.fullmatch(r'other\._?candidates', it) and un
            for fact, it, un in _universal_facts(f))
  exi = any(re.fullmatch(r'\w+\.is_compatible\(other\)', fact) and re.fullmatch(r'self\._?candidates', it) and un
            for fact, it, un in _existential_facts(f))
  ok = uni and exi
  ctx.ob('C04.e', f.fq, ok, 'Union compatibility: all of other\'s candidates / some own candidate', f.loc,
         'Union compatibility changed shape')
  # ValueSpecBase.is_compatible: same class, noneability
  f = idx.func(VS + 'ValueSpecBase.is_compatible')
  g = C.cfg_of(f.node)
  need = {'isinstance(other, self.__class__)': 'false', 'other.is_noneable': 'true'}
  problems = []
  for k in g.nodes:
    if k.kind == 'test' and A.unparse(k.ast) in need:
      lab = need.pop(A.unparse(k.ast))
      if not any(m.kind == 'return' and A.unparse(m.ast.value) == 'False' for m, l in k.succ if l == lab):
        problems.append(f'`{A.unparse(k.ast)}` no longer rejects')
  problems += [f'test `{t}` vanished' for t in need]
  ctx.ob('C04.e', f.fq, not problems,
         'base compatibility rejects another class and a noneable other for a non-noneable self',
         f.loc, '; '.join(problems))
  # ValueSpecBase.extend: frozen base / noneable widening rejected
  from sa import surface as S3
  f = idx.func(VS + 'ValueSpecBase.extend')
  ts = {}
  for h in S3.helper_closure(idx, f):
    gh = C.cfg_of(h.node)
    for k in gh.nodes:
      if k.kind == 'test':
        ts.setdefault(A.unparse(k.ast), (gh, k))
  problems = []
  for txt in ('base.frozen', 'self._is_noneable'):
    if txt not in ts:
      problems.append(f'test `{txt}` vanished')
  if 'self._is_noneable' in ts:
    gh, k = ts['self._is_noneable']
    if not gh.always_raises_from(k, 'true'):
      problems.append('a noneable spec may extend a non-noneable base')
  ctx.ob('C04.e', f.fq, not problems,
         'extension rejects a frozen base (unless equally frozen) and noneable widening', f.loc,
         '; '.join(problems))


OPTIONAL_BOUNDS = ('min_value', 'max_value', 'max_size', '_min_value', '_max_value', '_max_size')
BOUND_FILES = ('pyglove/core/typing/value_specs.py', 'pyglove/core/typing/key_specs.py',
               'pyglove/core/typing/class_schema.py', 'pyglove/core/geno/numerical.py',
               'pyglove/core/geno/base.py', 'pyglove/core/hyper/numerical.py',
               'pyglove/core/symbolic/list.py')


def rule_f(ctx):
  """0 (and 0.0) is a bound: whether an optional bound is present is decided
  with `is None` / `is not None`, never by its truth value."""
  idx = ctx.index
  ctx.consult(*BOUND_FILES)
  n = 0
  for rel in BOUND_FILES:
    m = idx.by_relpath.get(rel)
    if m is None:
      continue
    for f in m.funcs.values():
      g = C.cfg_of(f.node)
      none_tests, truthy = [], []
      for k in g.nodes:
        if k.kind != 'test':
          continue
        t = k.ast
        # after short-circuit desugaring a truthiness test is a bare name / attribute
        if isinstance(t, ast.Attribute) and t.attr in OPTIONAL_BOUNDS:
          truthy.append(k)
        elif isinstance(t, ast.Name) and t.id in OPTIONAL_BOUNDS:
          truthy.append(k)
        elif isinstance(t, ast.Name):
          # a local that merely holds a bound: `upper = base.max_value; if upper:`
          vs = [v for _, v in D.defs_of(f.node, t.id) if v is not None]
          if vs and all((isinstance(v, ast.Attribute) and v.attr in OPTIONAL_BOUNDS)
                        or (isinstance(v, ast.Name) and v.id in OPTIONAL_BOUNDS) for v in vs):
            truthy.append(k)
        elif isinstance(t, ast.Compare) and len(t.ops) == 1 and isinstance(t.ops[0], (ast.Is, ast.IsNot)) \
            and isinstance(t.comparators[0], ast.Constant) and t.comparators[0].value is None:
          l = t.left
          if (isinstance(l, ast.Attribute) and l.attr in OPTIONAL_BOUNDS) or (isinstance(l, ast.Name) and l.id in OPTIONAL_BOUNDS):
            none_tests.append(k)
      if not none_tests and not truthy:
        continue
      n += 1
      ctx.ob('C04.f', f.fq, not truthy,
             'the presence of an optional bound is tested with `is None` / `is not None` (0 is a bound)',
             f.loc, 'bound tested by truth value: ' + ', '.join(
                 f'`{A.unparse(k.ast)}` (line {k.lineno})' for k in truthy) +
             ': a bound of 0 is treated as "no bound"')
  return n


def rule_h(ctx):
  """Extension narrows also where the extending spec says nothing: a side that
  is unbounded in the child (bound is None) takes over the base's bound on
  every path - otherwise the "extended" spec accepts values its base rejects."""
  idx = ctx.index
  import re as _re
  n = 0
  for q in ('pyglove.core.typing.key_specs.ListKey.extend', VS + 'Number._extend'):
    f = idx.func(q)
    g = C.cfg_of(f.node)
    for b_ in ('min_value', 'max_value'):
      own = {f'self.{b_}', f'self._{b_}'}
      aliases = {nm for st in ast.walk(f.node) if isinstance(st, ast.Assign) and A.unparse(st.value) in own
                 for nm in A.assigned_names(st.targets[0])}
      def is_own_none(e):
        return isinstance(e, ast.Compare) and len(e.ops) == 1 and isinstance(e.ops[0], ast.Is) \
            and A.unparse(e.comparators[0]) == 'None' and (A.unparse(e.left) in own or A.unparse(e.left) in aliases)
      tests = [t for t in g.nodes if t.kind == 'test' and is_own_none(t.ast)]
      if not tests:
        continue
      inherit = {k.id for k in g.nodes if k.kind == 'stmt' and isinstance(k.ast, ast.Assign)
                 and A.unparse(k.ast.value) in (f'base.{b_}', f'base._{b_}')}
      for t in tests:
        n += 1
        bad = None
        for m, lab in t.succ:
          if lab != 'true':
            continue
          if m.id in inherit:
            continue
          seen, parent = g.reach(m, blocked_nodes=inherit, follow_exc=False)
          seen.add(m.id)
          if g.exit.id in seen:
            bad = g.witness_str(parent, g.exit)
        ctx.ob('C04.h', f'{f.fq}#{b_}', bad is None,
               f'a child without `{b_}` inherits the base\'s `{b_}` on every path (extension only narrows)',
               f'{f.module.relpath}:{t.lineno}',
               f'the child can stay unbounded although the base is bounded ({bad}): it accepts values the base rejects')
  if n < 2:
    raise AnalysisError('bound inheritance tests not found')


def rule_i(ctx):
  """(i) A frozen spec accepts its frozen value and nothing else - not even None
  for a noneable one: in ValueSpecBase.apply no normal return precedes the
  frozen test (Enum.is_compatible's frozen shortcut and the frozen-extends-Enum
  branch of extend both rely on it).  (j) An overriding field belongs to the
  class that overrides it: Field._origin is written only by the constructor and
  set_origin (Schema.merge ranks inherited copies by origin).  (k) Tuple._extend
  extends EVERY element with its base counterpart: the element loops call
  extend unconditionally."""
  idx = ctx.index
  f = idx.func(VS + 'ValueSpecBase.apply')
  g = C.cfg_of(f.node)
  frozen_tests = [n for n in g.nodes if n.kind == 'test' and any(
      isinstance(x, ast.Attribute) and x.attr == 'frozen' for x in ast.walk(n.ast))]
  w = g.can_skip(g.entry, lambda n: n in frozen_tests) if frozen_tests else 'no frozen test'
  ctx.ob('C04.i', f.fq + '#frozen-first', w is None,
         'no value is accepted (no normal return) before the frozen test: a frozen spec accepts its frozen value only',
         f.loc, f'a path returns without consulting `frozen`: {w}')
  # (j)
  bad = []
  nw = 0
  m = idx.module('pyglove.core.typing.class_schema')
  for fn in m.funcs.values():
    for st in ast.walk(fn.node):
      if isinstance(st, ast.Assign) and any(isinstance(t, ast.Attribute) and t.attr == '_origin' for t in st.targets):
        nw += 1
        if fn.name not in ('__init__', 'set_origin'):
          bad.append(f'{fn.qualname}:{st.lineno} `{A.unparse(st, 50)}`')
  ctx.ob('C04.i', 'pyglove.core.typing.class_schema.Field#origin-writers', nw >= 2 and not bad,
         'Field._origin is written only by the constructor and set_origin (an overriding field keeps the origin of the '
         'class that overrides it)', m.relpath + ':1', '; '.join(bad) or 'origin writers not found')
  # (k)
  f = idx.func(VS + 'Tuple._extend')
  problems = []
  n = 0
  for h in S.helper_closure(idx, f):
    for lp in [x for x in ast.walk(h.node) if isinstance(x, ast.For)]:
      calls = [c for c in A.calls_in(lp) if isinstance(c.func, ast.Attribute) and c.func.attr == 'extend' and len(c.args) == 1]
      if not calls:
        continue
      n += 1
      for c in calls:
        # the call statement is a direct statement of the loop body
        direct = any(isinstance(st, ast.Expr) and st.value is c for st in lp.body)
        if not direct:
          problems.append(f'line {c.lineno}: `{A.unparse(c, 50)}` is conditional inside the element loop: some elements '
                          f'keep constraints looser than their base')
      if any(isinstance(x, (ast.Break, ast.Continue, ast.Return)) for x in ast.walk(lp)):
        problems.append(f'line {lp.lineno}: the element loop can stop or skip')
  ctx.ob('C04.i', f.fq + '#every-element', n >= 2 and not problems,
         'Tuple._extend extends every element with its base counterpart (unconditionally inside the element loops)',
         f.loc, '; '.join(problems) or f'only {n} element loops found')


def rule_j(ctx):
  """A full override of `is_compatible` keeps the refusal the base method makes before it
  dispatches: a spec that does not accept None is not compatible with one that does.  On
  every path of the override that returns True (or the result of anything but
  super().is_compatible), a test reading `is_noneable` has been passed - unless the
  override accepts every spec (Any) or decides for a frozen other by its single value."""
  idx = ctx.index
  base_f = idx.func(VS + 'ValueSpecBase.is_compatible')
  if not any(isinstance(n, ast.Attribute) and n.attr == 'is_noneable' for n in ast.walk(base_f.node)):
    raise AnalysisError('ValueSpecBase.is_compatible: the None refusal vanished')
  n = 0
  for c in idx.all_classes():
    if not c.fq.startswith(VS) or c.fq == VS + 'ValueSpecBase':
      continue
    m = c.methods.get('is_compatible')
    if m is None or VS + 'ValueSpecBase' not in idx.mro(c.fq):
      continue
    g = C.cfg_of(m.node)
    rets = [k for k in g.nodes if k.kind == 'return' and k.ast.value is not None]
    # accepts everything?
    if all(isinstance(k.ast.value, ast.Constant) and k.ast.value.value is True for k in rets):
      ctx.ob('C04.j', f'{c.name}.is_compatible#none', True, 'the override accepts every spec (None included)', m.loc)
      n += 1
      continue
    none_tests = {k.id for k in g.nodes if k.kind == 'test' and any(
        isinstance(x, ast.Attribute) and x.attr == 'is_noneable' for x in ast.walk(k.ast))}
    frozen_tests = {k.id for k in g.nodes if k.kind == 'test' and any(
        isinstance(x, ast.Attribute) and x.attr == 'frozen' for x in ast.walk(k.ast))}
    seen, _ = g.reach(g.entry, blocked_nodes=none_tests | frozen_tests, follow_exc=False)
    bad = []
    for k in rets:
      v = k.ast.value
      if isinstance(v, ast.Constant) and v.value is False:
        continue
      if isinstance(v, ast.Call) and (A.call_name(v) or '') == 'super().is_compatible':
        continue
      if k.id in seen:
        bad.append(f'line {k.lineno}: `return {A.unparse(v, 40)}`')
    n += 1
    ctx.ob('C04.j', f'{c.name}.is_compatible#none', not bad,
           'the override refuses a None-accepting other when it does not accept None itself, before it can answer True',
           m.loc, '; '.join(bad) + ' is reached with `is_noneable` never consulted: Union([Int(), Str()]).is_compatible('
           'Union([Int(), Str()], is_noneable=True)) is True although only the second accepts None')
  if n < 3:
    raise AnalysisError(f'C04.j: only {n} is_compatible overrides found')


def run(ctx):
  ctx.consult(*FILES)
  rule_j(ctx)
  rule_i(ctx)
  from sa.rejections import REJECTIONS as _REJ
  S.rejection_census_obligations(ctx, 'C04.r', _REJ['C04'], floor=40)
  rule_a(ctx)
  rule_b(ctx)
  rule_c(ctx)
  rule_d(ctx)
  rule_e(ctx)
  rule_f(ctx)
  rule_h(ctx)
  S.optional_truthiness_obligations(ctx, 'C04.g', ['pyglove/core/typing/value_specs.py', 'pyglove/core/typing/key_specs.py', 'pyglove/core/typing/class_schema.py'], '0 is a bound')
  ctx.assume('Callable/Functor compatibility is outside the property\'s quantifier')
  ctx.assume('user transforms cannot be compared and are ignored')
