"""C02 — List/Dict agree with Python list/dict (DESIGN §3 C02; narrow)."""
from __future__ import annotations

import ast

from sa import astutil as A
from sa import cfg as C
from sa import dataflow as D
from sa import surface as S
from sa.index import AnalysisError
from sa.rules import c08

PROP = 'C02'
EXPLANATION = (
    'Narrow structural part of C02: (a) the slice normaliser makes the '
    'defaults of a missing start/stop depend on the sign of the step; (b) '
    'dict-protocol methods do not hand plain keys to an API that parses '
    'strings as key paths; (c) int-indexed accessors range-check on both sides '
    'and raise IndexError / TypeError; (d) the write primitives pass the '
    'caller\'s index to the raw list operation unchanged and short-circuit '
    'only on identity (never on equality); (e) batched list updates are '
    'applied in descending KeyPath order; (f) every read view of a Dict (iter, '
    'keys, values, items) is derived from one key iteration that yields each '
    'stored key once; (g) sort/reverse are the builtin operations with the '
    'caller\'s arguments and batched Dict updates keep the caller\'s order.  Agreement of results with CPython '
    'over operation histories is differential by nature and not decided.')
FLOORS = {'C02.a': 1, 'C02.b': 2, 'C02.c': 2, 'C02.d': 2, 'C02.e': 1, 'C02.f': 4, 'C02.g': 2, 'C02.h': 2}
FILES = ['pyglove/core/symbolic/list.py', 'pyglove/core/symbolic/dict.py',
         'pyglove/core/symbolic/base.py']


def rule_a(ctx):
  idx = ctx.index
  f = idx.lookup_method(S.LIST, '_parse_slice')
  if f is None:
    raise AnalysisError('List._parse_slice vanished')
  problems = []
  # delegation to CPython's own normaliser: every return is <slice param>.indices(len(self))
  params = [p for p in A.param_names(f.node) if p != 'self']
  rets = [n.value for n in ast.walk(f.node) if isinstance(n, ast.Return) and n.value is not None]
  def _is_indices(e):
    return (isinstance(e, ast.Call) and isinstance(e.func, ast.Attribute) and e.func.attr == 'indices'
            and isinstance(e.func.value, ast.Name) and e.func.value.id in params
            and len(e.args) == 1 and A.unparse(e.args[0]) == 'len(self)')
  if rets and all(_is_indices(r) for r in rets):
    ctx.ob('C02.a', f.fq, True,
           'the defaults of a missing slice start/stop depend on the sign of the step (as in Python)', f.loc)
    # users of the triple must not re-derive a size from (stop - start) with the sign lost
    return
  for var in ('start', 'stop'):
    defs = [v for _, v in D.defs_of(f.node, var) if v is not None]
    dflt = [v for v in defs if isinstance(v, ast.IfExp) and f'index.{var} is not None' in A.unparse(v.test)]
    if not dflt:
      # other shapes: look for any dependence on step
      dep, exprs = D.backward_slice_names(f.node, {var})
      if 'step' not in dep and not any('index.step' in A.unparse(e, 300) for e in exprs):
        problems.append(f'default of `{var}` does not depend on the step')
      continue
    d = dflt[0]
    names, exprs = D.backward_slice_names(f.node, A.names_read(d.orelse))
    txt = A.unparse(d.orelse, 200) + ' '.join(A.unparse(e, 200) for e in exprs)
    # control dependence: is the assignment under a test on step?
    g = C.cfg_of(f.node)
    ctrl = any(k.kind == 'test' and 'step' in A.unparse(k.ast) for k in g.nodes)
    if 'step' not in txt and not ctrl:
      problems.append(f'`{var}` defaults to `{A.unparse(d.orelse)}` whatever the sign of the step')
  ctx.ob('C02.a', f.fq, not problems,
         'the defaults of a missing slice start/stop depend on the sign of the step (as in Python)',
         f.loc, '; '.join(problems) + ': for a negative step every slice with an omitted bound is '
         'wrong, e.g. pg.List([1,2,3,4])[::-1] == []')


def rule_a2(ctx):
  """Slice assignment with a negative step is rewritten to ascending form.  The
  lowest position visited by `range(start, stop, step)` depends on the step
  (for |step| > 1 it is not `stop + 1`), so the new `start` must be computed
  from the step or from the materialised positions."""
  idx = ctx.index
  f = idx.lookup_method(S.LIST, '__setitem__')
  g = C.cfg_of(f.node)
  # locals by role: `<start>, <stop>, <step> = self._parse_slice(...)`
  trip = [st.targets[0] for st in ast.walk(f.node) if isinstance(st, ast.Assign) and isinstance(st.value, ast.Call)
          and (A.call_name(st.value) or '').endswith('_parse_slice') and isinstance(st.targets[0], ast.Tuple)
          and len(st.targets[0].elts) == 3 and all(isinstance(e, ast.Name) for e in st.targets[0].elts)]
  if not trip:
    raise AnalysisError('List.__setitem__: the (start, stop, step) triple of _parse_slice vanished')
  START, _STOP, STEP = [e.id for e in trip[0].elts]
  negs = [t for t in g.nodes if t.kind == 'test' and A.unparse(t.ast) in (f'{STEP} < 0', f'0 > {STEP}')]
  if not negs:
    ctx.info('C02.a', f.fq + '#negative-step', 'no separate treatment of negative steps in slice assignment', f.loc)
    return
  problems = []
  for t in negs:
    for m, lab in t.succ:
      if lab != 'true':
        continue
      seen, _ = g.reach(m, follow_exc=False)
      seen.add(m.id)
      # re-definitions of `start` inside the negative-step region (before the step is flipped)
      flips = [k for k in g.nodes if k.id in seen and STEP in D.node_defs(k)]
      region = seen
      if flips:
        after, _ = g.reach(flips[0], follow_exc=False)
        region = {i for i in seen if i not in after} | {flips[0].id}
      for i in region:
        k = g.nodes[i]
        d = D.node_defs(k)
        if START in d and d[START] is not None:
          names, exprs = D.backward_slice_names(f.node, A.names_read(d[START]))
          txt = A.unparse(d[START], 200)
          dep = STEP in names or STEP in A.names_read(d[START]) or any(
              'range(' in A.unparse(e, 200) and STEP in A.names_read(e) for e in exprs)
          if not dep:
            problems.append(f'line {k.lineno}: the ascending start is `{txt}`, which does not depend on the step: for '
                            f'|step| > 1 the lowest visited position is not stop + 1 and the values land on the wrong indices')
  ctx.ob('C02.a', f.fq + '#negative-step', not problems,
         'the ascending form of a negative-step slice assignment is computed from the step / the actual positions',
         f.loc, '; '.join(problems))


PATH_PARSERS = ('rebind', 'sym_rebind', 'from_value', 'parse')


def _is_keypath_ctor(e):
  """KeyPath(k): one key taken literally (from_value / parse would parse it)."""
  d = A.call_name(e) if isinstance(e, ast.Call) else None
  return bool(d) and d.split('.')[-1] == 'KeyPath'


def rule_b(ctx):
  idx = ctx.index
  for name in ('update', 'setdefault', 'pop', '__setitem__', '__delitem__', 'popitem'):
    f = idx.lookup_method(S.DICT, name)
    if f is None or idx.enclosing_class(f).fq != S.DICT:
      continue
    params = [p for p in A.param_names(f.node) if p != 'self']
    bad = []
    for c in A.calls_in(f.node):
      d = A.call_name(c) or ''
      if d.split('.')[-1] in PATH_PARSERS and (d.startswith('self.') or 'KeyPath' in d):
        # does a caller-supplied key flow into it?
        args = list(c.args) + [k.value for k in c.keywords]
        for a in args:
          names, _ = D.backward_slice_names(f.node, A.names_read(a))
          if names & set(params):
            wrapped = _is_keypath_ctor(a) or (
                isinstance(a, ast.DictComp) and _is_keypath_ctor(a.key)) or (
                isinstance(a, ast.Dict) and a.keys and all(k is not None and _is_keypath_ctor(k) for k in a.keys))
            if not wrapped:
              bad.append(f'{d}({A.unparse(a, 30)}) at line {c.lineno}')
    ctx.ob('C02.b', f.fq, not bad,
           'plain dict keys are not passed to an API that parses strings as key paths', f.loc,
           'caller keys flow into ' + ', '.join(bad) + ": a key such as 'a.b' is treated as a path, "
           'not as the key')


def _range_guard(g, idx_name):
  lo, hi = [], []
  for k in g.nodes:
    if k.kind != 'test':
      continue
    for left, op, right in A.compare_parts(k.ast):
      l, r = A.unparse(left), A.unparse(right)
      raising = any(lab == 'true' for _, lab in k.succ) and g.always_raises_from(k, 'true')
      if not raising:
        continue
      if l == idx_name and isinstance(op, ast.Lt) and r == '-len(self)':
        lo.append(k)
      if l == idx_name and isinstance(op, ast.GtE) and r == 'len(self)':
        hi.append(k)
  return lo, hi


def rule_c(ctx):
  idx = ctx.index
  for name, idxp in (('__getitem__', 'index'), ('__setitem__', 'index'), ('__delitem__', 'index'), ('pop', 'index')):
    f = idx.lookup_method(S.LIST, name)
    g = C.cfg_of(f.node)
    lo, hi = _range_guard(g, idxp)
    # the body may have moved into a private continuation called last with the
    # index passed through (`self._delete_item(index)`): decide it there
    for _ in range(2):
      if lo or hi:
        break
      last = f.node.body[-1]
      call = last.value if isinstance(last, (ast.Expr, ast.Return)) and isinstance(getattr(last, 'value', None), ast.Call) else None
      d = A.call_name(call) if call is not None else None
      if not (d and d.startswith('self._') and d.count('.') == 1 and call.args
              and isinstance(call.args[0], ast.Name) and call.args[0].id == idxp):
        break
      callee = idx.lookup_method(S.LIST, d.split('.')[1])
      if callee is None or len(callee.node.args.args) < 2:
        break
      f, idxp = callee, callee.node.args.args[1].arg
      g = C.cfg_of(f.node)
      lo, hi = _range_guard(g, idxp)
    problems = []
    if not lo:
      problems.append('no `index < -len(self)` test raising')
    if not hi:
      problems.append('no `index >= len(self)` test raising')
    raises = ' '.join(A.unparse(k.ast, 200) for k in g.nodes if k.kind == 'raisestmt')
    if 'IndexError' not in raises:
      problems.append('IndexError is never raised')
    if name != 'pop' and 'TypeError' not in raises:
      problems.append('a non-int, non-slice index does not raise TypeError')
    # storage access of an int index only after both tests
    if lo and hi:
      access = [k for k in g.nodes if k.ast is not None and k.kind != 'test' and any(
          (A.call_name(c) or '') in ('self.sym_inferred', 'self._set_item_without_permission_check',
                                     'super().__delitem__', 'self.sym_getattr') for c in k.calls())
                and not any(isinstance(w, ast.If) for w in [])]
      blocked = {(t.id, m.id, l) for t in lo + hi for m, l in t.succ if l == 'false'}
      # int branch only
      isint = [k for k in g.nodes if k.kind == 'test' and 'numbers.Integral' in A.unparse(k.ast)]
      seen, _ = g.reach(g.entry, blocked_edges=blocked, follow_exc=False)
      if name in ('__delitem__',) and any(a.id in seen for a in access):
        problems.append('storage accessed without the range test')
    ctx.ob('C02.c', f'{S.LIST}.{name}', not problems,
           'an int index is range-checked on both sides (IndexError) and other index types raise TypeError',
           f.loc, '; '.join(problems))


def _is_noop_test_allowed(t):
  """A test whose outcome makes the write primitive return without writing may
  be: an identity comparison (`old is new`), a membership test (`key in self`),
  or a comparison with the MISSING marker (= a removal request).  An equality
  between values is not (1 == True)."""
  if not (isinstance(t, ast.Compare) and len(t.ops) == 1):
    return False
  op = t.ops[0]
  if isinstance(op, (ast.Is, ast.IsNot, ast.In, ast.NotIn)):
    return True
  if isinstance(op, (ast.Eq, ast.NotEq)):
    return any('MISSING_VALUE' in A.unparse(x) for x in (t.left, t.comparators[0]))
  return False



def _under_negative_test(g, node, var):
  """Is `node` reachable only through the true branch of a test `var < 0`?"""
  tests = [n for n in g.nodes if n.kind == 'test' and A.unparse(n.ast) == f'{var} < 0']
  if not tests:
    return False
  blocked = {(t.id, m.id, l) for t in tests for m, l in t.succ if l == 'true'}
  seen, _ = g.reach(g.entry, blocked_edges=blocked, follow_exc=False)
  return node.id not in seen


def rule_d(ctx):
  idx = ctx.index
  # (i) the index handed to the raw list op is the caller's index, only
  #     clamped to len(self) for appends
  f = idx.lookup_method(S.LIST, S.PRIMITIVE)
  g = C.cfg_of(f.node)
  problems = []
  for k in g.nodes:
    if k.ast is None:
      continue
    for c in k.calls():
      raw = c08._raw_of_call(idx, f, c)
      if raw in ('list.insert', 'list.__setitem__'):
        ia = c.args[1]
        if not isinstance(ia, ast.Name):
          problems.append(f'{raw} index is `{A.unparse(ia)}`')
          continue
        for dn, val in D.reaching_defs_flagaware(g, k, ia.id):
          v = A.unparse(val) if val is not None else 'param'
          if raw == 'list.__setitem__' and v == f'{ia.id} + len(self)' and _under_negative_test(g, dn, ia.id):
            # an in-range negative position of an EXISTING item rewritten to its
            # real position (same element as for list); not allowed for insert,
            # where an out-of-range negative index must clamp to the front
            continue
          if raw == 'list.insert' and v == f'max(0, {ia.id} + len(self))' and _under_negative_test(g, dn, ia.id):
            # exactly the clamp list.insert itself applies to a negative position (front when out of
            # range): the same element positions, spelled out so that the reported path is the real one
            continue
          if v not in ('key', 'len(self)', 'param'):
            problems.append(f'index handed to {raw} is redefined as `{v}` (line {dn.lineno}): '
                            f'negative / out-of-range positions no longer mean what they mean for list')
  ctx.ob('C02.d', f.fq + '#index', not problems,
         'the caller\'s index reaches the raw list operation unchanged (only clamped to len for appends)',
         f.loc, '; '.join(sorted(set(problems))))
  # (ii) no-op shortcuts are identity tests
  for cls_fq in (S.LIST, S.DICT):
    f = idx.lookup_method(cls_fq, S.PRIMITIVE)
    g = C.cfg_of(f.node)
    bad = []
    for k in g.nodes:
      if k.kind != 'test':
        continue
      for m, lab in k.succ:
        if m.kind == 'return' and (m.ast.value is None or A.unparse(m.ast.value) == 'None'):
          t = A.unparse(k.ast)
          if not _is_noop_test_allowed(k.ast):
            bad.append(f'`{t}` (line {k.lineno})')
    ctx.ob('C02.d', f.fq + '#noop', not bad,
           'the write primitive skips a write only when the very same object is stored again '
           '(identity), never on equality', f.loc,
           'a write is silently dropped under ' + ', '.join(bad) + ": e.g. d['flag'] = True over 1 "
           'is ignored because 1 == True')
  # (iii) List.insert marks its value as insertion; append uses len(self)
  f = idx.lookup_method(S.LIST, 'insert')
  ok = any(A.call_name(c) == 'self._set_item_without_permission_check' and len(c.args) == 2
           and A.unparse(c.args[0]) == 'index' and 'mark_as_insertion(value)' in A.unparse(c.args[1])
           for c in A.calls_in(f.node))
  ctx.ob('C02.d', f.fq, ok, 'insert(index, value) hands (index, Insertion(value)) to the primitive', f.loc,
         'insert no longer forwards its index/value unchanged')
  # setdefault returns the STORED value (a plain list/dict default is stored as its
  # symbolic counterpart; returning the caller's object loses `d.setdefault(k, []).append(x)`)
  f = idx.lookup_method(S.DICT, 'setdefault')
  g = C.cfg_of(f.node)
  problems = []
  params = [p for p in A.param_names(f.node) if p not in ('self',)]
  for k in g.nodes:
    if k.kind != 'return' or k.ast.value is None:
      continue
    v = k.ast.value
    srcs = [v]
    if isinstance(v, ast.Name):
      srcs = [val for _, val in D.reaching_defs(g, k, v.id)]
    for val in srcs:
      if val is None:
        problems.append(f'returns the caller\'s `{A.unparse(v)}` itself')
        continue
      t = A.unparse(val)
      reads_storage = any((A.call_name(c) or '') in ('self.sym_getattr', 'self._sym_getattr', 'self.sym_inferred',
                                                      'self.get', 'super().get', 'dict.get')
                          for c in A.calls_in(val)) or (isinstance(val, ast.Subscript) and A.unparse(val.value) == 'self')
      if isinstance(val, ast.Name) and val.id in params:
        problems.append(f'returns the caller\'s `{val.id}` object, not the value that was stored')
      elif not reads_storage and 'MISSING_VALUE' not in t:
        problems.append(f'returns `{t}`, which is not read back from the dict')
  ctx.ob('C02.d', f.fq, not problems,
         'setdefault returns the value held by the dict after the call (read back from storage), as dict.setdefault does',
         f.loc, '; '.join(sorted(set(problems))))
  f = idx.lookup_method(S.LIST, 'append')
  ok = any(A.call_name(c) == 'self._set_item_without_permission_check' and len(c.args) == 2
           and A.unparse(c.args[0]) == 'len(self)' and A.unparse(c.args[1]) == 'value'
           for c in A.calls_in(f.node))
  ctx.ob('C02.d', f.fq, ok, 'append(value) writes at position len(self)', f.loc, 'append changed shape')


def rule_e(ctx):
  idx = ctx.index
  f = idx.lookup_method(S.LIST, '_sym_rebind')
  srt = [c for c in A.calls_in(f.node) if A.call_name(c) == 'sorted']
  problems = []
  if not srt:
    problems.append('updates are no longer sorted')
  else:
    c = srt[0]
    key = A.kwarg(c, 'key')
    rev = A.kwarg(c, 'reverse')
    if not (isinstance(rev, ast.Constant) and rev.value is True):
      problems.append('not in reverse order')
    if not (isinstance(key, ast.Lambda) and isinstance(key.body, ast.Subscript)
            and A.unparse(key.body) == f'{key.args.args[0].arg}[0]'):
      problems.append(f'sort key is `{A.unparse(key)}`, not the KeyPath itself: string order puts '
                      f"'[10]' before '[2]'")
  ctx.ob('C02.e', f.fq + '#order', not problems,
         'batched list updates are applied in descending KeyPath order (so earlier insertions/deletions '
         'do not shift later targets)', f.loc, '; '.join(problems))
  rets = [r.value for r in ast.walk(f.node) if isinstance(r, ast.Return) and r.value is not None]
  ret_names = {r.id for r in rets if isinstance(r, ast.Name)}
  ok = any(isinstance(c.func, ast.Attribute) and c.func.attr == 'reverse' and isinstance(c.func.value, ast.Name)
           and c.func.value.id in ret_names for c in A.calls_in(f.node)) or \
      any((A.call_name(c) or '') in ('reversed', 'sorted') for r in rets for c in A.calls_in(r))
  ctx.ob('C02.e', f.fq + '#report-order', ok, 'the updates are reported in ascending order', f.loc,
         'updates no longer reversed back')
  # KeyPath ordering compares int keys numerically
  kp = idx.find_func('pyglove.core.utils.value_location.KeyPath.__lt__')
  if kp is not None:
    ctx.info('C02.e', kp.fq, 'KeyPath.__lt__ is the order used (checked under C10)', kp.loc)


def rule_f(ctx):
  """One iteration order for every read view of a Dict (keys/values/items/iter
  agree position by position, as for dict)."""
  idx = ctx.index
  def rets(f):
    return [A.unparse(n.value) for n in ast.walk(f.node) if isinstance(n, ast.Return) and n.value is not None]
  for name, want in (('__iter__', 'self.sym_keys()'), ('keys', 'self.sym_keys()'),
                     ('items', 'self.sym_items()'), ('values', 'self.sym_values()')):
    f = idx.lookup_method(S.DICT, name)
    if f is None or idx.enclosing_class(f).fq != S.DICT:
      ctx.ob('C02.f', f'{S.DICT}.{name}', False,
             f'Dict.{name} is the symbolic view {want}', '', f'Dict.{name} is inherited from dict: it iterates the raw '
             'storage order, which differs from the schema order used by the other views')
      continue
    r = rets(f)
    ys = [n for n in ast.walk(f.node) if isinstance(n, (ast.Yield, ast.YieldFrom))]
    ok = r == [want] and not ys
    ctx.ob('C02.f', f.fq, ok, f'Dict.{name} is the symbolic view {want} (all read views share one iteration order)',
           f.loc, f'returns {r}: keys/values/items/iteration can disagree position by position')
  # values / items are derived from the key iteration, looking up the loop key
  for name in ('sym_values', 'sym_items'):
    f = idx.lookup_method(S.DICT, name)
    loops = [n for n in ast.walk(f.node) if isinstance(n, ast.For)]
    problems = []
    if len(loops) != 1 or A.unparse(loops[0].iter) != 'self.sym_keys()':
      problems.append('does not iterate self.sym_keys()')
    else:
      lp = loops[0]
      kv = A.assigned_names(lp.target)
      ys = [n for n in ast.walk(lp) if isinstance(n, ast.Yield)]
      if len(ys) != 1 or any(isinstance(n, (ast.If, ast.Break, ast.Continue, ast.Return)) for n in ast.walk(lp)):
        problems.append('yields conditionally / more than once per key')
      else:
        y = A.unparse(ys[0].value)
        k = kv[0] if kv else '?'
        want = f'self._sym_getattr({k})' if name == 'sym_values' else f'({k}, self._sym_getattr({k}))'
        if y != want:
          problems.append(f'yields `{y}`, not `{want}`')
    ctx.ob('C02.f', f.fq, not problems, f'Dict.{name} yields exactly one entry per key of sym_keys(), looked up under that key',
           f.loc, '; '.join(problems))
  # sym_keys: every stored key exactly once
  f = idx.lookup_method(S.DICT, 'sym_keys')
  g = C.cfg_of(f.node)
  problems = []
  raw_iters = [n for n in g.nodes if n.kind == 'iter' and A.unparse(n.ast.iter) == 'super().__iter__()']
  if not raw_iters:
    problems.append('never iterates the stored keys')
  # a key yielded from the schema order is recorded, and the remainder loop skips recorded keys
  ys = [n for n in ast.walk(f.node) if isinstance(n, ast.Yield)]
  seen_sets = {nm for n in ast.walk(f.node) if isinstance(n, ast.Assign) and isinstance(n.value, ast.Call)
               and A.call_name(n.value) == 'set' and not n.value.args for nm in A.assigned_names(n.targets[0])}
  raw_targets = {nm for n in raw_iters for nm in A.assigned_names(n.ast.target)}
  for y in ys:
    t = A.unparse(y.value)
    if t in raw_targets:
      continue
    # schema-ordered yield: must be recorded in the traversed set right after
    par = [s_ for s_ in ast.walk(f.node) if isinstance(s_, (ast.If, ast.For)) and any(
        isinstance(b_, ast.Expr) and b_.value is y for b_ in getattr(s_, 'body', []))]
    rec = any(isinstance(b_, ast.Expr) and isinstance(b_.value, ast.Call)
              and any(A.unparse(b_.value) == f'{sv}.add({t})' for sv in seen_sets)
              for s_ in par for b_ in s_.body)
    if not rec:
      problems.append(f'key `{t}` yielded from the schema order is not recorded as traversed (it is yielded again later)')
  txt = A.unparse(f.node, 5000)
  if ys and len(ys) > 1:
    skips = any(isinstance(n, ast.Compare) and len(n.ops) == 1 and isinstance(n.ops[0], ast.NotIn)
                and isinstance(n.comparators[0], ast.Name) and n.comparators[0].id in seen_sets
                for n in ast.walk(f.node))
    if not skips:
      problems.append('the remainder loop does not skip keys already yielded')
    if 'len(traversed) < len(self)' not in txt and 'len(traversed) != len(self)' not in txt:
      # without the shortcut every stored key is still visited: fine
      pass
  ctx.ob('C02.f', f.fq, not problems, 'sym_keys yields every stored key exactly once (declared keys first, then the rest)',
         f.loc, '; '.join(problems))
  # List iteration: one element per index
  f = idx.lookup_method(S.LIST, '__iter__')
  loops = [n for n in ast.walk(f.node) if isinstance(n, ast.For)]
  ok = len(loops) == 1 and A.unparse(loops[0].iter) == 'range(len(self))' and any(
      isinstance(n, ast.Yield) and A.unparse(n.value) == f'self.sym_inferred({A.unparse(loops[0].target)})' for n in ast.walk(loops[0]))
  ctx.ob('C02.f', f.fq, ok, 'List iteration yields the element of every index 0..len-1 in order', f.loc,
         'List.__iter__ no longer visits range(len(self)) in order')


def rule_g(ctx):
  """Ordering operations keep list semantics: sort is ONE call of a builtin
  sort that receives the caller's key and reverse (a stable reverse sort is
  not sort + reverse), reverse is the builtin reverse; a batched Dict update
  is applied in the caller's order (new keys appear in that order)."""
  idx = ctx.index
  f = idx.lookup_method(S.LIST, 'sort')
  problems = []
  sorts = [c for c in A.calls_in(f.node) if c08._raw_of_call(idx, f, c) == 'list.sort'
           or A.call_name(c) == 'sorted']
  if len(sorts) != 1:
    problems.append(f'{len(sorts)} sorting calls (expected exactly one builtin sort)')
  else:
    c = sorts[0]
    for kw in ('key', 'reverse'):
      v = A.kwarg(c, kw)
      if not (isinstance(v, ast.Name) and v.id == kw):
        problems.append(f'`{kw}` is not handed to the builtin sort (Python sorts stably in BOTH directions; '
                        f'sorting ascending and reversing afterwards flips equal elements)')
    # the parameters are used nowhere else
    for kw in ('key', 'reverse'):
      uses = [n for n in ast.walk(f.node) if isinstance(n, ast.Name) and n.id == kw and isinstance(n.ctx, ast.Load)]
      if len(uses) > 1:
        problems.append(f'`{kw}` is also used outside the builtin sort call')
  ctx.ob('C02.g', f.fq, not problems, 'sort(key, reverse) is one builtin sort receiving both arguments', f.loc,
         '; '.join(problems))
  f = idx.lookup_method(S.LIST, 'reverse')
  ok = any(c08._raw_of_call(idx, f, c) == 'list.reverse' for c in A.calls_in(f.node))
  ctx.ob('C02.g', f.fq, ok, 'reverse() is the builtin in-place reverse', f.loc, 'no raw list.reverse call')
  f = idx.lookup_method(S.DICT, '_sym_rebind')
  loops = [n for n in ast.walk(f.node) if isinstance(n, ast.For)]
  problems = []
  if not loops:
    problems.append('no loop over the updates')
  for lp in loops:
    it = lp.iter
    while isinstance(it, ast.Call) and (A.call_name(it) or '') in ('list', 'tuple') and it.args:
      it = it.args[0]
    reorder = [c for c in A.calls_in(lp.iter) if (A.call_name(c) or '') in ('sorted', 'reversed')]
    if reorder:
      problems.append(f'updates are applied in `{A.unparse(lp.iter, 80)}` order, not the caller\'s: new keys are '
                      f'inserted in a different order than dict.update would')
  # any re-ordering of the batch before it is applied (sorted copy, in-place sort of a key list ...)
  for c in A.calls_in(f.node):
    last = c.func.attr if isinstance(c.func, ast.Attribute) else (c.func.id if isinstance(c.func, ast.Name) else '')
    if last in ('sort', 'sorted', 'reverse', 'reversed') and not any('sorted' in p_ or 'reversed' in p_ for p_ in problems):
      problems.append(f'the batch is re-ordered by `{A.unparse(c, 60)}` before it is applied: new keys are inserted '
                      f'in a different order than dict.update would')
  ctx.ob('C02.g', f.fq, not problems,
         'a batched Dict update is applied in the caller\'s order (insertion order of new keys as for dict)',
         f.loc, '; '.join(problems))


GENERATOR_VIEWS = ('sym_values', 'sym_items', 'sym_keys', 'keys', 'values', 'items')


def rule_h(ctx):
  """(1) The symbolic views (sym_values / sym_items / sym_keys and keys / values
  / items, which return them) are one-shot generators.  A local that holds such a
  view un-materialised and is then read inside a loop is exhausted after the
  first round (`l *= 3` appends the items once): a view consumed repeatedly is
  materialised first (list(...) / tuple(...)).
  (2) int keys survive the JSON *string* form: same writer/reader agreement as
  C05.c (the prefix written by to_json_str is decoded unconditionally)."""
  idx = ctx.index
  n = 0
  for cls_fq in (S.LIST, S.DICT):
    c = idx.cls(cls_fq)
    for name, f in sorted(c.methods.items()):
      views = {}
      for st in A.walk_local(f.node):
        if isinstance(st, ast.Assign) and isinstance(st.value, ast.Call) and isinstance(st.value.func, ast.Attribute) \
            and st.value.func.attr in GENERATOR_VIEWS and A.unparse(st.value.func.value) == 'self':
          for nm in A.assigned_names(st.targets[0]):
            views[nm] = st
      for nm, st in views.items():
        n += 1
        inside_loop = [x for lp in ast.walk(f.node) if isinstance(lp, (ast.For, ast.While))
                       for b_ in lp.body for x in ast.walk(b_) if isinstance(x, ast.Name) and x.id == nm and isinstance(x.ctx, ast.Load)]
        ctx.ob('C02.h', f'{f.fq}#{nm}', not inside_loop,
               'a one-shot view of the container that is consumed inside a loop is materialised first', f.loc,
               f'`{A.unparse(st, 60)}` is a generator; it is read inside a loop (line {inside_loop[0].lineno if inside_loop else 0}) '
               f'and is empty from the second round on')
  # un-materialised views passed straight into a repeated call are the same hazard: none today
  ctx.info('C02.h', 'views', f'{n} locals hold an un-materialised view', 'pyglove/core/symbolic/list.py:1')
  from sa.rules import c05
  before = len(ctx.obs)
  c05.rule_c(ctx)
  for o in ctx.obs[before:]:
    o.rule = 'C02.h'
    o.construct = o.construct + '#json-str-int-keys'


def rule_i(ctx):
  """list.remove(x) removes the first item that IS x or equals x (identity first: a NaN
  stored in the list is found although nan != nan).  List.remove decides a match with
  `item is value or item == value` - an `is` test OR-ed with the equality."""
  idx = ctx.index
  f = idx.lookup_method(S.LIST, 'remove')
  if f is None or idx.enclosing_class(f).fq != S.LIST:
    ctx.ob('C02.i', f'{S.LIST}.remove', True, 'remove is inherited from list', idx.cls(S.LIST).loc)
    return
  params = A.param_names(f.node)
  val = params[1] if len(params) > 1 else 'value'
  tests = [n for n in ast.walk(f.node) if isinstance(n, (ast.If, ast.IfExp)) and val in A.names_read(n.test)]
  ok = False
  for t in tests:
    te = t.test
    parts = te.values if isinstance(te, ast.BoolOp) and isinstance(te.op, ast.Or) else [te]
    has_is = any(isinstance(p, ast.Compare) and any(isinstance(o, ast.Is) for o in p.ops) and val in A.names_read(p) for p in parts)
    has_eq = any((isinstance(p, ast.Compare) and any(isinstance(o, ast.Eq) for o in p.ops) and val in A.names_read(p))
                 or (isinstance(p, ast.Call) and (A.call_name(p) or '').split('.')[-1] == 'eq') for p in parts)
    if has_is and has_eq:
      ok = True
  ctx.ob('C02.i', f'{S.LIST}.remove#identity-or-equality', ok,
         'an item matches when it is the value or equals it (as list.remove does)', f.loc,
         'the match is decided by `==` alone: l = pg.List([nan, 1]); l.remove(nan) raises ValueError where a list removes it')


def rule_j(ctx):
  """Every update of one rebind is applied: List._sym_rebind applies its updates in
  DESCENDING index order (so that deletions do not shift the positions still to come);
  positions past the end mean "append", and applied in that order they come out reversed -
  or one overwrites another (`l.rebind({3: 'a', 4: 'b'})` on three items lost 'b').  With a
  reverse-sorted walk, the past-the-end updates are split off by a comparison of the index
  with the size and applied in ascending order."""
  idx = ctx.index
  f = idx.lookup_method(S.LIST, '_sym_rebind')
  rev = [c for c in A.calls_in(f.node) if A.call_name(c) == 'sorted' and any(
      kw.arg == 'reverse' and A.unparse(kw.value) == 'True' for kw in c.keywords)]
  if not rev:
    ctx.ob('C02.j', f'{S.LIST}._sym_rebind#appends-in-order', True, 'updates are not applied in descending order', f.loc)
    return
  size_names = {nm for st in ast.walk(f.node) if isinstance(st, ast.Assign) and A.unparse(st.value) == 'len(self)'
                for nm in A.assigned_names(st.targets[0])} | {'len(self)'}
  split = [c for c in ast.walk(f.node) if isinstance(c, ast.Compare) and len(c.ops) == 1 and isinstance(c.ops[0], (ast.GtE, ast.Gt, ast.Lt, ast.LtE))
           and (A.unparse(c.comparators[0]) in size_names or A.unparse(c.left) in size_names)]
  asc = [c for c in A.calls_in(f.node) if (A.call_name(c) or '').endswith('.reverse') or (A.call_name(c) == 'sorted' and c not in rev)
         or A.call_name(c) == 'reversed']
  applies = [c for c in A.calls_in(f.node) if (A.call_name(c) or '').endswith('_set_item_of_current_tree')]
  ok = bool(split) and len(applies) >= 2 and bool(asc)
  ctx.ob('C02.j', f'{S.LIST}._sym_rebind#appends-in-order', ok,
         'updates past the end are split off from the descending walk and applied in ascending order', f.loc,
         'all updates are applied in descending index order: two appends of one rebind come out reversed, or the lower one '
         'overwrites the higher one (l.rebind({3: \'a\', 4: \'b\'}) -> [1, 2, 3, \'a\'])')


def run(ctx):
  ctx.consult(*FILES)
  rule_i(ctx)
  rule_j(ctx)
  rule_a(ctx)
  rule_a2(ctx)
  rule_b(ctx)
  rule_c(ctx)
  rule_d(ctx)
  rule_e(ctx)
  rule_f(ctx)
  rule_g(ctx)
  rule_h(ctx)
  ctx.assume('contents, order, return values and slice assignment semantics are not decided (differential)')
