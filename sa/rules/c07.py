"""C07 — clone fidelity and independence (DESIGN §3 C07)."""
from __future__ import annotations

import ast

from sa import astutil as A
from sa import cfg as C
from sa import surface as S
from sa.index import AnalysisError

PROP = 'C07'
EXPLANATION = (
    'For every _sym_clone override of the repository: (a) each behavioural '
    'flag the class constructor accepts (allow_partial, sealed, '
    'accessor_writable, value_spec) is forwarded from the object\'s own '
    'attribute (not from a scope-dependent predicate); (b) __copy__ / '
    '__deepcopy__ / copy route through sym_clone and override is applied to '
    'the new value; (c) overrides either delegate to super()._sym_clone(deep, '
    'memo) or construct the class, never return self; (d) no private state '
    'that the class mutates in place, and no lazily filled cache, is aliased '
    'into the clone.  Independence under arbitrary later mutation is not decided.')
FLOORS = {'C07.a': 4, 'C07.b': 2, 'C07.c': 2, 'C07.d': 3, 'C07.e': 1, 'C07.f': 1}
FILES = ['pyglove/core/symbolic/base.py', 'pyglove/core/symbolic/dict.py',
         'pyglove/core/symbolic/list.py', 'pyglove/core/symbolic/object.py',
         'pyglove/core/symbolic/ref.py', 'pyglove/core/symbolic/functor.py',
         'pyglove/core/geno/base.py', 'pyglove/core/hyper/base.py']

FLAGS = {'allow_partial': '_allow_partial', 'sealed': '_sealed',
         'accessor_writable': '_accessor_writable', 'value_spec': '_value_spec'}
SETTER_FLAGS = {'accessor_writable': 'set_accessor_writable'}
FLAG_EXCEPTIONS = {
    ('pyglove.core.symbolic.ref.Ref', 'accessor_writable'): 'a Ref has no symbolic members to assign',
    ('pyglove.core.symbolic.ref.Ref', 'sealed'): 'Ref.__init__ takes sealed only through **kwargs of Object; a Ref has no mutable members',
}


def clone_overrides(idx):
  out = []
  for c in idx.all_classes():
    m = c.methods.get('_sym_clone')
    if m is not None and S.SYMBOLIC in idx.mro(c.fq) and c.fq != S.SYMBOLIC:
      out.append((c, m))
  return out


def _accepted_flags(idx, cls):
  """Flags the constructor of cls accepts (explicit parameters, or
  kwargs.pop('<flag>', ...))."""
  init = idx.lookup_method(cls.fq, '__init__')
  acc = set()
  if init is None:
    return acc
  ps = set(A.param_names(init.node))
  for fl in FLAGS:
    if fl in ps:
      acc.add(fl)
  for c in A.calls_in(init.node):
    if A.call_name(c) == 'kwargs.pop' and c.args and A.const_str(c.args[0]) in FLAGS:
      acc.add(A.const_str(c.args[0]))
  return acc


def rule_a(ctx, overrides):
  idx = ctx.index
  for c, m in overrides:
    ctors = []
    fresh = {nm for st in ast.walk(m.node) if isinstance(st, ast.Assign) and isinstance(st.value, ast.Call)
             and (A.call_name(st.value) or '') in ('object.__new__', 'self.__class__.__new__', c.name + '.__new__')
             for nm in A.assigned_names(st.targets[0])}
    for call in A.calls_in(m.node):
      d = A.call_name(call) or ''
      if d in {c.name, 'self.__class__'} | {f'{nm}.__init__' for nm in fresh}:
        ctors.append(call)
    if not ctors:
      continue   # delegating override (rule c)
    acc = _accepted_flags(idx, c)
    call = ctors[0]
    for fl in sorted(acc):
      key = (c.fq, fl)
      if key in FLAG_EXCEPTIONS:
        ctx.ob('C07.a', f'{m.fq}#{fl}', True, 'exempt: ' + FLAG_EXCEPTIONS[key], m.loc)
        continue
      v = A.kwarg(call, fl)
      if v is None:
        ok, why = False, (f'`{fl}` is not forwarded to the new instance: the clone silently gets the '
                          f'constructor default')
      else:
        d = A.dotted(v)
        ok = d in (f'self.{FLAGS[fl]}', f'self.{fl}')
        why = (f'`{fl}` is forwarded as `{A.unparse(v)}`, not the object\'s own flag self.{FLAGS[fl]} '
               f'(a scope-dependent value makes the clone depend on where it was taken)')
      ctx.ob('C07.a', f'{m.fq}#{fl}', ok,
             f'the clone is constructed with {fl}=self.{FLAGS[fl]}', m.loc, why)
    # a per-object flag with a public setter that the constructor does not take
    # (Object derives accessor_writable from the class; set_accessor_writable
    # changes it per instance) is carried over through the setter
    for fl, setter in SETTER_FLAGS.items():
      if fl in acc or (c.fq, fl) in FLAG_EXCEPTIONS:
        continue
      carried = [x for x in A.calls_in(m.node)
                 if (A.call_name(x) or '').split('.')[-1] == setter and not (A.call_name(x) or '').startswith('self.')
                 and x.args and A.dotted(x.args[0]) in (f'self.{FLAGS[fl]}', f'self.{fl}')]
      ctx.ob('C07.a', f'{m.fq}#{fl}', bool(carried),
             f'the clone gets the original\'s {fl} through {setter}() (the constructor does not take it)', m.loc,
             f'`{fl}` is neither a constructor argument of {c.name} nor set on the new instance: a value whose '
             f'{fl} was changed with {setter}() clones into one with the class default')


def rule_b(ctx):
  idx = ctx.index
  for cls_fq in (S.SYMBOLIC, S.LIST):
    for meth, want in (('__copy__', 'self.sym_clone(deep=False)'),
                       ('__deepcopy__', 'self.sym_clone(deep=True, memo=memo)')):
      c = idx.cls(cls_fq)
      m = c.methods.get(meth)
      if m is None:
        raise AnalysisError(f'{cls_fq}.{meth} vanished')
      rets = [A.unparse(n.value) for n in ast.walk(m.node) if isinstance(n, ast.Return)]
      ok = rets == [want]
      if not ok and meth == '__copy__' and rets == ['self.copy()']:
        # an alias of copy(), which is itself obliged to be the shallow symbolic clone (below)
        cp = idx.lookup_method(cls_fq, 'copy')
        ok = cp is not None and [A.unparse(n.value) for n in ast.walk(cp.node) if isinstance(n, ast.Return)] == ['self.sym_clone(deep=False)']
      ctx.ob('C07.b', m.fq, ok, f'{meth} is {want}', m.loc, f'returns {rets}')
  for cls_fq in (S.DICT, S.LIST):
    m = idx.lookup_method(cls_fq, 'copy')
    if m is None or idx.enclosing_class(m).fq != cls_fq:
      # the builtin copy() of list/dict returns a plain container: the symbolic class overrides it
      ctx.ob('C07.b', f'{cls_fq}.copy', False, f'{cls_fq.split(".")[-1]}.copy is overridden as a shallow symbolic clone',
             idx.cls(cls_fq).loc, 'copy() is inherited from the builtin: it returns a plain container')
      continue
    rets = [A.unparse(n.value) for n in ast.walk(m.node) if isinstance(n, ast.Return)]
    ctx.ob('C07.b', m.fq, rets == ['self.sym_clone(deep=False)'],
           f'{cls_fq.split(".")[-1]}.copy is a shallow symbolic clone (the two containers agree; copy.copy is one too)',
           m.loc, f'returns {rets}: the copy is built by the constructor with default flags - a sealed, '
           f'accessor_writable=False or partial container copies into an ordinary one')
  f = idx.func(S.SYMBOLIC + '.sym_clone')
  g = C.cfg_of(f.node)
  problems = []
  nv = [k for k in g.nodes if k.kind == 'stmt' and isinstance(k.ast, ast.Assign)
        and A.unparse(k.ast.value) == 'self._sym_clone(deep, memo)']
  if not nv:
    problems.append('new value is not self._sym_clone(deep, memo)')
  else:
    var = A.assigned_names(nv[0].ast.targets[0])[0]
    ov = [c for c in A.calls_in(f.node) if (A.call_name(c) or '') in (f'{var}.sym_rebind', f'{var}.rebind')]
    if not ov or A.unparse(ov[0].args[0]) != 'override':
      problems.append('override is not applied to the new value')
    rets = [A.unparse(n.value) for n in ast.walk(f.node) if isinstance(n, ast.Return)]
    if rets != [var]:
      problems.append(f'returns {rets}')
    if any((A.call_name(c) or '').startswith('self.') and (A.call_name(c) or '').split('.')[-1] in (
        'rebind', 'sym_rebind', 'seal', 'sym_seal', 'sym_setparent', 'sym_setpath') for c in A.calls_in(f.node)):
      problems.append('the original is modified by cloning')
  ctx.ob('C07.b', f.fq, not problems, 'sym_clone builds a new value, applies override to it and returns it',
         f.loc, '; '.join(problems))
  # module-level clone()
  f = idx.func('pyglove.core.symbolic.base.clone')
  t = A.unparse(f.node, 6000)
  ok = 'x.sym_clone(deep, memo, override)' in t or 'sym_clone(' in t
  ctx.ob('C07.b', f.fq, ok, 'pg.clone delegates symbolic values to sym_clone', f.loc, 'clone no longer uses sym_clone')


def rule_c(ctx, overrides):
  idx = ctx.index
  for c, m in overrides:
    if c.fq in (S.LIST, S.DICT, S.OBJECT):
      continue
    sup = [x for x in A.calls_in(m.node) if A.call_name(x) == 'super()._sym_clone']
    fresh = {nm for st in ast.walk(m.node) if isinstance(st, ast.Assign) and isinstance(st.value, ast.Call)
             and (A.call_name(st.value) or '') in ('object.__new__', 'self.__class__.__new__', c.name + '.__new__')
             for nm in A.assigned_names(st.targets[0])}
    ctor = [x for x in A.calls_in(m.node) if (A.call_name(x) or '') in
            {c.name, 'self.__class__'} | {f'{nm}.__init__' for nm in fresh}]
    rets = [A.unparse(n.value) for n in ast.walk(m.node) if isinstance(n, ast.Return) and n.value is not None]
    problems = []
    if sup:
      a = sup[0]
      if [A.unparse(x) for x in a.args] != ['deep', 'memo']:
        problems.append(f'super()._sym_clone called with {[A.unparse(x) for x in a.args]}')
    elif not ctor:
      problems.append('neither delegates to super()._sym_clone nor constructs the class')
    if 'self' in rets:
      problems.append('returns self')
    ctx.ob('C07.c', m.fq, not problems,
           'the override delegates to super()._sym_clone(deep, memo) or constructs a new instance; '
           'it never returns self', m.loc, '; '.join(problems))


MUTATING = ('add', 'discard', 'remove', 'append', 'extend', 'update', 'pop', 'clear', 'insert', 'setdefault')
COPIERS = ('set', 'list', 'dict', 'tuple', 'frozenset', 'copy.copy', 'copy.deepcopy')


def _memo_attrs(idx, cls):
  """Attributes of cls (MRO) assigned None in _on_bound: lazily filled caches."""
  out = set()
  for k in idx.mro(cls.fq):
    kc = idx.find_class(k)
    ob = kc.methods.get('_on_bound') if kc else None
    if ob is None:
      continue
    for s in ast.walk(ob.node):
      if isinstance(s, ast.Assign) and isinstance(s.value, ast.Constant) and s.value.value is None:
        for t in s.targets:
          d = A.dotted(t)
          if d and d.startswith('self._'):
            out.add(d.split('.')[1])
  return out


SETATTR_FORMS = ('_set_raw_attr', 'setattr', 'object.__setattr__', '__setattr__')


def _private_copies(fn):
  """(stmt, attr, value_expr, is_alias) for every private attribute a
  _sym_clone override installs on the new object: `other._x = v`, and the
  string forms `other._set_raw_attr('_x', v)` / `setattr(other, '_x', v)`,
  also inside a loop over a literal tuple of attribute names with
  `getattr(self, name)` as the value."""
  out = []
  def is_self_attr(v, attr):
    if A.dotted(v) == f'self.{attr}':
      return True
    return (isinstance(v, ast.Call) and A.call_name(v) == 'getattr' and len(v.args) >= 2
            and A.unparse(v.args[0]) == 'self' and A.const_str(v.args[1]) == attr)
  for s in ast.walk(fn):
    if isinstance(s, ast.Assign):
      pairs = []
      for t in s.targets:
        if isinstance(t, (ast.Tuple, ast.List)) and isinstance(s.value, (ast.Tuple, ast.List)) \
            and len(t.elts) == len(s.value.elts):
          pairs += list(zip(t.elts, s.value.elts))       # (a._x, a._y) = (self._x, self._y)
        else:
          pairs.append((t, s.value))
      for t, v in pairs:
        d = A.dotted(t)
        if not d or d.count('.') != 1 or d.startswith('self.'):
          continue
        attr = d.split('.')[1]
        if attr.startswith('_'):
          out.append((s, attr, v, is_self_attr(v, attr)))
  # string forms, with loop expansion
  def names_of(expr, env):
    cs = A.const_str(expr)
    if cs is not None:
      return [cs]
    if isinstance(expr, ast.Name) and expr.id in env:
      return env[expr.id]
    return []
  def visit(node, env):
    if isinstance(node, ast.For) and isinstance(node.target, ast.Name) and isinstance(node.iter, (ast.Tuple, ast.List)) \
        and all(A.const_str(e) is not None for e in node.iter.elts):
      env = dict(env)
      env[node.target.id] = [A.const_str(e) for e in node.iter.elts]
    if isinstance(node, ast.Call):
      d = A.call_name(node) or ''
      last = d.split('.')[-1]
      if last in SETATTR_FORMS:
        args = list(node.args)
        if last == '_set_raw_attr' or (last == '__setattr__' and not d.startswith('object.')):
          recv = d.rsplit('.', 1)[0]
          name_e, val_e = (args + [None, None])[:2]
        else:
          recv = A.unparse(args[0]) if args else ''
          name_e, val_e = (args[1:] + [None, None])[:2]
        if recv and recv != 'self' and name_e is not None and val_e is not None:
          for attr in names_of(name_e, env):
            if not attr.startswith('_'):
              continue
            # value: getattr(self, <same name expr>) or self.<attr>
            alias = is_self_attr(val_e, attr) or (
                isinstance(val_e, ast.Call) and A.call_name(val_e) == 'getattr' and len(val_e.args) >= 2
                and A.unparse(val_e.args[0]) == 'self' and A.unparse(val_e.args[1]) == A.unparse(name_e))
            out.append((node, attr, val_e, alias))
    for ch in ast.iter_child_nodes(node):
      visit(ch, env)
  visit(fn, {})
  return out


def rule_d(ctx, overrides):
  idx = ctx.index
  for c, m in overrides:
    memos = _memo_attrs(idx, c)
    # attributes the class mutates in place anywhere
    mutated = set()
    for k in [c] + [s for s in idx.subclasses(c.fq)]:
      for meth in k.methods.values():
        for x in ast.walk(meth.node):
          if isinstance(x, ast.Call):
            d = A.call_name(x) or ''
            p = d.split('.')
            if len(p) == 3 and p[0] == 'self' and p[2] in MUTATING:
              mutated.add(p[1])
          elif isinstance(x, (ast.Assign, ast.AugAssign, ast.Delete)):
            tg = x.targets if not isinstance(x, ast.AugAssign) else [x.target]
            for t in tg:
              if isinstance(t, ast.Subscript):
                d = A.dotted(t.value)
                if d and d.startswith('self._') and d.count('.') == 1:
                  mutated.add(d.split('.')[1])
    n = 0
    # the override and the private helpers it hands the new object to
    copies = []
    for h in S.helper_closure(idx, m):
      copies += _private_copies(h.node)
    for s, attr, v, alias in copies:
        n += 1
        construct = f'{m.fq}#{attr}'
        if attr in memos:
          ctx.ob('C07.d', construct, False,
                 'lazily filled caches are not carried over to the clone (they would keep '
                 'pointing into the original tree)', f'{m.module.relpath}:{s.lineno}',
                 f'`{A.unparse(s)}` copies the cache {attr} (reset in _on_bound) into the clone: '
                 f'lookups on the clone return nodes of the original')
          continue
        # the clone's field is derived from the SAME field of the original (a set that is
        # recomputed from other fields is equal only while those fields happen to agree)
        reads_own = any(isinstance(x, ast.Attribute) and x.attr == attr and A.unparse(x.value) == 'self' for x in ast.walk(v)) \
            or any(isinstance(x, ast.Call) and A.call_name(x) == 'getattr' and len(x.args) >= 2
                   and A.unparse(x.args[0]) == 'self' and (A.const_str(x.args[1]) == attr or isinstance(x.args[1], ast.Name))
                   for x in ast.walk(v))
        if attr in mutated:
          ctx.ob('C07.d', construct + '#same-field', reads_own,
                 f'the clone\'s {attr} is taken from the original\'s {attr}', f'{m.module.relpath}:{s.lineno}',
                 f'`{A.unparse(s, 80)}` computes {attr} from something else than self.{attr}: original and clone '
                 f'disagree whenever that differs')
        ok = not (alias and attr in mutated)
        ctx.ob('C07.d', construct, ok,
               'private state that the class mutates in place is copied, not aliased, into the clone',
               f'{m.module.relpath}:{s.lineno}',
               f'`{A.unparse(s)}` shares {attr} between original and clone while the class mutates it in '
               f'place ({attr}.add/discard/...): a later change of one is visible through the other')
    if n == 0:
      ctx.info('C07.d', m.fq, 'no private state copied by this override', m.loc)


def rule_f(ctx):
  """pg.clone rebuilds every plain container it walks through: in the list /
  tuple / dict branches each returned value is a new container whose members
  come from clone(member, deep, memo); no branch hands the input back (a tuple
  is immutable, what it holds - nested tuples with symbolic members - is not)."""
  idx = ctx.index
  f = idx.func('pyglove.core.symbolic.base.clone')
  g = C.cfg_of(f.node)
  problems = []
  n = 0
  for t in g.nodes:
    if t.kind != 'test' or not (isinstance(t.ast, ast.Call) and A.call_name(t.ast) == 'isinstance' and len(t.ast.args) == 2):
      continue
    kind = A.unparse(t.ast.args[1])
    if kind not in ('list', 'tuple', 'dict'):
      continue
    n += 1
    other_tests = {k.id for k in g.nodes if k.kind == 'test' and k is not t and isinstance(k.ast, ast.Call)
                   and A.call_name(k.ast) == 'isinstance' and A.unparse(k.ast.args[0]) == A.unparse(t.ast.args[0])}
    for m, lab in t.succ:
      if lab != 'true':
        continue
      seen, _ = g.reach(m, blocked_nodes=other_tests, follow_exc=False)
      seen.add(m.id)
      for i in seen:
        k = g.nodes[i]
        if k.kind == 'return' and k.ast.value is not None:
          v = k.ast.value
          if isinstance(v, ast.Name) and v.id == A.unparse(t.ast.args[0]):
            problems.append(f'the {kind} branch can return its input unchanged (line {k.lineno}): members that are '
                            f'containers themselves stay shared between original and clone')
          elif not A.has_call(v, lambda d: d == 'clone'):
            problems.append(f'the {kind} branch returns `{A.unparse(v, 50)}` without cloning the members')
  if n < 3:
    raise AnalysisError('pg.clone no longer has list/tuple/dict branches')
  ctx.ob('C07.f', f.fq, not problems,
         'pg.clone rebuilds lists, tuples and dicts from clones of their members on every path', f.loc,
         '; '.join(problems))


def rule_e(ctx):
  """Independence at insertion time: a node taken from one copy and stored into
  the other is copied, because the inserting container recognises "already
  mine" by identity, never by equality (original and fresh clone are equal)."""
  from sa.rules import c01
  idx = ctx.index
  f = idx.func(S.SYMBOLIC + '._relocate_if_symbolic')
  problems = c01.relocate_identity_problems(f)
  clones = [n for n in ast.walk(f.node) if isinstance(n, ast.Assign) and A.has_call(n.value, lambda d: d.endswith('.clone'))]
  if not clones:
    problems.append('a value that already has a parent is no longer copied on insertion')
  ctx.ob('C07.e', f.fq, not problems,
         'a value that belongs to another container (even an equal one) is copied when stored, so original '
         'and clone never share a node', f.loc, '; '.join(problems))


def run(ctx):
  ctx.consult(*FILES)
  idx = ctx.index
  overrides = clone_overrides(idx)
  if len(overrides) < 4:
    raise AnalysisError(f'only {len(overrides)} _sym_clone overrides found')
  rule_a(ctx, overrides)
  rule_b(ctx)
  rule_c(ctx, overrides)
  rule_d(ctx, overrides)
  rule_e(ctx)
  rule_f(ctx)
  ctx.note(f'{len(overrides)} _sym_clone overrides analysed: ' + ', '.join(c.name for c, _ in overrides))
  ctx.note('dropping the per-child clone in _sym_clone would NOT break behaviour '
           '(_relocate_if_symbolic re-clones a parented value), so it is deliberately not a rule')
