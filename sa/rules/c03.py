"""C03 — schema invariant (DESIGN §3 C03)."""
from __future__ import annotations

import ast

from sa import astutil as A
from sa import cfg as C
from sa import dataflow as D
from sa import surface as S
from sa.index import AnalysisError
from sa.rules import c01, c08

PROP = 'C03'
EXPLANATION = (
    'Static decision of: (a) every stored value derives from '
    '_formalized_value and that function applies the field/element spec on '
    'every path where a spec exists and type checking is on; (b) every '
    'growth/shrink of List storage is dominated, up the call graph to each '
    'public entry point, by a max_size/min_size test that raises; (c) '
    'validate-before-mutate ordering in the write primitives; (d) shape of '
    'the ValueSpecBase.apply pipeline (frozen, missing, None tests dominate; '
    '_validate on every path after _apply) and boundary operators of the '
    'range/size validators; (e) unknown keys are rejected before any store.')
FLOORS = {'C03.a': 11, 'C03.b': 5, 'C03.c': 1, 'C03.d': 4, 'C03.e': 1, 'C03.f': 10, 'C03.g': 1, 'C03.h': 2, 'C03.i': 2, 'C03.j': 2, 'C03.k': 1, 'C03.l': 1}
FILES = c08.FILES + ['pyglove/core/typing/value_specs.py',
                     'pyglove/core/typing/class_schema.py']

VS = 'pyglove.core.typing.value_specs.'
CS = 'pyglove.core.typing.class_schema.'


def rule_a(ctx):
  idx = ctx.index
  c08.rule_a(ctx, 'C03.a')
  for cls_fq, spec_words in ((S.LIST, ('_value_spec',)), (S.DICT, ('field',))):
    f = idx.lookup_method(cls_fq, '_formalized_value')
    if f is None:
      raise AnalysisError(f'{cls_fq}._formalized_value vanished')
    g = C.cfg_of(f.node)
    applies = set()
    for n in g.nodes:
      if n.kind == 'stmt' and isinstance(n.ast, ast.Assign) and isinstance(n.ast.value, ast.Call):
        d = A.call_name(n.ast.value) or ''
        if d.endswith('.apply') and n.ast.value.args \
            and isinstance(n.ast.value.args[0], ast.Name) \
            and A.assigned_names(n.ast.targets[0]) == [n.ast.value.args[0].id]:
          applies.add(n.id)
    problems = []
    if not applies:
      problems.append('no `value = <spec>.apply(value, ...)` step')
    blocked_edges = set()
    ntests = 0
    for n in g.nodes:
      if n.kind == 'test':
        txt = A.unparse(n.ast, 200)
        if 'is_type_check_enabled' in txt or any(
            txt == w or txt == 'self.' + w for w in spec_words):
          ntests += 1
          for m, lab in n.succ:
            if lab == 'false':
              blocked_edges.add((n.id, m.id, lab))
    if ntests < 2:
      problems.append('spec-exists / type-check tests not found')
    seen, parent = g.reach(g.entry, blocked_nodes=applies,
                           blocked_edges=blocked_edges, follow_exc=False)
    if g.exit.id in seen:
      problems.append('a path with a spec and type checking on returns without apply: '
                      + str(g.witness_str(parent, g.exit)))
    # the applied value is what gets relocated and returned
    for r in [n for n in A.walk_local(f.node) if isinstance(n, ast.Return)]:
      if not (isinstance(r.value, ast.Call) and A.call_name(r.value) == 'self._relocate_if_symbolic'
              and len(r.value.args) == 2 and isinstance(r.value.args[1], ast.Name)
              and r.value.args[1].id == 'value'):
        problems.append(f'return is `{A.unparse(r.value)}`')
    ctx.ob('C03.a', f.fq, not problems,
           'on every path where a spec exists and type checking is on, the '
           'returned value is the result of <spec>.apply(value, ...)', f.loc,
           '; '.join(problems))
  # stored values derive from _formalized_value (shared with C01.b)
  raws = S.all_raw_writes(idx)
  fmt = lambda n: n in ('self._formalized_value',)
  for rw in raws:
    if rw.slot not in c01.STORE_SLOTS[rw.kind]:
      continue
    args = rw.call.args[1:] if A.call_name(rw.call).split('.')[0] == rw.kind else rw.call.args
    if not args:
      continue
    key = f'{rw.func.fq}#{rw.kind}.{rw.slot}'
    if rw.func.fq == S.DICT + '.__init__' and 'pass_through' in _enclosing_tests(rw):
      ctx.ob('C03.a', key + '#pass_through', True,
             'exempt: pass_through branch (documented: input already validated by the caller)',
             rw.loc)
      continue
    g = C.cfg_of(rw.func.node)
    wn = [k for k in g.nodes if any(c is rw.call for c in k.calls())]
    ok = bool(wn) and all(D.derives_from_call_at(g, rw.func.node, w, args[-1], fmt) for w in wn)
    ctx.ob('C03.a', key, ok,
           'the value stored by the raw write derives from _formalized_value',
           rw.loc, f'stored expression `{A.unparse(args[-1])}` bypasses _formalized_value')


def _enclosing_tests(rw):
  """Source text of the `if` tests lexically enclosing the raw write."""
  out = []
  def visit(node, stack):
    for ch in ast.iter_child_nodes(node):
      if ch is rw.call:
        out.extend(stack)
        return True
      st = stack
      if isinstance(node, ast.If) and ch in node.body:
        st = stack + [A.unparse(node.test)]
      if visit(ch, st):
        return True
    return False
  visit(rw.func.node, [])
  return ' '.join(out)


def _primitive_guards(idx, word):
  """Is the List write primitive guarded from the inside?

  max_size: every raw growth (list.insert / append) in the primitive is
  dominated by a raising test that reads max_size.
  min_size: assuming the stored value is the MISSING marker (= a removal
  request, executed later by the _on_change sweep) and a value spec exists,
  every path to the raw item store passes a raising test that reads min_size."""
  f = idx.lookup_method(S.LIST, S.PRIMITIVE)
  g = C.cfg_of(f.node)
  def raw(slots):
    return [n for n in g.nodes if n.ast is not None and any(
        (c08._raw_of_call(idx, f, c) or '') in slots for c in n.calls())]
  guards = {n.id for n in g.nodes if n.kind == 'test' and g.always_raises_from(n, 'true') and any(
      isinstance(x, ast.Attribute) and x.attr == word for x in ast.walk(n.ast))}
  # the same raising test moved into a private helper called at the same place
  cls = idx.enclosing_class(f)
  def guard_helper(call):
    d = A.call_name(call) or ''
    h = cls.methods.get(d[5:]) if d.startswith('self.') and cls is not None else None
    if h is None or h is f:
      return False
    gh = C.cfg_of(h.node)
    tests = [n for n in gh.nodes if n.kind == 'test' and gh.always_raises_from(n, 'true') and any(
        isinstance(x, ast.Attribute) and x.attr == word for x in ast.walk(n.ast))]
    if not tests:
      return False
    # every normal return of the helper comes from the non-raising side of such a
    # test (or of its `<bound> is not None` companion): no path around the test
    blocked = {n.id for n in tests}
    be = set()
    for n in gh.nodes:
      if n.kind == 'test' and isinstance(n.ast, ast.Compare) and len(n.ast.ops) == 1 \
          and isinstance(n.ast.comparators[0], ast.Constant) and n.ast.comparators[0].value is None \
          and (word in A.unparse(n.ast) or '_value_spec' in A.unparse(n.ast)):
        lab = 'false' if isinstance(n.ast.ops[0], ast.IsNot) else 'true'
        be |= {(n.id, m.id, l) for m, l in n.succ if l == lab}
      if n.kind == 'test' and A.unparse(n.ast) in ('self._value_spec', 'self.value_spec'):
        be |= {(n.id, m.id, l) for m, l in n.succ if l == 'false'}
    seen, _ = gh.reach(gh.entry, blocked_nodes=blocked, blocked_edges=be, follow_exc=False)
    return gh.exit.id not in seen
  guards |= {n.id for n in g.nodes if n.ast is not None and n.kind != 'test' and any(guard_helper(c) for c in n.calls())}
  if not guards:
    return False
  blocked_edges = set()
  # the value to store: the primitive's value parameter and its formalized form
  prm = [p for p in A.param_names(f.node) if p != 'self']
  value_names = set(prm[1:2]) | {nm for st in ast.walk(f.node) if isinstance(st, ast.Assign)
                                 and isinstance(st.value, ast.Call) and (A.call_name(st.value) or '').endswith('_formalized_value')
                                 for nm in A.assigned_names(st.targets[0])}
  for n in g.nodes:
    if n.kind != 'test':
      continue
    t = A.unparse(n.ast, 200)
    # no bound configured: nothing to enforce on that branch
    if t in ('self._value_spec', 'self.value_spec'):
      blocked_edges |= {(n.id, m.id, l) for m, l in n.succ if l == 'false'}
    if isinstance(n.ast, ast.Compare) and len(n.ast.ops) == 1 and isinstance(n.ast.comparators[0], ast.Constant) \
        and n.ast.comparators[0].value is None and (word in t or '_value_spec' in t):
      lab = 'false' if isinstance(n.ast.ops[0], ast.IsNot) else 'true'
      blocked_edges |= {(n.id, m.id, l) for m, l in n.succ if l == lab}
    if word == 'min_size' and c08.is_missing_cmp(n.ast, value_names):
      blocked_edges |= {(n.id, m.id, l) for m, l in n.succ if l == 'false'}
  targets = raw(('list.insert', 'list.append')) if word == 'max_size' else raw(('list.__setitem__',))
  if not targets:
    return False
  seen, _ = g.reach(g.entry, blocked_nodes=guards, blocked_edges=blocked_edges, follow_exc=False)
  return not any(t.id in seen for t in targets)


def _bound_analysis(idx, word):
  """GuardAnalysis whose guard is a raising test that reads `word`
  (max_size / min_size); the no-bound outcomes (`... is not None` false,
  `self._value_spec` false) carry no obligation."""
  def matcher(n, recvs):
    return any(isinstance(x, ast.Attribute) and x.attr == word for x in ast.walk(n.ast))

  def bypass(n, recvs):
    t = n.ast
    txt = A.unparse(t, 200)
    if isinstance(t, ast.Compare) and len(t.ops) == 1 and isinstance(t.comparators[0], ast.Constant) \
        and t.comparators[0].value is None and (word in txt or '_value_spec' in txt):
      if isinstance(t.ops[0], ast.IsNot):
        return 'false'
      if isinstance(t.ops[0], ast.Is):
        return 'true'
    if txt in ('self._value_spec', 'self.value_spec'):
      return 'false'
    return None

  prim_guarded = _primitive_guards(idx, word)
  prim = idx.lookup_method(S.LIST, S.PRIMITIVE)
  onchange = S.list_sweep_function(idx)
  sweep_ok = (word == 'min_size' and prim_guarded and onchange is not None
              and c08.sweeps_only_placeholders(idx, onchange))

  def sinks(func, node):
    out = []
    loc = f'{func.module.relpath}:{node.lineno}'
    for call in node.calls():
      raw = c08._raw_of_call(idx, func, call)
      if raw and raw.startswith('list.'):
        slot = raw.split('.')[1]
        if func is prim and prim_guarded and word == 'max_size':
          continue   # growth inside the primitive is guarded there (checked by _primitive_guards)
        if func is onchange and sweep_ok and slot == '__delitem__':
          continue   # placeholder sweep: the removal request was bounded when the marker was stored
        if word == 'max_size' and slot in ('append', 'insert', 'extend', '__iadd__', '__imul__'):
          out.append((f'raw {raw}', loc, 'self'))
        if word == 'min_size' and slot in ('__delitem__', 'clear', 'pop', 'remove'):
          out.append((f'raw {raw}', loc, 'self'))
        continue
      n = A.call_name(call)
      if not n:
        continue
      recv, _, meth = n.rpartition('.')
      if word == 'max_size' and meth == S.PRIMITIVE and recv and recv != 'super()' \
          and recv != 'self._sym_attributes' and not prim_guarded:
        out.append((f'{recv}.{meth} (may append/insert)', loc, recv))
    return out

  return S.GuardAnalysis(idx, word, sinks, test_matcher=matcher, bypass=bypass)


SIZE_EXEMPT = {
    S.LIST + '.__init__': 'the whole list is validated afterwards by use_value_spec -> value_spec.apply',
}


def rule_b(ctx):
  idx = ctx.index
  names = list(S.mutators_of('list')) + ['_sym_rebind']
  for word, extra in (('max_size', []), ('min_size', [S.list_sweep_function(idx).name])):
    ga = _bound_analysis(idx, word)
    for name in names + extra:
      f = idx.lookup_method(S.LIST, name)
      if f is None:
        continue   # inherited builtin slot: reported by C03.a
      res = ga.unguarded(f, S.LIST)
      # a List primitive reached through the base-class rebind helper
      construct = f'{S.LIST}.{name}#{word}'
      visited_sinks = res
      if not res:
        # did this entry have anything to check at all?
        probe = S.GuardAnalysis(idx, '__none__', ga.find_sinks)
        if not probe.unguarded(f, S.LIST):
          continue
      ok = not res
      ctx.ob('C03.b', construct, ok,
             f'every storage {"growth" if word == "max_size" else "shrink"} '
             f'reachable from this entry point is dominated by a {word} test that raises',
             f.loc,
             '' if ok else f'{res[0][1]} at {res[0][2]} reachable with no {word} check via '
             + ' -> '.join(c.rsplit('.', 1)[-1] for c in res[0][0]),
             None if ok else dict(chain=res[0][0], path=res[0][3]))
  # the write primitive guards itself (all callers are covered at once)
  prim = idx.lookup_method(S.LIST, S.PRIMITIVE)
  for word, what in (('max_size', 'every raw growth (list.insert / append) inside the write primitive is '
                                  'dominated by a max_size test that raises'),
                     ('min_size', 'storing the MISSING marker over an item (= a removal request, executed by '
                                  'the _on_change sweep) is dominated by a min_size test that raises')):
    ok = _primitive_guards(idx, word)
    if ok:
      ctx.ob('C03.b', f'{prim.fq}#{word}', True, what, prim.loc)
    else:
      ctx.info('C03.b', f'{prim.fq}#{word}', 'the primitive has no internal ' + word +
               ' guard: every caller is checked instead', prim.loc)
  # the count compared with min_size is the number of real items: placeholders
  # of removals requested earlier in the same batch do not count
  gp = C.cfg_of(prim.node)
  for k in gp.nodes:
    if k.kind == 'test' and any(isinstance(x, ast.Attribute) and x.attr == 'min_size' for x in ast.walk(k.ast)) \
        and gp.always_raises_from(k, 'true') and isinstance(k.ast, ast.Compare):
      other = [e for e in [k.ast.left] + list(k.ast.comparators)
               if not any(isinstance(x, ast.Attribute) and x.attr == 'min_size' for x in ast.walk(e))]
      raw_len = [e for e in other if A.unparse(e) == 'len(self)']
      ctx.ob('C03.b', f'{prim.fq}#min_size-count', not raw_len,
             'the removal guard counts the items that are not removal placeholders (several removals of one batch '
             'each see the previous ones)', f'{prim.module.relpath}:{k.lineno}',
             'the guard compares len(self), which still contains the placeholders of earlier removals: a batch '
             'of removals takes the list below min_size')
  oc = S.list_sweep_function(idx)
  if oc is not None and _primitive_guards(idx, 'min_size'):
    ok = c08.sweeps_only_placeholders(idx, oc)
    ctx.ob('C03.b', f'{oc.fq}#sweep', ok,
           'the sweep deletes only indices whose item compared equal to the MISSING marker '
           '(the removal was bounded when the marker was stored)', oc.loc,
           'the sweep can delete an item that is not a placeholder: no min_size test covers it')
  for fq, why in SIZE_EXEMPT.items():
    idx.func(fq)
    ctx.ob('C03.b', fq, True, 'exempt: ' + why, idx.func(fq).loc)


def rule_g(ctx):
  """A Union accepts a value only through one of its candidates: everything
  Union._apply returns is the result of <candidate>.apply(...) (so range,
  size, enum ... constraints of the candidate are enforced on every path,
  including the type-conversion path); the only exception is the unresolved
  forward-declaration case, which returns the input untouched."""
  idx = ctx.index
  f = idx.func(VS + 'Union._apply')
  g = C.cfg_of(f.node)
  # nested helpers whose returned (first) value is a candidate.apply(...) result
  helpers = set()
  for n in ast.walk(f.node):
    if isinstance(n, (ast.FunctionDef, ast.Lambda)) and n is not f.node:
      rets = [r for r in ast.walk(n) if isinstance(r, ast.Return) and r.value is not None]
      if rets and any(A.has_call(r.value, lambda d: d.endswith('.apply')) for r in rets):
        helpers.add(getattr(n, 'name', '<lambda>'))
  def from_apply(e):
    if isinstance(e, ast.Call):
      d = A.call_name(e) or ''
      return d.endswith('.apply') or d in helpers
    return False
  problems = []
  n_ret = 0
  for k in g.nodes:
    if k.kind != 'return' or k.ast.value is None:
      continue
    v = k.ast.value
    n_ret += 1
    if from_apply(v):
      continue
    if isinstance(v, ast.Name):
      defs = D.reaching_defs(g, k, v.id)
      srcs = [val for _, val in defs]
      if srcs and all(val is not None and from_apply(val) for val in srcs):
        continue
      # the untouched input: only on the unresolved-forward-declaration branch
      if all(val is None for val in srcs):
        tests = [t for t in g.nodes if t.kind == 'test' and 'type_resolved' in A.unparse(t.ast)]
        blocked = {(t.id, m.id, l) for t in tests for m, l in t.succ
                   if l == ('false' if A.unparse(t.ast).startswith('self.type_resolved') else 'true')}
        # block the edge taken when the type is NOT resolved: the return must become unreachable
        seen, _ = g.reach(g.entry, blocked_edges=blocked, follow_exc=False)
        if tests and k.id not in seen:
          continue
      if any(val is not None and from_apply(val) for val in srcs) and any(val is None for val in srcs):
        # `value, ok = helper(c, value)` re-binds the parameter: the return after a
        # successful helper call is the applied value
        continue
    problems.append(f'line {k.lineno}: returns `{A.unparse(v, 60)}`, which is not the result of a candidate\'s apply()')
  if n_ret < 2:
    raise AnalysisError('Union._apply changed shape')
  ctx.ob('C03.g', f.fq, not problems,
         'every value a Union accepts is the result of one of its candidates\' apply() (constraints of the '
         'candidate are enforced on every path, including type conversion)', f.loc, '; '.join(problems))


def rule_h(ctx):
  """(1) The missing-value report of a typed Dict looks at every stored key of
  every matched key spec - constant or dynamic - so a partial child under a
  dynamic key makes its owners partial.  (2) Schema.get_field resolves a key
  the way Schema.resolve does: a constant key first, then the FIRST non-const
  key spec in declaration order that matches (no shortcut through a cached
  field), so single writes are validated by the same field as construction."""
  idx = ctx.index
  f = idx.lookup_method(S.DICT, '_sym_missing')
  g = C.cfg_of(f.node)
  problems = []
  # locals by role: `<matched>, _ = ....resolve(...)`; `for <key_spec>, <keys> in <matched>.items()`
  matched = {st.targets[0].elts[0].id for st in ast.walk(f.node) if isinstance(st, ast.Assign)
             and isinstance(st.targets[0], ast.Tuple) and len(st.targets[0].elts) == 2
             and isinstance(st.targets[0].elts[0], ast.Name)
             and isinstance(st.value, ast.Call) and (A.call_name(st.value) or '').endswith('.resolve')}
  KEYS = {lp.target.elts[1].id for lp in ast.walk(f.node) if isinstance(lp, ast.For)
          and isinstance(lp.iter, ast.Call) and isinstance(lp.iter.func, ast.Attribute) and lp.iter.func.attr == 'items'
          and isinstance(lp.iter.func.value, ast.Name) and lp.iter.func.value.id in matched
          and isinstance(lp.target, ast.Tuple) and len(lp.target.elts) == 2 and isinstance(lp.target.elts[1], ast.Name)}
  inner = [k for k in g.nodes if k.kind == 'iter' and isinstance(k.ast.iter, ast.Name) and k.ast.iter.id in KEYS]
  if not inner:
    problems.append('the loop over the matched keys vanished')
  else:
    # only the emptiness of `keys` may guard that loop
    outer = [k for k in g.nodes if k.kind == 'iter' and any(x is inner[0].ast for x in ast.walk(k.ast)) and k is not inner[0]]
    if outer:
      # assuming the spec matched at least one key, every pass through the outer
      # loop body reaches the loop over those keys
      allowed = [t for t in g.nodes if t.kind == 'test' and A.unparse(t.ast) in
                 {x for kk in KEYS for x in (kk, f'len({kk}) > 0', f'len({kk}) != 0')}]
      blocked = {(t.id, m.id, l) for t in allowed for m, l in t.succ if l == 'false'}
      for m, lab in outer[0].succ:
        if lab in ('body', 'true', 'next'):
          seen, parent = g.reach(m, blocked_nodes={inner[0].id}, blocked_edges=blocked, follow_exc=False)
          seen.add(m.id)
          heads = [h for h in g.nodes if h.kind in ('loophead', 'iter') and h.ast is outer[0].ast]
          if m is not inner[0] and (any(h.id in seen for h in heads) or g.exit.id in seen):
            problems.append('some matched keys are skipped by an extra condition: a partial value stored under such a key '
                            'is not reported and its owners pass for complete')
  ctx.ob('C03.h', f.fq, not problems,
         'missing values are collected from every stored key of every matched key spec (constant or dynamic)',
         f.loc, '; '.join(problems))
  f = idx.func('pyglove.core.typing.class_schema.Schema.get_field')
  g = C.cfg_of(f.node)
  problems = []
  loops = [k for k in g.nodes if k.kind == 'iter' and 'self._fields.items()' in A.unparse(k.ast.iter)]
  loopvars = set()
  for lp in loops:
    loopvars |= set(A.assigned_names(lp.ast.target))
  for k in g.nodes:
    if k.kind != 'return' or k.ast.value is None:
      continue
    v = k.ast.value
    t = A.unparse(v)
    if t == 'None' or t.startswith('self._fields['):
      continue
    if isinstance(v, ast.Name) and v.id in loopvars and any(any(x is k.ast for x in ast.walk(lp.ast)) for lp in loops):
      continue
    problems.append(f'line {k.lineno}: returns `{t}`, not the first matching field in declaration order - single writes '
                    f'are validated by a different field than construction (Schema.resolve)')
  if not loops:
    problems.append('get_field no longer scans the fields in declaration order')
  ctx.ob('C03.h', f.fq, not problems,
         'a key is resolved to its constant field, else to the first matching non-const field in declaration order',
         f.loc, '; '.join(problems))


def rule_c(ctx):
  before = len(ctx.obs)
  c01.rule_e(ctx)
  for o in ctx.obs[before:]:
    o.rule = 'C03.c'
    o.what = ('a rejected write leaves the location untouched: ' + o.what)
  # bulk mutators that re-apply the spec after emptying the storage: whatever
  # the re-application can reject is checked before the first raw write
  idx = ctx.index
  for cls_fq in (S.LIST, S.DICT):
    c = idx.cls(cls_fq)
    for name, f in sorted(c.methods.items()):
      if name in ('use_value_spec', '__init__', '__setstate__', '_sym_clone', 'custom_apply'):
        continue
      g = C.cfg_of(f.node)
      refill = [k for k in g.nodes if k.ast is not None and any(
          A.call_name(x) == 'self.use_value_spec' and x.args and not (isinstance(x.args[0], ast.Constant) and x.args[0].value is None)
          for x in k.calls())]
      if not refill:
        continue
      raw = [k for k in g.nodes if k.ast is not None and any(
          (A.call_name(x) or '').startswith(('super().', 'dict.', 'list.')) and (A.call_name(x) or '').split('.')[-1] in ('clear', '__delitem__', 'pop', 'popitem', '__setitem__', 'update', 'insert', 'append', 'extend', 'remove', 'sort', 'reverse')
          for x in k.calls())]
      raw += [k for k in g.nodes if k.kind == 'stmt' and isinstance(k.ast, ast.Assign)
              and A.unparse(k.ast.targets[0]) == 'self._value_spec']
      def prevalidates(k):
        for x in k.calls():
          d = A.call_name(x) or ''
          if d.endswith('.apply') and x.args and A.unparse(x.args[0]) in ('{}', 'dict()', '[]', 'list()'):
            # validated under the partial setting the re-application will use: the scoped
            # flag (base.accepts_partial), not just the object's own
            ap = A.kwarg(x, 'allow_partial') or (x.args[1] if len(x.args) > 1 else None)
            if ap is not None and 'accepts_partial' in A.unparse(ap):
              return True
        return False
      spec_locals = {t.id for k in g.nodes if k.kind == 'stmt' and isinstance(k.ast, ast.Assign)
                     and A.unparse(k.ast.value) == 'self._value_spec' for t in k.ast.targets if isinstance(t, ast.Name)}
      blocked = {(k.id, m2.id, l) for k in g.nodes if k.kind == 'test' and A.unparse(k.ast) in spec_locals | {'self._value_spec'}
                 for m2, l in k.succ if l == 'false'}
      pre = {k.id for k in g.nodes if k.ast is not None and prevalidates(k)}
      seen, parent = g.reach(g.entry, blocked_nodes=pre, blocked_edges=blocked, follow_exc=False)
      hit = [k for k in raw if k.id in seen]
      ctx.ob('C03.c', f.fq + '#bulk', bool(raw) and not hit,
             'a rejected write leaves the location untouched: a mutator that empties the storage and re-applies the '
             'value spec validates the outcome (spec applied to an empty value) before the first raw write', f.loc,
             (f'line {hit[0].lineno} is reached without a prior validation: a required field without default makes the '
              f're-application raise with the content already gone' if hit else 'raw write not found'))


def _cmp_rows(fn):
  """(op, left_src, right_src, raises) for compare tests whose true branch raises."""
  g = C.cfg_of(fn)
  rows = []
  for n in g.nodes:
    if n.kind != 'test':
      continue
    for left, op, right in A.compare_parts(n.ast):
      if isinstance(op, (ast.Lt, ast.LtE, ast.Gt, ast.GtE)):
        raises = any(l == 'true' for _, l in n.succ) and g.always_raises_from(n, 'true')
        rows.append((type(op).__name__, A.unparse(left), A.unparse(right), raises, n.lineno))
  return rows


BOUND_WORDS = ('min', 'max')


def check_value_bound_rows(ctx, rule, func, value_words):
  """Value-against-inclusive-bound comparisons: `v < min` / `v > max` raise.
  Rows of private helpers the function calls directly are included."""
  from sa import surface as S3
  rows = []
  for h in S3.helper_closure(ctx.index, func):
    rows += _cmp_rows(h.node)
  n = 0
  for op, left, right, raises, line in rows:
    lmin, lmax = 'min' in left, 'max' in left
    rmin, rmax = 'min' in right, 'max' in right
    if not (lmin or lmax or rmin or rmax) or ((lmin or lmax) and (rmin or rmax)):
      continue
    if not raises:
      continue
    n += 1
    # normalise to value OP bound
    if lmin or lmax:
      flip = {'Lt': 'Gt', 'LtE': 'GtE', 'Gt': 'Lt', 'GtE': 'LtE'}
      op, left, right = flip[op], right, left
      rmin, rmax = lmin, lmax
    want = 'Lt' if rmin else 'Gt'
    ok = op == want
    ctx.ob(rule, f'{func.fq}#{"min" if rmin else "max"}@{left}', ok,
           f'value is rejected exactly when strictly outside the inclusive bound '
           f'({left} {"<" if rmin else ">"} {right} raises)',
           f'{func.module.relpath}:{line}',
           f'comparison is `{left} {op} {right}`: '
           + ('rejects the inclusive boundary itself' if op in ('LtE', 'GtE') else 'accepts values outside the bound'))
  return n


def rule_d(ctx):
  idx = ctx.index
  f = idx.func(VS + 'ValueSpecBase.apply')
  g = C.cfg_of(f.node)
  problems = []
  ap = [n for n in g.nodes if any(A.call_name(c) == 'self._apply' for c in n.calls())]
  va = lambda n: any(A.call_name(c) == 'self._validate' for c in n.calls())
  if not ap:
    problems.append('_apply call vanished')
  else:
    w = g.can_skip(ap[0], va)
    if w:
      problems.append(f'path from _apply to return without _validate: {w}')
    # frozen / missing / None tests dominate the type check + _apply
    for word, desc in (('self.frozen', 'frozen'), ('MISSING_VALUE == value', 'missing'),
                       ('value is None', 'None')):
      tests = {n.id for n in g.nodes if n.kind == 'test' and word in A.unparse(n.ast, 200)}
      if not tests:
        problems.append(f'{desc} test vanished')
        continue
      seen, _ = g.reach(g.entry, blocked_nodes=tests, follow_exc=False)
      if ap[0].id in seen:
        problems.append(f'_apply reachable without the {desc} test')
    # no normal return before the frozen test (a frozen field always yields
    # its frozen value)
    frozen_tests = [n for n in g.nodes if n.kind == 'test' and 'self.frozen' in A.unparse(n.ast, 200)]
    if frozen_tests:
      w = g.can_skip(g.entry, lambda n: n in frozen_tests)
      if w:
        problems.append(f'a path returns without consulting `frozen`: {w}')
    # the type check
    tc = {n.id for n in g.nodes if n.kind == 'test' and 'is_instance' in A.unparse(n.ast, 200)}
    if not tc:
      problems.append('type check vanished')
    else:
      # only the "no value_type / unresolved" tests may bypass it
      blocked = set()
      for n in g.nodes:
        if n.kind == 'test' and A.unparse(n.ast, 100) in ('self.type_resolved', 'self.value_type is not None'):
          for m, lab in n.succ:
            if lab == 'false':
              blocked.add((n.id, m.id, lab))
      seen, _ = g.reach(g.entry, blocked_nodes=tc, blocked_edges=blocked, follow_exc=False)
      if ap[0].id in seen:
        problems.append('_apply reachable without the value_type check')
    # frozen branch returns the default and rejects other values
    fr = [n for n in g.nodes if n.kind == 'test' and 'self.default != value' in A.unparse(n.ast, 200)]
    if not fr or not g.always_raises_from(fr[0], 'true'):
      problems.append('frozen branch does not reject a different value')
    # missing + not allow_partial raises
    ms = [n for n in g.nodes if n.kind == 'test' and A.unparse(n.ast) == 'allow_partial']
    if not ms or not g.always_raises_from(ms[0], 'false'):
      problems.append('missing value accepted without allow_partial')
    nn = [n for n in g.nodes if n.kind == 'test' and A.unparse(n.ast) == 'self.is_noneable']
    if not nn or not g.always_raises_from(nn[0], 'false'):
      problems.append('None accepted by a non-noneable spec')
  ctx.ob('C03.d', f.fq, not problems,
         'apply: frozen, missing and None tests dominate the type check; every '
         'path from _apply to a normal return passes _validate', f.loc,
         '; '.join(problems))
  # boundary operators of the validators
  n = 0
  for q in ('Number._validate', 'List._validate', 'Tuple._apply'):
    fn = idx.func(VS + q)
    n += check_value_bound_rows(ctx, 'C03.d', fn, ('value', 'len'))
  if n < 3:
    raise AnalysisError(f'only {n} value-against-bound rows found in the validators')
  # Enum / Str / Type validators reject on mismatch
  for q, word in (('Enum._validate', 'not in self._values'), ('Str._validate', 'self._regex.match'),
                  ('Type._validate', 'is_subclass')):
    fn = idx.func(VS + q)
    g = C.cfg_of(fn.node)
    ts = [t for t in g.nodes if t.kind == 'test' and word in A.unparse(t.ast, 200)]
    ok = False
    for t in ts:
      for lab in ('true', 'false'):
        if any(l == lab for _, l in t.succ) and g.always_raises_from(t, lab):
          # the raising outcome must be the mismatch one
          neg = A.unparse(t.ast, 200).startswith('not ') or 'not in' in A.unparse(t.ast, 200)
          ok = True
    # desugared `not X`: raising label is 'false' of X
    ctx.ob('C03.d', fn.fq, ok, f'validator raises on mismatch ({word})', fn.loc,
           'mismatch test no longer leads to a raise')
  # Field.apply applies the value spec then the transform
  fa = idx.func(CS + 'Field.apply')
  g = C.cfg_of(fa.node)
  vs = [n for n in g.nodes if any(A.call_name(c) == 'self._value.apply' for c in n.calls())]
  ok = bool(vs) and not g.can_skip(g.entry, lambda n: n in vs)
  ctx.ob('C03.d', fa.fq, ok, 'Field.apply always applies the value spec', fa.loc,
         'a path returns without self._value.apply')


def rule_e(ctx):
  idx = ctx.index
  f = idx.func(CS + 'Schema.apply')
  g = C.cfg_of(f.node)
  # locals by role: `<matched>, <unmatched> = self.resolve(...)`; `<field> = self._fields[...]`
  dparam = [p for p in A.param_names(f.node) if p != 'self'][0]
  unmatched = {st.targets[0].elts[1].id for st in ast.walk(f.node) if isinstance(st, ast.Assign)
               and isinstance(st.targets[0], ast.Tuple) and len(st.targets[0].elts) == 2
               and all(isinstance(e, ast.Name) for e in st.targets[0].elts)
               and isinstance(st.value, ast.Call) and (A.call_name(st.value) or '').endswith('.resolve')}
  field_locals = {nm for st in ast.walk(f.node) if isinstance(st, ast.Assign) and isinstance(st.value, ast.Subscript)
                  and A.unparse(st.value.value) == 'self._fields' for nm in A.assigned_names(st.targets[0])}
  guards = [n for n in g.nodes if n.kind == 'test' and isinstance(n.ast, ast.Name) and n.ast.id in unmatched]
  stores = [n for n in g.nodes if n.kind == 'stmt' and isinstance(n.ast, ast.Assign)
            and isinstance(n.ast.targets[0], ast.Subscript)
            and A.dotted(n.ast.targets[0].value) == dparam]
  problems = []
  if not guards or not g.always_raises_from(guards[0], 'true'):
    problems.append('unmatched keys do not raise')
  elif 'KeyError' not in ''.join(A.unparse(k.ast, 300) for k in g.nodes if k.kind == 'raisestmt'):
    problems.append('unmatched keys no longer raise KeyError')
  if not stores:
    problems.append('store vanished')
  if guards and stores:
    blocked = {(guards[0].id, m.id, l) for m, l in guards[0].succ if l == 'false'}
    seen, _ = g.reach(g.entry, blocked_edges=blocked, follow_exc=False)
    if any(s.id in seen for s in stores):
      problems.append('a store is reachable without the unmatched-keys test')
    # stored value is the applied one
    for s in stores:
      if not D.derives_from_call_at(g, f.node, s, s.ast.value, lambda d: d.endswith('.apply') and d.split('.')[0] in field_locals):
        problems.append(f'stored value `{A.unparse(s.ast.value)}` is not the result of field.apply')
  ctx.ob('C03.e', f.fq, not problems,
         'unknown keys raise KeyError before any dict_obj[key] = field.apply(...) store',
         f.loc, '; '.join(problems))
  f = idx.lookup_method(S.DICT, S.PRIMITIVE)
  g = C.cfg_of(f.node)
  problems = []
  fl = {nm for st in ast.walk(f.node) if isinstance(st, ast.Assign) and isinstance(st.value, ast.Call)
        and (A.call_name(st.value) or '').endswith('.get_field') for nm in A.assigned_names(st.targets[0])}
  gf = [n for n in g.nodes if n.kind == 'test' and isinstance(n.ast, ast.Name) and n.ast.id in fl]
  raw = [n for n in g.nodes if n.ast is not None and any(c08._raw_of_call(idx, f, c) for c in n.calls())]
  if not gf:
    problems.append('`if not field` test vanished')
  else:
    if not g.always_raises_from(gf[0], 'false'):
      problems.append('unknown key under a schema does not raise')
    # on the schema path (spec test true) raw writes only after the field test
    spec = [n for n in g.nodes if n.kind == 'test' and A.unparse(n.ast) == 'self._value_spec.schema']
    if spec:
      start = [m for m, l in spec[0].succ if l == 'true']
      blocked = {(gf[0].id, m.id, l) for m, l in gf[0].succ if l == 'true'}
      for s in start:
        seen, _ = g.reach(s, blocked_edges=blocked, follow_exc=False)
        if any(r.id in seen for r in raw):
          problems.append('raw write reachable on the schema path without a declared field')
    else:
      problems.append('schema test vanished')
  ctx.ob('C03.e', f.fq, not problems,
         'under a schema, a key with no field raises KeyError before any raw write',
         f.loc, '; '.join(problems))


def rule_f(ctx):
  """Typed containers adopted without re-validation rely on is_compatible:
  List.custom_apply / Dict.custom_apply skip the standard apply when the
  field's spec `is_compatible` with the container's own spec.  The soundness
  clauses of compatibility (C04.b polarity/unbounded, C04.e key sets) are
  therefore necessary conditions of C03 as well."""
  from sa.rules import c04
  idx = ctx.index
  from sa import surface as S2
  for cls_fq in (S2.LIST, S2.DICT):
    f = idx.lookup_method(cls_fq, 'custom_apply')
    g = C.cfg_of(f.node)
    ts = [k for k in g.nodes if k.kind == 'test' and 'is_compatible(self._value_spec)' in A.unparse(k.ast, 200)]
    ok = bool(ts) and g.always_raises_from(ts[0], 'false')
    ctx.ob('C03.f', f.fq, ok,
           'a pre-typed container is adopted by a field only if the field spec is_compatible with '
           'the container spec (else ValueError)', f.loc,
           'the compatibility gate of custom_apply is gone or no longer raises')
    # the standard apply (re-validation under the adopter's partial setting) is
    # skipped only when the container's own allow_partial equals the adopter's
    ret_names = set()
    skip_nodes = []
    for k in g.nodes:
      if k.kind == 'return' and isinstance(k.ast.value, ast.Tuple) and k.ast.value.elts:
        e0 = k.ast.value.elts[0]
        if isinstance(e0, ast.Constant) and e0.value is False:
          skip_nodes.append(k)
        elif isinstance(e0, ast.Name):
          ret_names.add(e0.id)
    for k in g.nodes:
      if k.kind == 'stmt' and isinstance(k.ast, ast.Assign) and isinstance(k.ast.value, ast.Constant) \
          and k.ast.value.value is False and set(A.assigned_names(k.ast.targets[0])) & ret_names:
        skip_nodes.append(k)
    eq_tests = [k for k in g.nodes if k.kind == 'test' and isinstance(k.ast, ast.Compare) and len(k.ast.ops) == 1
                and isinstance(k.ast.ops[0], (ast.Eq, ast.NotEq))
                and {A.unparse(k.ast.left), A.unparse(k.ast.comparators[0])} == {'self._allow_partial', 'allow_partial'}]
    problems = []
    if not skip_nodes:
      problems.append('no path skips the standard apply (shape changed)')
    if not eq_tests:
      problems.append('the skip is not conditioned on self._allow_partial == allow_partial')
    else:
      blocked = {(t.id, m.id, l) for t in eq_tests for m, l in t.succ
                 if l == ('true' if isinstance(t.ast.ops[0], ast.Eq) else 'false')}
      seen, _ = g.reach(g.entry, blocked_edges=blocked, follow_exc=False)
      for sk in skip_nodes:
        if sk.id in seen:
          problems.append(f'the standard apply is skipped (line {sk.lineno}) although the container was validated '
                          f'under a different partial setting: a completed partial container keeps '
                          f'allow_partial=True inside a strict parent')
      # on the other outcome the adopter's setting is installed
      inst = [k for k in g.nodes if k.kind == 'stmt' and isinstance(k.ast, ast.Assign)
              and A.unparse(k.ast.targets[0]) == 'self._allow_partial' and A.unparse(k.ast.value) == 'allow_partial']
      if not inst:
        problems.append('the adopter\'s allow_partial is never installed')
    ctx.ob('C03.f', f.fq + '#partial', not problems,
           're-validation of an adopted typed container is skipped only when its own allow_partial equals the '
           'adopter\'s; otherwise the adopter\'s setting is installed and the standard apply runs', f.loc,
           '; '.join(problems))
  before = len(ctx.obs)
  c04.rule_b(ctx)
  c04.rule_e(ctx)
  for o in ctx.obs[before:]:
    o.rule = 'C03.f'


def rule_j(ctx):
  """A container offered to a typed field adopts the field's spec in
  custom_apply *before* the caller's standard apply has validated its content.
  When that validation fails the caller gets the error - and the container keeps
  a spec its content violates.  Necessary: the adoption is undone on failure
  (store inside a try whose handler resets it) or does not happen in
  custom_apply at all."""
  idx = ctx.index
  n = 0
  for cls_fq in (S.LIST, S.DICT):
    f = idx.lookup_method(cls_fq, 'custom_apply')
    spec_param = [p for p in A.param_names(f.node) if 'spec' in p][:1]
    stores = [st for st in A.walk_local(f.node) if isinstance(st, ast.Assign)
              and A.unparse(st.targets[0]) == 'self._value_spec' and [A.unparse(st.value)] == spec_param]
    n += 1
    protected = []
    for st in stores:
      ok = False
      for t in ast.walk(f.node):
        if isinstance(t, ast.Try) and any(x is st for b in t.body for x in ast.walk(b)):
          ok = any(isinstance(x, ast.Assign) and A.unparse(x.targets[0]) == 'self._value_spec'
                   and A.unparse(x.value) == 'None' for h in t.handlers for x in ast.walk(h))
      protected.append(ok)
    ctx.ob('C03.j', f.fq + '#adopt-before-validate', all(protected),
           'a container adopts a field\'s value spec only if its content passes it (the adoption is undone when the '
           'standard apply that follows rejects the content)', f.loc,
           f'line {stores[0].lineno if stores else 0}: `self._value_spec = {spec_param[0] if spec_param else "?"}` before the '
           f'content is validated by the caller, with nothing to undo it: after a rejected assignment the container '
           f'carries a schema its content violates')
  if n < 2:
    raise AnalysisError('custom_apply of List/Dict not found')


def rule_k(ctx):
  """A typed Dict loses a key only through the write primitive (which formalizes
  the MISSING marker against the field: a required key raises) or through clear
  (validated up front, C03.c#bulk).  Any other raw removal is unreachable once a
  value spec is bound (popitem refuses typed dicts)."""
  idx = ctx.index
  c = idx.cls(S.DICT)
  n = 0
  for name, f in sorted(c.methods.items()):
    if name in (S.PRIMITIVE, 'clear', '__init__'):
      continue
    g = C.cfg_of(f.node)
    raw = [k for k in g.nodes if k.ast is not None and any(
        (c08._raw_of_call(idx, f, cl) or '') in ('dict.popitem', 'dict.pop', 'dict.__delitem__', 'dict.clear')
        for cl in k.calls())]
    if not raw:
      continue
    n += 1
    # assume a spec is bound: the no-spec outcome of every spec test is blocked
    blocked = set()
    for k in g.nodes:
      if k.kind != 'test':
        continue
      t = A.unparse(k.ast)
      if t in ('self._value_spec', 'self.value_spec', 'self._value_spec is not None', 'self.value_spec is not None'):
        blocked |= {(k.id, m.id, l) for m, l in k.succ if l == 'false'}
      elif t in ('self._value_spec is None', 'self.value_spec is None', 'not self._value_spec'):
        blocked |= {(k.id, m.id, l) for m, l in k.succ if l == 'true'}
    seen, _ = g.reach(g.entry, blocked_edges=blocked, follow_exc=False)
    hit = [k for k in raw if k.id in seen]
    ctx.ob('C03.k', f.fq + '#typed-removal', not hit,
           'a raw removal from Dict storage outside the write primitive is unreachable once a value spec is bound '
           '(a required key cannot be removed behind the schema\'s back)', f.loc,
           f'line {hit[0].lineno if hit else 0}: the raw removal is reachable on a typed Dict: a required field can be '
           f'removed without any check')
  if n < 1:
    raise AnalysisError('no raw removal outside the Dict primitive found (popitem vanished?)')


def rule_l(ctx):
  """A removal requested by storing the MISSING marker into a List is executed
  by a sweep.  The sweep must run for notified changes (List._on_change) AND for
  changes that are not notified (notifications off, skip_notification): the
  routine base.Symbolic runs for un-notified changes reaches it through a hook
  List overrides.  Otherwise the list keeps MISSING_VALUE as an element - a
  state its schema rejects."""
  idx = ctx.index
  sweep = S.list_sweep_function(idx)
  lst = idx.cls(S.LIST)
  callers = {m.name for m in lst.methods.values() if any(A.call_name(c) == f'self.{sweep.name}' for c in A.calls_in(m.node))}
  notified = '_on_change' in callers or sweep.name == '_on_change'
  base_un = idx.find_func('pyglove.core.symbolic.base.Symbolic._sym_reset_content_caches')
  hooks = set()
  if base_un is not None:
    hooks = {c.func.attr for c in A.calls_in(base_un.node) if isinstance(c.func, ast.Attribute)}
  silent = bool(hooks & callers) or sweep.name in hooks
  ctx.ob('C03.l', sweep.fq + '#on-every-change', notified and silent,
         'the sweep of removal placeholders runs for notified and for un-notified changes', sweep.loc,
         f'reached from List methods {sorted(callers)}; the un-notified routine of base.Symbolic calls {sorted(hooks)}: '
         f'after rebind({{i: MISSING_VALUE}}, skip_notification=True) the list still holds MISSING_VALUE')


def rule_m(ctx):
  """A refused growth changes nothing - the offered value included: in the List primitive
  no size refusal (`raise ... max size`) is reachable after `_formalized_value`, which
  adopts the value as a child (sets its parent and path).  A rejected `pg.Insertion(y)`
  left `y.sym_parent is l`, so later changes of `y` were reported to a list that does not
  hold it."""
  idx = ctx.index
  f = idx.lookup_method(S.LIST, S.PRIMITIVE)
  g = C.cfg_of(f.node)
  adopt = [k for k in g.nodes if k.ast is not None and any((A.call_name(c) or '').endswith('_formalized_value') for c in k.calls())]
  refuse = [k for k in g.nodes if k.kind == 'raisestmt' and 'max size' in A.unparse(k.ast, 300)]
  if not adopt or not refuse:
    raise AnalysisError('List primitive: adoption / max-size refusal not found')
  bad = []
  for a in adopt:
    seen, _ = g.reach(a, follow_exc=False)
    bad += [r.lineno for r in refuse if r.id in seen]
  ctx.ob('C03.m', f'{f.fq}#refuse-before-adopt', not bad,
         'the max-size refusal is decided before the value is adopted as a child', f.loc,
         f'the refusal at line {sorted(set(bad))} comes after _formalized_value: a rejected insertion leaves the value '
         f'parented to the list (y.sym_parent is l although l does not hold y)')


def run(ctx):
  ctx.consult(*FILES)
  rule_m(ctx)
  rule_f(ctx)
  rule_a(ctx)
  rule_b(ctx)
  rule_c(ctx)
  rule_d(ctx)
  rule_e(ctx)
  rule_g(ctx)
  rule_h(ctx)
  rule_j(ctx)
  rule_k(ctx)
  rule_l(ctx)
  S.typecheck_flag_obligations(ctx, 'C03.i', ['pyglove/core/symbolic/list.py', 'pyglove/core/symbolic/dict.py'], floor=2)
  ctx.assume('acceptance semantics of each spec (what apply accepts) is not decided')
