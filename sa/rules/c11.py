"""C11 — search-space enumeration (DESIGN §3 C11)."""
from __future__ import annotations

import ast

from sa import astutil as A
from sa import cfg as C
from sa import dataflow as D
from sa import surface as S
from sa.index import AnalysisError
from sa.rules import c03

PROP = 'C11'
EXPLANATION = (
    'Static decision of: (a) every candidate subscript whose index comes from '
    'a DNA / decision input is dominated by BOTH a lower (v < 0) and an upper '
    '(v >= len(candidates)) test that raises; (b) the sibling algorithms of a '
    'spec class (validate, iterate, count, sample, bind) all consult every '
    'constraint attribute any of them consults; (c) memoised attributes of '
    'DNASpec/DNA classes are reset in _on_bound; (d) distinct/sorted tests '
    'operate on decision values, the counting recurrence depends only on its '
    'own parameters, and range tests reject exactly outside the inclusive '
    'bounds.  The set equality iterator = formula = validator = sampler is '
    'arithmetic over runtime sizes and is not decided.')
FLOORS = {'C11.a': 3, 'C11.b': 12, 'C11.c': 2, 'C11.d': 4, 'C11.e': 2, 'C11.g': 30, 'C11.h': 2, 'C11.z': 2}
FILES = ['pyglove/core/geno/base.py', 'pyglove/core/geno/categorical.py',
         'pyglove/core/geno/space.py', 'pyglove/core/geno/numerical.py',
         'pyglove/core/geno/custom.py', 'pyglove/core/geno/sweeping.py',
         'pyglove/core/geno/random.py']

G = 'pyglove.core.geno.'


def _nested_role(scopes, val):
  """Role of the nested helper that `val` calls (by what the helper does, not
  by its name): 'index-helper' resolves a user value to a candidate index
  through <spec>.candidate_index(...); 'input-reader' takes the next item of the
  caller's input (next(...))."""
  if not (isinstance(val, ast.Call) and isinstance(val.func, ast.Name)):
    return None
  for sc in scopes:
    for n in ast.walk(sc):
      if isinstance(n, ast.FunctionDef) and n.name == val.func.id and n is not sc:
        calls = [c for c in ast.walk(n) if isinstance(c, ast.Call)]
        if any(isinstance(c.func, ast.Attribute) and c.func.attr == 'candidate_index' for c in calls):
          return 'index-helper'
        if any(isinstance(c.func, ast.Name) and c.func.id == 'next' for c in calls):
          return 'input-reader'
  return None


def _is_input_index(func, idx_expr):
  """Classify a candidates[...] index: 'input' / 'helper:<name>' / 'internal'."""
  if isinstance(idx_expr, ast.Attribute) and idx_expr.attr == 'value':
    return 'input'
  if isinstance(idx_expr, ast.Name):
    scopes = [func.node]
    p = func.parent
    while p is not None:
      scopes.append(p.node)
      p = p.parent
    kinds = set()
    for sc in scopes:
      for stmt, val in D.defs_of(sc, idx_expr.id):
        if val is None:
          continue
        txt = A.unparse(val, 300)
        role = _nested_role(scopes, val)
        if role == 'index-helper':
          kinds.add('helper:_choice_index')
        elif role == 'input-reader' or 'generator_fn(' in txt:
          kinds.add('input')
        elif isinstance(val, ast.Attribute) and val.attr == 'value':
          kinds.add('input')
        elif isinstance(stmt, (ast.For, ast.comprehension)) and any(
            isinstance(x, ast.Attribute) and x.attr == 'value' for x in ast.walk(val)) \
            and not isinstance(val, ast.Call):
          kinds.add('input')
        elif isinstance(stmt, (ast.For, ast.comprehension)) and isinstance(val, ast.Name):
          # loop over a name: look at what that name is
          for _, v2 in D.defs_of(sc, val.id):
            if v2 is not None and ('generator_fn(' in A.unparse(v2, 200)):
              kinds.add('input')
          if isinstance(val, ast.Call) and A.call_name(val) == 'enumerate':
            pass
        elif isinstance(val, ast.Call) and A.call_name(val) == 'enumerate' and val.args:
          inner = val.args[0]
          if isinstance(inner, ast.Name):
            for _, v2 in D.defs_of(sc, inner.id):
              if v2 is not None and 'generator_fn(' in A.unparse(v2, 200):
                kinds.add('input')
    if 'input' in kinds:
      return 'input'
    for k in kinds:
      if k.startswith('helper'):
        return k
  return 'internal'


def _bound_tests(g, idx_txt):
  lower, upper = [], []
  for n in g.nodes:
    if n.kind != 'test':
      continue
    for left, op, right in A.compare_parts(n.ast):
      l, r = A.unparse(left), A.unparse(right)
      raising = any(lab == 'true' for _, lab in n.succ) and g.always_raises_from(n, 'true')
      if not raising:
        continue
      if l == idx_txt and isinstance(op, ast.Lt) and r == '0':
        lower.append(n)
      elif r == idx_txt and isinstance(op, ast.Gt) and l == '0':
        lower.append(n)
      elif l == idx_txt and isinstance(op, ast.GtE) and r.startswith('len(') and 'candidates' in r:
        upper.append(n)
      elif r == idx_txt and isinstance(op, ast.LtE) and l.startswith('len(') and 'candidates' in l:
        upper.append(n)
      elif l == idx_txt and isinstance(op, ast.Gt) and 'candidates' in r and r.endswith('- 1'):
        upper.append(n)
  return lower, upper


def rule_a(ctx):
  idx = ctx.index
  n_input = 0
  for f in idx.all_funcs():
    if not (f.module.name.startswith(G) or f.module.name.startswith('pyglove.core.hyper.')):
      continue
    g = None
    for sub in [x for x in A.walk_local(f.node) if isinstance(x, ast.Subscript)]:
      # geno: <spec>.candidates[i]; hyper: self._candidate_templates[i] (decode side)
      if not (isinstance(sub.value, ast.Attribute) and sub.value.attr in ('candidates', '_candidate_templates')):
        continue
      if isinstance(sub.slice, ast.Slice):
        continue
      kind = _is_input_index(f, sub.slice)
      itxt = A.unparse(sub.slice)
      construct = f'{f.fq}#candidates[{itxt}]'
      loc = f'{f.module.relpath}:{sub.lineno}'
      if kind == 'internal':
        ctx.info('C11.a', construct, 'index is computed by the algorithm itself (not a DNA input)', loc)
        continue
      if kind.startswith('helper'):
        ctx.info('C11.a', construct, 'index validated by helper _choice_index (checked separately)', loc)
        continue
      n_input += 1
      g = g or C.cfg_of(f.node)
      node = [k for k in g.nodes if k.ast is not None and any(
          x is sub for e in k.exprs() for x in ast.walk(e))]
      lower, upper = _bound_tests(g, itxt)
      # a helper called with the index that raises on the same two conditions
      helper_lower, helper_upper = set(), set()
      for k in g.nodes:
        if k.ast is None:
          continue
        for call in k.calls():
          d = A.call_name(call)
          if not d or '.' in d.replace('self.', '', 1):
            continue
          pos = [i for i, a in enumerate(call.args) if A.unparse(a) == itxt]
          if not pos:
            continue
          r = idx.resolve_name_in_func(f, d, call)
          callee = idx.find_func(r) if r else None
          if callee is None:
            continue
          ps = A.param_names(callee.node)
          off = 1 if d.startswith('self.') else 0
          if pos[0] + off >= len(ps):
            continue
          gh = C.cfg_of(callee.node)
          lo_h, up_h = _bound_tests(gh, ps[pos[0] + off])
          if lo_h:
            helper_lower.add(k.id)
          if up_h:
            helper_upper.add(k.id)
      missing = []
      for name, tests, helpers in (('lower (v < 0)', lower, helper_lower),
                                   ('upper (v >= len(candidates))', upper, helper_upper)):
        blocked = {(t.id, m.id, l) for t in tests for m, l in t.succ if l == 'false'}
        seen, _ = g.reach(g.entry, blocked_nodes=helpers, blocked_edges=blocked, follow_exc=False)
        if (not tests and not helpers) or any(k.id in seen for k in node):
          missing.append(name)
      ctx.ob('C11.a', construct, not missing,
             'a candidate index taken from a DNA/decision is range-checked on both '
             'sides (raising) before it subscripts the candidate list', loc,
             'no dominating ' + ' and no '.join(missing) + ' test: a negative index silently '
             'selects a candidate from the end' if missing else '')
  # helper: _choice_index has both sides
  f = idx.func(G + 'base.DNA.from_dict.<locals>._choice_index')
  g = C.cfg_of(f.node)
  ret_names = {r.value.id for r in ast.walk(f.node) if isinstance(r, ast.Return) and isinstance(r.value, ast.Name)}
  lower = upper = None
  for nm in sorted(ret_names):
    lo, up = _bound_tests(g, nm)
    lower, upper = lower or lo, upper or up
  ctx.ob('C11.a', f.fq, bool(lower) and bool(upper),
         'the index helper rejects both negative and too-large indices', f.loc,
         'one side of the range check is missing')
  if n_input < 2:
    raise AnalysisError(f'only {n_input} input-derived candidate subscripts found')


SIBLINGS = {
    'Choices': (('num_choices', 'distinct', 'sorted', 'candidates'), [
        G + 'categorical.Choices.validate', G + 'categorical.Choices._next_dna',
        G + 'categorical.Choices.space_size', G + 'categorical.Choices._random_dna',
        G + 'base.DNA.use_spec.<locals>._use_spec_for_child_choices']),
    'Float': (('min_value', 'max_value'), [
        G + 'numerical.Float.validate', G + 'numerical.Float._random_dna',
        G + 'base.DNA.use_spec']),
    'Space': (('elements',), [
        G + 'space.Space.validate', G + 'space.Space._next_dna',
        G + 'space.Space._random_dna', G + 'space.Space.space_size',
        G + 'base.DNA.use_spec']),
}
# attribute aliases: reading candidates through len(...) / subchoice(...) counts
ATTR_ALIASES = {'candidates': {'candidates', 'subchoice'}, 'num_choices': {'num_choices', 'subchoice'}}


def _attrs_read(fnode):
  return {n.attr.lstrip('_') for n in ast.walk(fnode) if isinstance(n, ast.Attribute)}


def rule_b(ctx):
  idx = ctx.index
  for cls, (attrs, members) in SIBLINGS.items():
    for q in members:
      f = idx.func(q)
      # the function and the private helpers it calls directly
      read = set()
      for h in S.helper_closure(idx, f):
        read |= _attrs_read(h.node)
      for a in attrs:
        if cls == 'Choices' and q.endswith('_use_spec_for_child_choices') and a == 'candidates':
          # binds children through spec.subchoice(i) and the recursive use_spec
          names = ATTR_ALIASES['candidates']
        else:
          names = ATTR_ALIASES.get(a, {a})
        ok = bool(read & names)
        ctx.ob('C11.b', f'{q}#{cls}.{a}', ok,
               f'{f.qualname} consults the `{a}` constraint of {cls} like its sibling algorithms',
               f.loc, f'`{a}` is never read: this algorithm ignores a constraint its siblings honour')


def rule_c(ctx):
  idx = ctx.index
  n = 0
  for c in idx.all_classes():
    if not c.module.name.startswith(G):
      continue
    memos = {}
    for m in c.methods.values():
      g = None
      for t in [x for x in ast.walk(m.node) if isinstance(x, ast.If)]:
        tt = t.test
        if (isinstance(tt, ast.Compare) and isinstance(tt.ops[0], ast.Is)
            and isinstance(tt.comparators[0], ast.Constant) and tt.comparators[0].value is None
            and A.dotted(tt.left) and A.dotted(tt.left).startswith('self._')):
          attr = A.dotted(tt.left)
          # filled inside the branch
          if any(isinstance(s, ast.Assign) and any(A.dotted(tg) == attr for tg in s.targets)
                 for b in t.body for s in ast.walk(b)):
            memos[attr] = m
    for attr, m in sorted(memos.items()):
      if m.name in ('_on_bound', '__init__'):
        continue
      n += 1
      # reset to None in _on_bound somewhere along the MRO
      reset = False
      for k in idx.mro(c.fq):
        kc = idx.find_class(k)
        ob = kc.methods.get('_on_bound') if kc else None
        if ob is not None and any(
            isinstance(s, ast.Assign) and any(A.dotted(tg) == attr for tg in s.targets)
            and isinstance(s.value, ast.Constant) and s.value.value is None
            for s in ast.walk(ob.node)):
          reset = True
      ctx.ob('C11.c', f'{c.fq}#{attr}', reset,
             f'memoised attribute {attr} (filled lazily in {m.name}) is reset in _on_bound',
             m.loc, 'never reset when the spec/DNA is rebound: size/decision-point caches go stale')
  if n < 2:
    raise AnalysisError(f'only {n} memoised attributes found in geno')


def rule_d(ctx):
  idx = ctx.index
  # (i) distinct / sorted tests operate on decision values
  for q in (G + 'categorical.Choices.validate',
            G + 'base.DNA.use_spec.<locals>._use_spec_for_child_choices'):
    f = idx.func(q)
    found = {'distinct': None, 'sorted': None}
    for t in [x for x in ast.walk(f.node) if isinstance(x, ast.If)]:
      txt = A.unparse(t.test, 300)
      for word in ('distinct', 'sorted'):
        if f'.{word}' in txt and (('set(' in txt and word == 'distinct') or ('sorted(' in txt and word == 'sorted')):
          # operand variable
          calls = [c for c in ast.walk(t.test) if isinstance(c, ast.Call)
                   and A.call_name(c) in ('set', 'sorted') and c.args]
          ok = False
          why = 'operand not recognised'
          for c in calls:
            arg = c.args[0]
            if isinstance(arg, ast.Name):
              vals = [v for _, v in D.defs_of(f.node, arg.id) if v is not None]
              ok = bool(vals) and all(
                  isinstance(v, (ast.ListComp, ast.GeneratorExp)) and isinstance(v.elt, ast.Attribute)
                  and v.elt.attr == 'value' for v in vals)
              why = f'`{arg.id}` is not a list of `.value` of the sub-DNAs'
            elif isinstance(arg, (ast.ListComp, ast.GeneratorExp)):
              ok = isinstance(arg.elt, ast.Attribute) and arg.elt.attr == 'value'
              why = 'comprehension does not take `.value`'
          raises = A.is_raise_only(t.body)
          found[word] = (ok and raises, why if not ok else 'test does not raise')
    for word, res in found.items():
      ctx.ob('C11.d', f'{q}#{word}-test', bool(res and res[0]),
             f'the {word} constraint is tested on the decision values (.value) of the '
             f'sub-DNAs and raises on violation', f.loc,
             'test missing' if res is None else res[1])
  # (ii) the counting recurrence depends only on its own parameters
  f = idx.func(G + 'categorical.Choices.space_size.<locals>._space_size')
  reads = {n.attr for n in ast.walk(f.node) if isinstance(n, ast.Attribute)
           and isinstance(n.value, ast.Name) and n.value.id == 'self'}
  extra = reads - {'distinct', 'sorted'}
  ctx.ob('C11.d', f.fq + '#closure', not extra,
         'the space-size recurrence over (s, k) reads only the distinct/sorted flags of the '
         'spec, never the top-level arity or candidate list', f.loc,
         f'recurrence reads self.{sorted(extra)}: the value at level k depends on the top-level spec')
  outer = idx.func(G + 'categorical.Choices.space_size')
  calls = [c for c in A.calls_in(outer.node) if A.call_name(c) == f.node.name]
  ok = any(len(c.args) == 2 and A.unparse(c.args[1]) == 'self.num_choices' for c in calls)
  ctx.ob('C11.d', outer.fq + '#initial-call', ok,
         'the recurrence is started with k = self.num_choices', outer.loc,
         'initial call changed')
  # recursive calls decrease k / shrink s
  rec = [c for c in A.calls_in(f.node) if A.call_name(c) == f.node.name]
  p0, p1 = A.param_names(f.node)[:2]
  def k_ok(e):
    t = A.unparse(e)
    return t in (p1, '1', f'{p1} - 1') or (isinstance(e, ast.BinOp) and isinstance(e.op, ast.Sub)
                                          and A.unparse(e.left) == p1 and isinstance(e.right, ast.Name))
  bad = [A.unparse(c) for c in rec if len(c.args) != 2 or not (
      A.unparse(c.args[0]) in (f'{p0}[1:]', p0) and k_ok(c.args[1]))]
  ctx.ob('C11.d', f.fq + '#recursive-calls', not bad,
         'every recursive call is on (s[1:] | s, k-1 | k | k-i | 1)', f.loc,
         f'unexpected recursive call shape: {bad}')
  # (ii') exclusion of prior choices (distinct) is order-insensitive
  nd = idx.func(G + 'categorical.Choices._next_dna')
  helpers = [h for h in nd.module.funcs.values() if h.parent is nd and 'prior_choices' in A.param_names(h.node)]
  if len(helpers) < 2:
    raise AnalysisError('helpers of Choices._next_dna taking prior_choices vanished')
  for h in helpers:
    bad = []
    parents = {}
    for n in ast.walk(h.node):
      for ch in ast.iter_child_nodes(n):
        parents[id(ch)] = n
    for n in ast.walk(h.node):
      if isinstance(n, ast.Name) and n.id == 'prior_choices' and isinstance(n.ctx, ast.Load):
        par = parents.get(id(n))
        ok = False
        if isinstance(par, ast.Call) and A.call_name(par) in ('set', 'len', 'frozenset'):
          ok = True
        elif isinstance(par, ast.Compare) and any(isinstance(o, (ast.In, ast.NotIn)) for o in par.ops) \
            and n in par.comparators:
          ok = True
        elif isinstance(par, ast.Subscript) and par.value is n:
          ok = True            # prior_choices[-1] (sorted lower bound)
        elif isinstance(par, ast.BoolOp) or isinstance(par, ast.If) or isinstance(par, ast.UnaryOp):
          ok = True            # truthiness
        elif isinstance(par, ast.BinOp) and isinstance(par.op, ast.Add):
          ok = True            # prior_choices + [x] passed on
        if not ok:
          bad.append(f'line {n.lineno}: {A.unparse(par, 60)}')
    uses_distinct = any(isinstance(n, ast.Attribute) and n.attr == 'distinct' for n in ast.walk(h.node))
    ctx.ob('C11.d', h.fq + '#prior-exclusion', uses_distinct and not bad,
           'prior choices are excluded through order-insensitive constructs only '
           '(set difference / membership), conditioned on `distinct`', h.loc,
           ('`distinct` no longer consulted; ' if not uses_distinct else '')
           + ('order-sensitive use of prior_choices: ' + '; '.join(bad) if bad else ''))
  # (iii) range tests reject exactly outside the inclusive bounds
  n = 0
  for q in (G + 'numerical.Float.validate', G + 'base.DNA.use_spec'):
    n += c03.check_value_bound_rows(ctx, 'C11.d', idx.func(q), ('value',))
  if n < 2:
    raise AnalysisError(f'only {n} float bound rows found')
  # (iv) arity tests
  for q, lhs in ((G + 'categorical.Choices.validate', 'len(dna.children) != self.num_choices'),
                 (G + 'base.DNA.use_spec.<locals>._use_spec_for_child_choices', 'spec.num_choices != len(children)'),
                 (G + 'space.Space.validate', 'len(dna.children) != len(self.elements)')):
    f = idx.func(q)
    g = C.cfg_of(f.node)
    ts = [t for t in g.nodes if t.kind == 'test' and A.unparse(t.ast) == lhs]
    ok = bool(ts) and g.always_raises_from(ts[0], 'true')
    ctx.ob('C11.d', f'{q}#arity', ok, f'arity mismatch (`{lhs}`) raises', f.loc,
           'arity test missing or no longer raises')
  # (v) first/next/random bind the spec they came from (attach_spec default)
  for meth in ('first_dna', 'next_dna', 'random_dna'):
    f = idx.find_func(G + 'base.DNASpec.' + meth)
    if f is None:
      raise AnalysisError(f'DNASpec.{meth} vanished')
    d = A.params_with_defaults(f.node).get('attach_spec')
    ok = isinstance(d, ast.Constant) and d.value is True and (A.has_call(
        f.node, lambda x: x.endswith('.use_spec')) or any(
            A.call_name(c) == 'self.next_dna' and len(c.args) == 2
            and A.unparse(c.args[1]) == 'attach_spec' for c in A.calls_in(f.node)))
    ctx.ob('C11.d', f.fq + '#attach', ok,
           'produced DNA is bound to (and validated against) the producing spec by default', f.loc,
           'attach_spec default / use_spec call changed')


def rule_e(ctx):
  """(1) Validation descends into the chosen candidate on every path: once the
  index checks have passed, the child DNA of every decision is validated by
  the chosen candidate (a constant candidate must reject extra children too).
  (2) The sweeping cursor never takes the value None after it has advanced: the
  exhausted state is absorbing (a later propose() does not start over)."""
  idx = ctx.index
  f = idx.func(G + 'categorical.Choices.validate')
  g = C.cfg_of(f.node)
  def is_cand_validate(n):
    for c in n.calls():
      d = A.call_name(c)
      if isinstance(c.func, ast.Attribute) and c.func.attr == 'validate':
        recv = A.unparse(c.func.value)
        if 'candidates[' in recv:
          return True
        if isinstance(c.func.value, ast.Name):
          for _, v in D.defs_of(f.node, c.func.value.id):
            if v is not None and 'candidates[' in A.unparse(v):
              return True
    return False
  cv = [n for n in g.nodes if n.ast is not None and is_cand_validate(n)]
  problems = []
  if len(cv) < 2:
    problems.append(f'{len(cv)} delegations to the chosen candidate (single and multi choice each need one)')
  # every subscript of the candidate list (a decision was resolved) is followed by that delegation
  picks = [n for n in g.nodes if n.ast is not None and n not in cv and any(
      isinstance(x, ast.Subscript) and A.unparse(x.value).endswith('candidates') for e in n.exprs() for x in ast.walk(e))
      and n.kind != 'test']
  for p_ in picks:
    w = g.can_skip(p_, lambda n: n in cv, to=None)
    if w:
      problems.append(f'after the candidate is chosen (line {p_.lineno}) a path ends without validating its child DNA: {w}')
  # multi-choice loop: from the loop body, every normal path passes the delegation
  loops = [n for n in g.nodes if n.kind == 'iter' and any(k in cv for k in g.nodes if k.ast is not None and any(
      x is k.ast for x in ast.walk(n.ast)))]
  for lp in loops:
    for m, lab in lp.succ:
      if lab in ('body', 'true', 'next') and m not in cv:
        seen, parent = g.reach(m, blocked_nodes={k.id for k in cv}, follow_exc=False)
        if lp.id in seen or any(h.kind == 'loophead' and h.ast is lp.ast and h.id in seen for h in g.nodes):
          problems.append('a sub-decision of a multi-choice can be accepted without validating its child DNA '
                          'against the chosen candidate')
  ctx.ob('C11.e', f.fq, not problems,
         'validation descends into the chosen candidate for every decision, on every path that passed the index checks',
         f.loc, '; '.join(problems))
  # sweeping cursor
  f = idx.func(G + 'sweeping.Sweeping._propose')
  g = C.cfg_of(f.node)
  problems = []
  stores = [n for n in g.nodes if n.kind == 'stmt' and isinstance(n.ast, ast.Assign)
            and any(A.dotted(t) == 'self._last_proposed_dna' for t in n.ast.targets)]
  if not stores:
    problems.append('the cursor is never advanced')
  for st in stores:
    v = st.ast.value
    if not isinstance(v, ast.Name):
      problems.append(f'the cursor is assigned `{A.unparse(v, 60)}` directly: at exhaustion it becomes None, the '
                      f'start marker, and the next propose() sweeps the space again')
      continue
    tests = [t for t in g.nodes if t.kind == 'test' and A.unparse(t.ast) in (f'{v.id} is None', f'{v.id} is not None')]
    if not tests:
      problems.append(f'`{v.id}` is stored without an `is None` test')
      continue
    blocked = set()
    for t in tests:
      nonnone = 'false' if A.unparse(t.ast).endswith('is None') else 'true'
      blocked |= {(t.id, m.id, l) for m, l in t.succ if l == nonnone}
    seen, _ = g.reach(g.entry, blocked_edges=blocked, follow_exc=False)
    if st.id in seen:
      problems.append('the cursor can be overwritten with None')
  ctx.ob('C11.e', f.fq, not problems,
         'the sweeping cursor only ever advances to a DNA (exhaustion is absorbing: no DNA is proposed twice)',
         f.loc, '; '.join(problems))


def rule_g(ctx):
  """Validation and binding "reject everything else": the acceptance routines of
  geno keep their refusals (sa/rejections.py, surface.rejection_census_obligations)."""
  from sa.rejections import REJECTIONS
  S.rejection_census_obligations(ctx, 'C11.g', REJECTIONS['C11'], floor=30)


def rule_h(ctx):
  """(1) Random generation "always returns a member of the set": the float
  decision is the generator's own uniform(min_value, max_value) - which stays
  inside [min, max] by construction - or, if the drawn number is transformed
  (log/exp arithmetic rounds outside the range at the boundaries), it is clamped
  to both bounds afterwards.  (2) "The sweeping generator proposes the same
  sequence": the successor is asked of the generator's own spec (= C15.e)."""
  idx = ctx.index
  f = idx.func(G + 'numerical.Float._random_dna')
  rets = [r.value for r in ast.walk(f.node) if isinstance(r, ast.Return) and r.value is not None]
  problems = []
  def value_exprs(e, depth=0):
    # DNA(value=E) / DNA(E): follow E through locals
    if isinstance(e, ast.Call) and (A.call_name(e) or '').endswith('DNA'):
      v = A.kwarg(e, 'value') or (e.args[0] if e.args else None)
      return value_exprs(v, depth) if v is not None else []
    if isinstance(e, ast.Name) and depth < 4:
      out = []
      for _, v in D.defs_of(f.node, e.id):
        if v is not None:
          out += value_exprs(v, depth + 1)
      return out
    return [e]
  def is_plain_uniform(e):
    return isinstance(e, ast.Call) and isinstance(e.func, ast.Attribute) and e.func.attr == 'uniform' \
        and [A.unparse(a) for a in e.args] in (['self.min_value', 'self.max_value'], ['self._min_value', 'self._max_value'])
  def is_clamped(e):
    t = A.unparse(e)
    return isinstance(e, ast.Call) and A.call_name(e) in ('min', 'max') and 'min_value' in t and 'max_value' in t \
        and 'min(' in t and 'max(' in t
  for r in rets:
    for v in value_exprs(r):
      if not (is_plain_uniform(v) or is_clamped(v)):
        problems.append(f'line {v.lineno}: the decision is `{A.unparse(v, 70)}` - neither uniform(min_value, max_value) '
                        f'itself nor clamped to both bounds')
  ctx.ob('C11.h', f.fq + '#in-range', bool(rets) and not problems,
         'a random float decision is uniform(min_value, max_value) itself, or is clamped to both bounds after any transform',
         f.loc, '; '.join(problems))
  from sa.rules import c15
  before = len(ctx.obs)
  c15.rule_e(ctx)
  keep = []
  for o in ctx.obs[before:]:
    if 'unbound' in o.construct:
      o.rule = 'C11.h'
      keep.append(o)
  ctx.obs[before:] = keep


def run(ctx):
  ctx.consult(*FILES)
  rule_a(ctx)
  rule_b(ctx)
  rule_c(ctx)
  rule_d(ctx)
  rule_e(ctx)
  rule_g(ctx)
  rule_h(ctx)
  S.optional_truthiness_obligations(ctx, 'C11.z', ['pyglove/core/geno/base.py', 'pyglove/core/geno/categorical.py', 'pyglove/core/geno/numerical.py', 'pyglove/core/geno/space.py', 'pyglove/core/geno/sweeping.py', 'pyglove/core/geno/random.py'], 'index 0, bound 0.0 and seed 0 are values; an empty DNASpec (constant space) is a spec', sized_classes=('DNASpec', 'DNA', 'Space', 'DecisionPoint'))
  ctx.assume('exactness of the odometer (next_dna) against the counting formula is arithmetic over '
             'runtime sizes: not decided statically')
