"""C18 — symbolized callables keep Python call semantics (DESIGN §3 C18; narrow)."""
from __future__ import annotations

import ast
import inspect

from sa import astutil as A
from sa import cfg as C
from sa import dataflow as D
from sa.index import AnalysisError
from sa import surface as S
from sa.rules import c07, c17

PROP = 'C18'
EXPLANATION = (
    'Narrow structural part of C18: (a) the parameter-kind tables '
    '(inspect.Parameter kind -> Argument.Kind, the signature() dispatch and '
    'the rendering in make_function) are exhaustive and the first is '
    'injective; (b) a cloned functor owns its argument sets (= C07.d); (c) the '
    'call-time member-override scope restores what it saw (re-entrant); (d) '
    'signature metadata keys written by to_schema cover the keys read '
    'elsewhere and the `*name` marker is produced and parsed alike; (e) the '
    'reconciliation of a Python default with an annotated default is total '
    '(every disagreeing path sets the default or raises); (f) call-time '
    'assembly gives every positional parameter exactly one outcome; (g) '
    'Functor._on_change processes every update of a batch.  Agreement with '
    'the interpreter\'s binding rules is differential and not decided.')
FLOORS = {'C18.a': 4, 'C18.b': 1, 'C18.c': 1, 'C18.d': 2, 'C18.e': 1, 'C18.f': 1, 'C18.g': 1, 'C18.h': 1, 'C18.i': 2, 'C18.j': 2, 'C18.k': 1, 'C18.l': 3, 'C18.m': 2, 'C18.n': 3, 'C18.o': 3}
FILES = ['pyglove/core/symbolic/functor.py', 'pyglove/core/symbolic/class_wrapper.py',
         'pyglove/core/symbolic/symbolize.py', 'pyglove/core/typing/callable_signature.py',
         'pyglove/core/coding/function_generation.py', 'pyglove/core/symbolic/object.py']
CSIG = 'pyglove.core.typing.callable_signature.'
FN = 'pyglove.core.symbolic.functor.Functor.'

INSPECT_KINDS = sorted(k.name for k in inspect._ParameterKind)   # the interpreter's own enumeration


def rule_a(ctx):
  idx = ctx.index
  f = idx.func(CSIG + 'Argument.Kind.from_parameter')
  mapping = {}
  g = C.cfg_of(f.node)
  for k in g.nodes:
    if k.kind == 'test':
      for left, op, right in A.compare_parts(k.ast):
        r = A.unparse(right)
        if r.startswith('inspect.Parameter.') and isinstance(op, ast.Eq):
          kind = r.split('.')[-1]
          for m, lab in k.succ:
            if lab == 'true' and m.kind == 'return':
              mapping[kind] = A.unparse(m.ast.value).split('.')[-1]
    if k.kind == 'raisestmt' and isinstance(k.ast, ast.Assert):
      t = A.unparse(k.ast.test)
      if 'inspect.Parameter.' in t:
        kind = t.split('inspect.Parameter.')[-1].split()[0].rstrip(')')
        # value returned on the fallthrough
        for r_ in [n for n in ast.walk(f.node) if isinstance(n, ast.Return)]:
          pass
  # the trailing else: assert kind == VAR_KEYWORD; return Kind.VAR_KEYWORD
  rets = sorted([n for n in ast.walk(f.node) if isinstance(n, ast.Return)], key=lambda n: n.lineno)
  asserts = [n for n in ast.walk(f.node) if isinstance(n, ast.Assert)]
  def return_after(a):
    # the return that follows the assert in the same statement list
    for holder in ast.walk(f.node):
      for fld in ('body', 'orelse', 'finalbody'):
        lst = getattr(holder, fld, None)
        if isinstance(lst, list) and a in lst:
          for st in lst[lst.index(a) + 1:]:
            if isinstance(st, ast.Return):
              return st
    return None
  for a in asserts:
    t = A.unparse(a.test)
    if 'inspect.Parameter.' in t and '==' in t:
      kind = t.split('inspect.Parameter.')[-1].split()[0]
      r_ = return_after(a)
      if r_ is not None and r_.value is not None:
        mapping[kind] = A.unparse(r_.value).split('.')[-1]
  for kind in INSPECT_KINDS:
    ctx.ob('C18.a', f'{f.fq}#covers:{kind}', kind in mapping,
           f'inspect.Parameter.{kind} is mapped to an Argument.Kind', f.loc,
           f'{kind} has no branch')
  inv = {}
  for k, v in mapping.items():
    inv.setdefault(v, []).append(k)
  for v, ks in sorted(inv.items()):
    ctx.ob('C18.a', f'{f.fq}#injective:{v}', len(ks) == 1,
           f'Argument.Kind.{v} is the image of exactly one inspect kind (the kind is the only '
           f'place the difference is stored)', f.loc,
           f'{sorted(ks)} are folded into Argument.Kind.{v}: a positional-only parameter can then be '
           f'bound by keyword, which the original callable rejects')
  # Argument.Kind members
  kcls = idx.cls(CSIG + 'Argument.Kind')
  members = [k for k, v in kcls.class_attrs.items() if isinstance(v, ast.Constant)]
  # signature(): dispatch exhaustive over the 5 inspect kinds
  fc = None
  for cand in idx.module(CSIG.rstrip('.')).funcs.values():
    if cand.qualname.startswith('Signature.') and '<locals>' not in cand.qualname and any(
        isinstance(n, ast.Compare) and isinstance(n.left, ast.Attribute) and n.left.attr == 'kind'
        and A.unparse(n.comparators[0]).startswith('inspect.Parameter.') for n in ast.walk(cand.node)):
      fc = cand
  if fc is None:
    raise AnalysisError('signature extractor dispatch on param.kind vanished')
  txt = A.unparse(fc.node, 40000)
  miss = [k for k in INSPECT_KINDS if f'inspect.Parameter.{k}' not in txt]
  ctx.ob('C18.a', fc.fq + '#dispatch', not miss,
         'the signature extractor dispatches on every inspect.Parameter kind', fc.loc,
         f'kinds without a branch: {miss}')
  # make_function renders args, *varargs (or bare *), kwonly, **varkw
  mf = idx.func(CSIG + 'Signature.make_function')
  t = A.unparse(mf.node, 20000)
  need = ['self.args', 'self.varargs', 'self.kwonlyargs', 'self.varkw', "arg_prefix='*'", "arg_prefix='**'"]
  miss = [n for n in need if n not in t]
  if not any(isinstance(c.func, ast.Attribute) and c.func.attr in ('append', 'extend') and c.args
             and '*' in [A.const_str(x) for x in ast.walk(c.args[0])] for c in A.calls_in(mf.node)):
    miss.append("bare '*' separator")
  ctx.ob('C18.a', mf.fq + '#render', not miss,
         'the generated signature renders positional, *varargs (or a bare *), keyword-only and **varkw parts',
         mf.loc, f'missing parts: {miss}')


def rule_b(ctx):
  """A clone reports its own arguments (= C07.d on Functor._sym_clone)."""
  idx = ctx.index
  c = idx.cls('pyglove.core.symbolic.functor.Functor')
  m = c.methods.get('_sym_clone')
  if m is None:
    raise AnalysisError('Functor._sym_clone vanished')
  before = len(ctx.obs)
  c07.rule_d(ctx, [(c, m)])
  for o in ctx.obs[before:]:
    o.rule = 'C18.b'


def rule_c(ctx):
  idx = ctx.index
  f = idx.func(FN + '_apply_call_time_overrides_to_members')
  before = len(ctx.obs)
  c17.analyse_generator(ctx, f)
  for o in ctx.obs[before:]:
    o.rule = 'C18.c'
  # re-entrancy: the release must restore the value read before the set
  g = C.cfg_of(f.node)
  ys = [k for k in g.nodes if k.kind == 'yield']
  rel = [op for k in g.nodes if k.ast is not None for op in c17.ops_at(k)
         if op.kind in ('setattr', 'delattr') and any(y.id < k.id for y in ys)]
  restores = [op for op in rel if op.kind == 'setattr']
  reads_before = any(A.call_name(c) == 'getattr' for k in g.nodes if k.ast is not None and ys and k.id < ys[0].id
                     for c in k.calls())
  ok = bool(restores) and reads_before
  ctx.ob('C18.c', f.fq + '#reentrant', ok,
         'the call-time override scope puts back the overrides it found on entry (a functor whose '
         'body calls itself stays usable), instead of deleting the slot unconditionally', f.loc,
         'the slot is deleted on exit whatever was there: a subclassed functor that calls itself in '
         '_call fails with AttributeError on __override_members__')


def rule_d(ctx):
  idx = ctx.index
  ts = idx.func(CSIG + 'Signature.to_schema')
  written = set()
  for c in A.calls_in(ts.node):
    if A.call_name(c) == 'dict':
      written |= {k.arg for k in c.keywords if k.arg}
  if len(written) < 4:
    raise AnalysisError(f'to_schema metadata keys: {written}')
  readers = [CSIG + 'Signature.from_schema', 'pyglove.core.symbolic.object.Object.__init__',
             'pyglove.core.symbolic.functor.Functor.__init__',
             'pyglove.core.symbolic.class_wrapper.ClassWrapper._call_init']
  for m in idx.modules.values():
    if not (m.name.startswith('pyglove.core.symbolic') or m.name.startswith('pyglove.core.typing')):
      continue
    for f in m.funcs.values():
      for c in A.calls_in(f.node):
        d = A.call_name(c) or ''
        if d.endswith('metadata.get') and c.args and A.const_str(c.args[0]):
          k = A.const_str(c.args[0])
          if k in ('init_arg_list', 'varargs_name', 'varkw_name', 'returns'):
            ctx.ob('C18.d', f'{f.fq}#metadata:{k}', k in written,
                   f'schema metadata key `{k}` read here is written by Signature.to_schema',
                   f'{m.relpath}:{c.lineno}', f'`{k}` is read but never written')
      for n in ast.walk(f.node):
        if isinstance(n, ast.Subscript) and A.const_str(n.slice) in ('init_arg_list', 'varargs_name', 'varkw_name', 'returns') \
            and 'metadata' in A.unparse(n.value):
          k = A.const_str(n.slice)
          ctx.ob('C18.d', f'{f.fq}#metadata[{k}]', k in written,
                 f'schema metadata key `{k}` read here is written by Signature.to_schema',
                 f'{m.relpath}:{n.lineno}', f'`{k}` is read but never written')
  # the '*name' marker
  prod = "f'*{self.varargs.name}'" in A.unparse(ts.node, 5000)
  fs = idx.func(CSIG + 'Signature.from_schema')
  cons = "startswith('*')" in A.unparse(fs.node, 8000) and '[1:]' in A.unparse(fs.node, 8000)
  oi = idx.func('pyglove.core.symbolic.object.Object.__init__')
  cons2 = "startswith('*')" in A.unparse(oi.node, 20000) and '[1:]' in A.unparse(oi.node, 20000)
  ctx.ob('C18.d', ts.fq + '#vararg-marker', prod and cons and cons2,
         "the variable-positional marker is produced as '*' + name and parsed by stripping one '*'",
         ts.loc, f'producer={prod}, from_schema={cons}, Object.__init__={cons2}')


def rule_e(ctx):
  idx = ctx.index
  f = idx.func(CSIG + 'Signature.annotate.<locals>.update_arg')
  g = C.cfg_of(f.node)
  ts = [k for k in g.nodes if k.kind == 'test' and A.unparse(k.ast).replace(' ', '') ==
        'arg.value_spec.default!=field.value.default']
  problems = []
  if not ts:
    problems.append('the default-disagreement test vanished')
  else:
    t = ts[0]
    acts = {k.id for k in g.nodes if k.ast is not None and (
        k.kind == 'raisestmt' or any((A.call_name(c) or '').endswith('.set_default') for c in k.calls()))}
    # documented bypass: a Dict spec (which always has a default) over a
    # parameter without a default
    blocked = set()
    for k in g.nodes:
      if k.kind == 'test' and 'DictType' in A.unparse(k.ast) and 'isinstance(field.value' in A.unparse(k.ast):
        for m, lab in k.succ:
          if lab == 'true':
            blocked.add((k.id, m.id, lab))
    for m, lab in t.succ:
      if lab == 'true':
        seen, parent = g.reach(m, blocked_nodes=acts, blocked_edges=blocked, follow_exc=False)
        if m.id not in acts and (g.exit.id in seen):
          problems.append('a path on which the Python default and the annotated default disagree '
                          'neither reconciles them (set_default) nor raises: '
                          + str(g.witness_str(parent, g.exit)))
    # the Python default is installed when the annotation has none / is None
    first = [k for k in g.nodes if k.kind == 'test' and A.unparse(k.ast) == 'arg.value_spec.has_default']
    if not first:
      problems.append('the has_default test vanished')
  ctx.ob('C18.e', f.fq, not problems,
         'whenever the function-signature default and the annotated default differ, the annotation '
         'is reconciled (set_default) or an error is raised', f.loc, '; '.join(problems))


def rule_f(ctx):
  idx = ctx.index
  f = idx.func(FN + '_parse_call_time_overrides')
  sig_locals = {nm for st in ast.walk(f.node) if isinstance(st, ast.Assign)
                and A.unparse(st.value) in ('self.__signature__', 'self.signature')
                for nm in A.assigned_names(st.targets[0])} | {'self.__signature__', 'self.signature'}
  loops = [n for n in ast.walk(f.node) if isinstance(n, ast.For) and isinstance(n.iter, ast.Attribute)
           and n.iter.attr == 'args' and A.unparse(n.iter.value) in sig_locals]
  if not loops:
    raise AnalysisError('_parse_call_time_overrides: loop over signature.args vanished')
  lp = loops[0]
  g = C.cfg_of(f.node)
  it = [k for k in g.nodes if k.kind == 'iter' and k.ast is lp]
  # outcome lists: locals initialised to [] right before the loop
  outlists = set()
  for st in ast.walk(f.node):
    if isinstance(st, ast.Assign) and isinstance(st.value, ast.List) and not st.value.elts \
        and st.lineno < lp.lineno and lp.lineno - st.lineno <= 6:
      outlists |= set(A.assigned_names(st.targets[0]))
  outcome = lambda k: any((A.call_name(c) or '').endswith('.append')
                          and (A.call_name(c) or '').split('.')[0] in outlists for c in k.calls())
  problems = []
  if any(isinstance(x, (ast.Break, ast.Return)) for x in ast.walk(lp)):
    problems.append('the loop can stop early')
  if it:
    body_start = [m for m, lab in it[0].succ if lab == 'true']
    for m in body_start:
      blocked = {k.id for k in g.nodes if k.ast is not None and outcome(k)}
      if m.id in blocked:
        continue
      seen, parent = g.reach(m, blocked_nodes=blocked, follow_exc=False)
      if it[0].id in seen:
        problems.append('a path through the loop body passes neither a value nor reports the '
                        'parameter missing: ' + str(g.witness_str(parent, it[0])))
  ctx.ob('C18.f', f.fq + '#positional-assembly', not problems,
         'every positional parameter contributes exactly one positional value (bound, overridden or '
         'default) or is reported missing', f.loc, '; '.join(problems))
  # the positional list only grows (append/extend): once a parameter has its
  # value, nothing removes or replaces it.  The locals are found by their role:
  # the function returns (<positional list>, <keyword dict>).
  rt = [r.value for r in ast.walk(f.node) if isinstance(r, ast.Return) and isinstance(r.value, ast.Tuple)
        and len(r.value.elts) == 2 and all(isinstance(e, ast.Name) for e in r.value.elts)]
  if not rt:
    raise AnalysisError('_parse_call_time_overrides no longer returns (positional list, keyword dict)')
  LA, KA = rt[0].elts[0].id, rt[0].elts[1].id
  bad = []
  for x in ast.walk(f.node):
    if isinstance(x, ast.Delete):
      for t in x.targets:
        if isinstance(t, ast.Subscript) and A.dotted(t.value) == LA:
          bad.append(f'del {A.unparse(t)} (line {x.lineno})')
    elif isinstance(x, ast.Call) and (A.call_name(x) or '').startswith(LA + '.') and \
        (A.call_name(x) or '').split('.')[1] not in ('append', 'extend'):
      bad.append(f'{A.call_name(x)}() (line {x.lineno})')
    elif isinstance(x, (ast.Assign, ast.AugAssign)):
      for t in A.stmt_targets(x):
        if isinstance(t, ast.Subscript) and A.dotted(t.value) == LA:
          bad.append(f'store to {A.unparse(t)} (line {x.lineno})')
        if isinstance(t, ast.Name) and t.id == LA and not (
            isinstance(x, ast.Assign) and isinstance(x.value, ast.List) and not x.value.elts):
          bad.append(f're-assignment of {LA} (line {x.lineno})')
  ctx.ob('C18.f', f.fq + '#monotone', not bad,
         'the assembled positional list only grows: no positional value is dropped or replaced '
         'after assembly', f.loc, '; '.join(bad))
  # prebound varargs are appended after the positionals
  # the pre-bound varargs are taken OUT of the keyword dict (they must not be passed
  # twice) and whatever varargs there are extend the positional list last
  pops = [c for c in A.calls_in(f.node) if A.call_name(c) == KA + '.pop' and c.args
          and 'varargs' in A.unparse(c.args[0])]
  exts = [c for c in A.calls_in(f.node) if A.call_name(c) == LA + '.extend' and c.args]
  last_app = max([c.lineno for c in A.calls_in(f.node) if A.call_name(c) == LA + '.append'] or [0])
  ok = bool(pops) and bool(exts) and all(c.lineno > last_app for c in exts)
  ctx.ob('C18.f', f.fq + '#varargs', ok, 'call-time or pre-bound varargs are appended after the positionals',
         f.loc, 'varargs assembly changed')
  # __call__: return value check and both call forms
  cf = idx.func(FN + '__call__')
  def fwd(name):
    return any(A.call_name(c) == name and any(isinstance(a, ast.Starred) for a in c.args)
               and any(k.arg is None for k in c.keywords) for c in A.calls_in(cf.node))
  ok = fwd('self._call') and fwd('self._parse_call_time_overrides')
  ctx.ob('C18.f', cf.fq, ok, '__call__ assembles arguments through _parse_call_time_overrides and calls _call with them',
         cf.loc, '__call__ changed shape')


def rule_g(ctx):
  idx = ctx.index
  f = _bookkeeping_fn(idx)
  loops = [n for n in ast.walk(f.node) if isinstance(n, ast.For) and 'field_updates' in A.unparse(n.iter)]
  problems = []
  if not loops:
    problems.append('loop over field_updates vanished')
  else:
    lp = loops[0]
    for x in ast.walk(lp):
      if isinstance(x, (ast.Return, ast.Break)):
        problems.append(f'the loop stops at line {x.lineno}: later updates of the same batch are ignored')
    # statements before the loop must not return either
    idxl = f.node.body.index(lp) if lp in f.node.body else -1
    for s in f.node.body[:max(idxl, 0)]:
      if any(isinstance(x, ast.Return) for x in ast.walk(s)):
        problems.append('an early return precedes the update loop')
  ctx.ob('C18.g', FN + '_on_change', not problems,
         'Functor._on_change updates its bound-argument bookkeeping for every top-level update of a '
         'batch (nested paths are skipped one by one, never by leaving the loop)', f.loc,
         '; '.join(problems))


def rule_h(ctx):
  """What counts as "specified by the user" depends on presence only: an
  argument leaves the specified set exactly when it is rebound to the MISSING
  marker and (re-)enters it on every other rebind - also when the new value
  happens to equal the default (`factor=1.0` over default `1` is a binding)."""
  idx = ctx.index
  f = _bookkeeping_fn(idx)
  g = C.cfg_of(f.node)
  def calls(n, what):
    return any(A.call_name(c) == what for c in n.calls())
  disc = [n for n in g.nodes if n.ast is not None and calls(n, 'self._specified_args.discard')]
  adds = [n for n in g.nodes if n.ast is not None and calls(n, 'self._specified_args.add')]
  # the branch for an update BELOW an argument (len(path) != 1) is judged by C18.p; here only the
  # top-level updates count (in that branch the argument's own value is a container, never MISSING)
  nested = set()
  for t in g.nodes:
    if t.kind == 'test' and isinstance(t.ast, ast.Compare) and len(t.ast.ops) == 1 \
        and isinstance(t.ast.left, ast.Call) and A.call_name(t.ast.left) == 'len' \
        and isinstance(t.ast.comparators[0], ast.Constant) and t.ast.comparators[0].value == 1:
      lab = 'true' if isinstance(t.ast.ops[0], (ast.NotEq, ast.Gt)) else 'false'
      heads = {n.id for n in g.nodes if n.kind == 'iter'}
      for m, l in t.succ:
        if l == lab:
          seen_n, _ = g.reach(m, blocked_nodes=heads, follow_exc=False)
          nested |= set(seen_n) | {m.id}
      other = set()
      for m, l in t.succ:
        if l != lab:
          seen_o, _ = g.reach(m, blocked_nodes=heads, follow_exc=False)
          other |= set(seen_o) | {m.id}
      nested -= other
  disc = [n for n in disc if n.id not in nested]
  adds = [n for n in adds if n.id not in nested]
  problems = []
  if not disc or not adds:
    problems.append('the specified-argument set is no longer maintained in _on_change')
  else:
    def is_missing_test(t):
      if t.kind != 'test' or not isinstance(t.ast, ast.Compare) or len(t.ast.ops) != 1 or not isinstance(t.ast.ops[0], ast.Eq):
        return False
      l, r = A.unparse(t.ast.left), A.unparse(t.ast.comparators[0])
      return (l.endswith('MISSING_VALUE') and r.endswith('new_value')) or (r.endswith('MISSING_VALUE') and l.endswith('new_value'))
    mt = [t for t in g.nodes if is_missing_test(t)]
    if not mt:
      problems.append('membership is not decided by a comparison of the new value with MISSING_VALUE')
    else:
      t_edges = {(t.id, m.id, l) for t in mt for m, l in t.succ if l == 'true'}
      f_edges = {(t.id, m.id, l) for t in mt for m, l in t.succ if l == 'false'}
      seen, _ = g.reach(g.entry, blocked_edges=t_edges, follow_exc=False)
      for d in disc:
        if d.id in seen:
          problems.append(f'an argument is dropped from the specified set (line {d.lineno}) although its new value is not '
                          f'MISSING_VALUE: binding a value equal to the default makes the functor call with the default object')
      seen, _ = g.reach(g.entry, blocked_edges=f_edges, follow_exc=False)
      for a_ in adds:
        if a_.id in seen:
          problems.append(f'an argument rebound to MISSING_VALUE is (re-)added to the specified set (line {a_.lineno})')
      # when not MISSING, the add is unavoidable for a top-level update
      for t in mt:
        for m, lab in t.succ:
          if lab == 'false' and m not in adds and g.can_skip(m, lambda n: n in adds, to=None):
            loops = [k for k in g.nodes if k.kind in ('iter', 'loophead')]
            seen2, _ = g.reach(m, blocked_nodes={x.id for x in adds}, follow_exc=False)
            if any(k.id in seen2 for k in loops) or g.exit.id in seen2:
              problems.append('a non-MISSING rebind can leave the specified set unchanged')
  ctx.ob('C18.h', FN + '_on_change', not problems,
         'an argument is "specified" exactly when its current value is not the MISSING marker (equality with the '
         'default plays no role)', f.loc, '; '.join(sorted(set(problems))))


def rule_i(ctx):
  """(1) Object.__init__ raises "got multiple values" whenever a keyword names
  an argument that a positional already filled - decided by membership, never
  by the truth value of the positional (0, None, '' are arguments).
  (2) A symbolized class re-runs the user __init__ on a clean slate: every time
  the wrapper becomes concrete, _on_reset() runs first and unconditionally
  drops everything but the wrapper's own attributes."""
  idx = ctx.index
  f = idx.func('pyglove.core.symbolic.object.Object.__init__')
  g = C.cfg_of(f.node)
  loops = [k for k in g.nodes if k.kind == 'iter' and A.unparse(k.ast.iter).startswith('kwargs.items')]
  problems = []
  if not loops:
    problems.append('the keyword-argument loop vanished')
  else:
    kv = A.assigned_names(loops[0].ast.target)
    # the dict the loop fills: `<D>[<keyword>] = ...` inside the same loop
    filled = {st.targets[0].value.id for st in ast.walk(loops[0].ast) if isinstance(st, ast.Assign)
              and isinstance(st.targets[0], ast.Subscript) and isinstance(st.targets[0].value, ast.Name)
              and isinstance(st.targets[0].slice, ast.Name) and st.targets[0].slice.id in kv}
    tests = [t for t in g.nodes if t.kind == 'test' and isinstance(t.ast, ast.Compare) and len(t.ast.ops) == 1
             and isinstance(t.ast.ops[0], ast.In) and isinstance(t.ast.left, ast.Name) and t.ast.left.id in kv
             and A.unparse(t.ast.comparators[0]) in filled]
    if not tests:
      problems.append('no membership test `<keyword> in <the collected arguments>`')
    for t in tests:
      if not g.always_raises_from(t, 'true'):
        problems.append('a keyword that repeats a positional argument does not always raise TypeError (the check also '
                        'depends on something else, e.g. the truth value of the positional)')
  ctx.ob('C18.i', f.fq, not problems,
         'a positional/keyword duplicate raises TypeError whatever the values are', f.loc, '; '.join(problems))
  c = idx.find_class('pyglove.core.symbolic.class_wrapper._SubclassedWrapperBase')
  if c is None:
    raise AnalysisError('_SubclassedWrapperBase vanished')
  rs, ob = c.methods.get('_on_reset'), c.methods.get('_on_bound')
  problems = []
  grs = C.cfg_of(rs.node)
  clr = [k for k in grs.nodes if k.ast is not None and any(A.call_name(cl) == 'self.__dict__.clear' for cl in k.calls())]
  if not clr:
    problems.append('_on_reset no longer clears the instance dict')
  elif grs.can_skip(grs.entry, lambda n: n in clr):
    problems.append('_on_reset can return without dropping the state of the previous __init__ run')
  gob = C.cfg_of(ob.node)
  init = [k for k in gob.nodes if k.ast is not None and any(A.call_name(cl) == 'self._call_init' for cl in k.calls())]
  reset = [k for k in gob.nodes if k.ast is not None and any(A.call_name(cl) == 'self._on_reset' for cl in k.calls())]
  if not init or not reset:
    problems.append('_on_bound no longer resets before re-initialising')
  else:
    seen, _ = gob.reach(gob.entry, blocked_nodes={k.id for k in reset}, follow_exc=False)
    if any(k.id in seen for k in init):
      problems.append('the user __init__ can re-run without _on_reset()')
  ctx.ob('C18.i', rs.fq, not problems,
         'before the user __init__ is re-run the wrapper unconditionally drops the state left by the previous run',
         rs.loc, '; '.join(problems))


RAW_READS = ('items', 'values', 'sym_items', 'sym_values', 'sym_getattr', '_sym_getattr')
ARG_STORES = ('self._sym_attributes', 'self.sym_init_args')


def rule_j(ctx):
  """What the user's callable receives is what the attributes report: bound
  arguments are read through the inferring accessors (sym_inferred / [] /
  dict(mapping)), never through the stored-value views, which hand out
  pg.Ref and other inferential wrappers."""
  idx = ctx.index
  for q in (FN + '_parse_call_time_overrides',
            'pyglove.core.symbolic.class_wrapper._SubclassedWrapperBase._call_init'):
    f = idx.func(q)
    raw = []
    reads = 0
    for n in ast.walk(f.node):
      if isinstance(n, ast.Attribute) and A.unparse(n) in ARG_STORES:
        reads += 1
      if isinstance(n, ast.Call) and isinstance(n.func, ast.Attribute) and n.func.attr in RAW_READS \
          and A.unparse(n.func.value) in ARG_STORES + ('self',):
        if A.unparse(n.func.value) == 'self' and n.func.attr not in ('sym_items', 'sym_values', 'sym_getattr', '_sym_getattr'):
          continue
        raw.append(f'line {n.lineno}: `{A.unparse(n, 70)}` yields the stored (un-inferred) values')
    ctx.ob('C18.j', f.fq, reads > 0 and not raw,
           'arguments handed to the user callable are read through the inferring accessors, as attribute access reads them',
           f.loc, '; '.join(raw) or 'the bound arguments are not read here any more')


def rule_k(ctx, rule_id='C18.k'):
  """Functor.__delattr__: removing the stored value notifies _on_change, which
  maintains the argument sets for an update; the explicit bookkeeping of the
  deletion must come after it, or it is overwritten."""
  idx = ctx.index
  f = idx.func(FN + '__delattr__')
  g = C.cfg_of(f.node)
  dels = [k for k in g.nodes if k.kind == 'stmt' and isinstance(k.ast, ast.Delete)
          and any('self._sym_attributes' in A.unparse(t) for t in k.ast.targets)]
  dels += [k for k in g.nodes if k.ast is not None and any(
      A.call_name(c) in ('self._sym_attributes.pop', 'self.sym_rebind', 'self.rebind', 'self._sym_attributes.__delitem__')
      for c in k.calls())]
  SETS = ('self._specified_args', 'self._non_default_args', 'self._default_args')
  books = [k for k in g.nodes if k.ast is not None and any(
      isinstance(c.func, ast.Attribute) and A.unparse(c.func.value) in SETS and c.func.attr in ('add', 'discard', 'remove')
      for c in k.calls())]
  problems = []
  if not dels:
    problems.append('the stored value is not removed')
  if not books:
    problems.append('the argument sets are not maintained')
  for k in books:
    if dels and g.can_skip(g.entry, lambda n: n in dels, to=k) is not None:
      problems.append(f'line {k.ast.lineno}: `{A.unparse(k.ast, 60)}` runs before the removal, whose change '
                      f'notification then rewrites the sets')
  # ... and happens only if the removal went through: not in a `finally` / handler of a
  # try around the removal (a refused deletion - sealed functor, read-only scope - must
  # leave the functor as it was)
  for t in ast.walk(f.node):
    if isinstance(t, ast.Try) and any(isinstance(x, ast.Delete) or (isinstance(x, ast.Call) and (A.call_name(x) or '') in (
        'self._sym_attributes.pop', 'self.sym_rebind', 'self.rebind')) for b_ in t.body for x in ast.walk(b_)):
      for blk in [t.finalbody] + [h.body for h in t.handlers]:
        for x in (y for st in blk for y in ast.walk(st)):
          if isinstance(x, ast.Call) and isinstance(x.func, ast.Attribute) and A.unparse(x.func.value) in SETS \
              and x.func.attr in ('add', 'discard', 'remove'):
            problems.append(f'line {x.lineno}: `{A.unparse(x, 50)}` also runs when the removal was refused')
  ctx.ob(rule_id, f.fq, not problems,
         'the bookkeeping of a deleted argument follows the removal and happens only if the removal succeeded', f.loc,
         '; '.join(problems))


def rule_m(ctx):
  """(1) Deserialization binds every key it reads, so a functor writes only the
  arguments that were specified - unspecified parameters holding their defaults
  are left out; otherwise a round trip turns defaults into bound arguments
  (which then cannot be given at call time without override_args).
  (2) At call time an argument supplied positionally and again by keyword is a
  TypeError, as in Python - the keyword must not silently win."""
  idx = ctx.index
  c = idx.cls('pyglove.core.symbolic.functor.Functor')
  ser = [m for n, m in c.methods.items() if n in ('sym_jsonify', 'to_json')]
  ok = False
  for m in ser:
    reads = any(isinstance(n, ast.Attribute) and n.attr in ('_specified_args', 'specified_args') for n in ast.walk(m.node))
    drops = any(isinstance(cl, ast.Call) and isinstance(cl.func, ast.Attribute) and cl.func.attr in ('pop', '__delitem__')
                for cl in ast.walk(m.node)) or any(isinstance(n, (ast.Delete, ast.DictComp)) for n in ast.walk(m.node))
    ok = ok or (reads and drops)
  ctx.ob('C18.m', c.fq + '#serialized-arguments', ok,
         'a functor serializes exactly its specified arguments (from_json binds every key it reads)',
         c.loc, 'Functor does not restrict its JSON form to _specified_args: after a round trip default-valued '
         'parameters count as specified, and f2(b=3) raises where f(b=3) worked')
  f = idx.func(FN + '_parse_call_time_overrides')
  g = C.cfg_of(f.node)
  va = f.node.args.vararg.arg if f.node.args.vararg else None
  kw = f.node.args.kwarg.arg if f.node.args.kwarg else None
  problems = []
  loops = [k for k in g.nodes if k.kind == 'iter' and isinstance(k.ast.iter, ast.Call)
           and A.call_name(k.ast.iter) == f'{kw}.items']
  if not va or not kw or not loops:
    problems.append('keyword loop over **kwargs not found')
  else:
    kv = A.assigned_names(loops[0].ast.target)
    # collections derived from the positional arguments of THIS call
    pos_sets = {nm for st in ast.walk(f.node) if isinstance(st, ast.Assign)
                and any(isinstance(x, ast.Name) and x.id == va for x in ast.walk(st.value))
                and any(isinstance(x, ast.Attribute) and x.attr in ('args', 'name') for x in ast.walk(st.value))
                for nm in A.assigned_names(st.targets[0])}
    tests = [t for t in g.nodes if t.kind == 'test' and isinstance(t.ast, ast.Compare) and len(t.ast.ops) == 1
             and isinstance(t.ast.ops[0], ast.In) and isinstance(t.ast.left, ast.Name) and t.ast.left.id in kv
             and isinstance(t.ast.comparators[0], ast.Name) and t.ast.comparators[0].id in pos_sets
             and any(x is t.ast for x in ast.walk(loops[0].ast))]
    if not tests:
      problems.append('no test `<keyword> in <names supplied positionally in this call>` in the keyword loop')
    elif not all(g.always_raises_from(t, 'true') for t in tests):
      problems.append('a keyword that repeats a positional argument of the same call does not always raise')
  ctx.ob('C18.m', f.fq + '#multiple-values', not problems,
         'an argument given positionally and again by keyword in one call raises TypeError (as Python does)',
         f.loc, '; '.join(problems))


def rule_n(ctx):
  """Binding errors are errors: (1) at construction a parameter bound
  positionally and again by keyword raises; (2) at call time a parameter that is
  already specified can be given again only when override_args is on - both for
  positional and for keyword re-binding; (3) an unknown keyword raises unless
  ignore_extra_args is on."""
  idx = ctx.index
  # (1) Functor.__init__
  f = idx.func(FN + '__init__')
  g = C.cfg_of(f.node)
  kw = f.node.args.kwarg.arg if f.node.args.kwarg else None
  loops = [k for k in g.nodes if k.kind == 'iter' and isinstance(k.ast.iter, ast.Call) and A.call_name(k.ast.iter) == f'{kw}.items']
  problems = []
  if not loops:
    problems.append('keyword loop not found')
  else:
    kv = A.assigned_names(loops[0].ast.target)
    filled = {st.targets[0].value.id for st in ast.walk(f.node) if isinstance(st, ast.Assign)
              and isinstance(st.targets[0], ast.Subscript) and isinstance(st.targets[0].value, ast.Name)}
    tests = [t for t in g.nodes if t.kind == 'test' and isinstance(t.ast, ast.Compare) and len(t.ast.ops) == 1
             and isinstance(t.ast.ops[0], ast.In) and isinstance(t.ast.left, ast.Name) and t.ast.left.id in kv
             and A.unparse(t.ast.comparators[0]) in filled and any(x is t.ast for x in ast.walk(loops[0].ast))]
    if not tests or not all(g.always_raises_from(t, 'true') for t in tests):
      problems.append('a keyword that repeats a positionally bound parameter does not raise')
  ctx.ob('C18.n', f.fq + '#multiple-values', not problems,
         'at construction a parameter bound positionally and again by keyword raises TypeError', f.loc, '; '.join(problems))
  # (2)/(3) call time
  f = idx.func(FN + '_parse_call_time_overrides')
  g = C.cfg_of(f.node)
  def flag_locals(word):
    return {nm for st in ast.walk(f.node) if isinstance(st, ast.Assign) and word in A.unparse(st.value)
            for nm in A.assigned_names(st.targets[0])} | {word}
  ov, ig = flag_locals('override_args'), flag_locals('ignore_extra_args')
  spec_tests = [t for t in g.nodes if t.kind == 'test' and isinstance(t.ast, ast.Compare) and len(t.ast.ops) == 1
                and isinstance(t.ast.ops[0], ast.In) and A.unparse(t.ast.comparators[0]) in ('self._specified_args', 'self.specified_args')]
  problems = []
  if len(spec_tests) < 2:
    problems.append(f'{len(spec_tests)} "already specified" tests (positional and keyword re-binding expected)')
  for t in spec_tests:
    # on the "already specified" side, with overriding OFF, the normal exit is unreachable
    blocked = set()
    for k in g.nodes:
      if k.kind == 'test' and isinstance(k.ast, ast.Name) and k.ast.id in ov:
        blocked |= {(k.id, m.id, l) for m, l in k.succ if l == 'true'}
    for m, lab in t.succ:
      if lab != 'true':
        continue
      seen, _ = g.reach(m, blocked_edges=blocked, follow_exc=False)
      seen.add(m.id)
      if g.exit.id in seen or any(h.id in seen for h in g.nodes if h.kind == 'iter'):
        problems.append(f'line {t.lineno}: an already specified argument can be re-bound although override_args is off')
  ctx.ob('C18.n', f.fq + '#override-guard', not problems,
         'an argument that is already specified is re-bound at call time only when override_args is on', f.loc,
         '; '.join(problems))
  spec_lookup = [t for t in g.nodes if t.kind == 'test' and isinstance(t.ast, ast.Name) and t.ast.id in {
      nm for st in ast.walk(f.node) if isinstance(st, ast.Assign) and isinstance(st.value, ast.Call)
      and (A.call_name(st.value) or '').endswith('.get_value_spec') for nm in A.assigned_names(st.targets[0])}]
  problems = []
  if not spec_lookup:
    problems.append('lookup of the keyword in the signature not found')
  for t in spec_lookup:
    blocked = set()
    for k in g.nodes:
      if k.kind == 'test' and isinstance(k.ast, ast.Name) and k.ast.id in ig:
        blocked |= {(k.id, m.id, l) for m, l in k.succ if l == 'true'}
    for m, lab in t.succ:
      if lab != 'false':
        continue
      seen, _ = g.reach(m, blocked_edges=blocked, follow_exc=False)
      seen.add(m.id)
      if g.exit.id in seen or any(h.id in seen for h in g.nodes if h.kind == 'iter'):
        problems.append(f'line {t.lineno}: a keyword the signature does not know is accepted although ignore_extra_args is off')
  ctx.ob('C18.n', f.fq + '#unexpected-keyword', not problems,
         'a keyword argument unknown to the signature raises TypeError unless ignore_extra_args is on', f.loc,
         '; '.join(problems))


def rule_o(ctx):
  """(1) The store for call-time member overrides of a class-based functor is
  private to the INSTANCE (a fresh threading.local() per object): one store
  shared by all functors lets a functor called from another's _call read the
  caller's values.  (2) A flag that is set around the user __init__ without
  try/finally stays set when __init__ raises; so nothing in the wrapper may
  branch on it (or the reset is in a finally).  (3) Signature.get_value_spec
  answers for keyword-capable parameters only (named arguments, else **kwargs):
  the *args name is not a keyword."""
  idx = ctx.index
  f = idx.func(FN + '__init__')
  stores = [st for st in ast.walk(f.node) if isinstance(st, ast.Assign) and A.unparse(st.targets[0]) == 'self._tls']
  ok = bool(stores) and all(any(isinstance(c, ast.Call) and (A.call_name(c) or '').endswith('threading.local')
                                for c in ast.walk(st.value)) for st in stores)
  ctx.ob('C18.o', f.fq + '#tls-per-instance', ok,
         'each class-based functor gets its own threading.local() for call-time member overrides', f.loc,
         'self._tls is not a fresh threading.local(): the override store is shared between functor objects')
  c = idx.cls('pyglove.core.symbolic.class_wrapper._SubclassedWrapperBase')
  FLAG = '_wrapped_cls_initializing'
  problems = []
  for name, m in c.methods.items():
    g = C.cfg_of(m.node)
    for k in g.nodes:
      if k.kind == 'test' and FLAG in A.unparse(k.ast):
        # acceptable only if every reset of the flag sits in a finally
        resets_ok = True
        for m2 in c.methods.values():
          for call in A.calls_in(m2.node):
            if (A.call_name(call) or '').endswith('__setattr__') and len(call.args) >= 3 \
                and A.const_str(call.args[1]) == FLAG and A.unparse(call.args[2]) == 'False':
              in_finally = any(isinstance(t, ast.Try) and any(call is x for st in t.finalbody for x in ast.walk(st))
                               for t in ast.walk(m2.node))
              resets_ok = resets_ok and in_finally
        if not resets_ok:
          problems.append(f'{name}:{k.lineno} branches on `{FLAG}`, which stays True after a user __init__ that raised')
  ctx.ob('C18.o', c.fq + '#initializing-flag', not problems,
         'the wrapper does not branch on a flag that a raising user __init__ leaves set', c.loc, '; '.join(problems))
  f = idx.func(CSIG + 'Signature.get_value_spec')
  bad = [f'line {r.lineno}: `{A.unparse(r, 60)}`' for r in ast.walk(f.node) if isinstance(r, ast.Return) and r.value is not None
         and any(isinstance(x, ast.Attribute) and x.attr == 'varargs' for x in ast.walk(r.value))]
  bad += [f'line {t.lineno}: test `{A.unparse(t.test, 60)}`' for t in ast.walk(f.node) if isinstance(t, ast.If)
          and any(isinstance(x, ast.Attribute) and x.attr == 'varargs' for x in ast.walk(t.test))]
  ctx.ob('C18.o', f.fq + '#keyword-capable', not bad,
         'get_value_spec resolves named parameters and **kwargs only: the *args name cannot be given by keyword', f.loc,
         '; '.join(bad))


def _bookkeeping_fn(idx):
  """The function that maintains the specified/default sets for a batch of updates:
  Functor._on_change itself, or the private helper it hands the updates to."""
  f = idx.func('pyglove.core.symbolic.functor.Functor._on_change')
  def has_marks(fn):
    return any((A.call_name(c) or '').startswith('self._specified_args.') for c in A.calls_in(fn.node))
  if has_marks(f):
    return f
  for c in A.calls_in(f.node):
    d = A.call_name(c) or ''
    if d.startswith('self._') and d.count('.') == 1:
      h = idx.lookup_method('pyglove.core.symbolic.functor.Functor', d.split('.')[1])
      if h is not None and has_marks(h):
        return h
  raise AnalysisError('Functor._on_change: the bookkeeping of bound arguments vanished')


def rule_r(ctx):
  """The call uses what the functor reports, also after a change that was not notified
  (`notify_on_change(False)`, `skip_notification=True`): the bookkeeping that `_on_change`
  does is also reached from `_sym_on_silent_change`, the hook the un-notified branches of
  rebind call with the updates.  Pre-fix `x.rebind(b=5)` under notify_on_change(False)
  left `specified_args == {'a'}` and the call passed the default for b."""
  idx = ctx.index
  bk = _bookkeeping_fn(idx)
  h = idx.lookup_method('pyglove.core.symbolic.functor.Functor', '_sym_on_silent_change')
  own = h is not None and idx.enclosing_class(h).name == 'Functor'
  reaches = own and (h is bk or any(A.call_name(c) == f'self.{bk.name}' for c in A.calls_in(h.node)))
  base_hook = idx.func('pyglove.core.symbolic.base.Symbolic._sym_reset_content_caches')
  passes = any((A.call_name(c) or '').endswith('._sym_on_silent_change') and (c.args or c.keywords) for c in A.calls_in(base_hook.node))
  ctx.ob('C18.r', 'Functor._sym_on_silent_change#bookkeeping', bool(reaches) and passes,
         'the bound-argument bookkeeping also runs for changes that are not notified (the hook receives the updates)',
         (h or bk).loc, 'Functor does not maintain its specified/default sets on the silent-change hook'
         + ('' if passes else ' (the hook is not given the updates)') +
         ': with pg.notify_on_change(False): x.rebind(b=5) -> x() still passes the default of b')


def rule_p(ctx):
  """The call uses the arguments the functor reports: the sets `specified_args` /
  `default_args` / `non_default_args`, from which the call decides what to pass, are
  maintained by Functor._on_change.  Every update it is told about moves the bookkeeping
  of the argument it belongs to - also an update BELOW an argument (`x.rebind({'opts.k':
  2})`, `x.args.append(5)`), which used to be skipped with a bare `continue`: the value
  changed, `sym_init_args` showed it, and the call kept passing the default."""
  idx = ctx.index
  f = _bookkeeping_fn(idx)
  g = C.cfg_of(f.node)
  loops = [n for n in ast.walk(f.node) if isinstance(n, ast.For)]
  if not loops:
    raise AnalysisError('Functor._on_change: loop over the updates not found')
  heads = [n for n in g.nodes if n.kind == 'iter' and n.ast is loops[0]]
  marks = [n for n in g.nodes if n.ast is not None and any(
      (A.call_name(c) or '') in ('self._specified_args.add', 'self._specified_args.discard') for c in n.calls())]
  if not heads or not marks:
    raise AnalysisError('Functor._on_change: bookkeeping statements not found')
  # from the first statement of the body: can the next iteration (or the end) be reached with no mark passed?
  body_first = [m for m, lab in heads[0].succ if lab in ('true', 'body', 'iter')] or [m for m, _ in heads[0].succ][:1]
  skipped = None
  for st in body_first:
    seen, parent = g.reach(st, blocked_nodes={m.id for m in marks}, follow_exc=False)
    if st.id not in {m.id for m in marks} and heads[0].id in seen:
      skipped = g.witness_str(parent, heads[0])
  ctx.ob('C18.p', 'Functor._on_change#every-update', skipped is None,
         'every field update moves the specified/default bookkeeping of its argument (updates below an argument included)',
         f.loc, f'an update can be skipped: {skipped} - f(1).rebind({{\'opts.k\': 2}}) shows opts={{k=2}} in sym_init_args '
         f'while the call still passes the default')


def rule_q(ctx):
  """Signature.get_value_spec returns None for a name the signature does not resolve by
  keyword - by design that includes the *args name (C18.o keeps it that way: `f(args=[1])`
  must not reach the varargs).  Its result is therefore never dereferenced unchecked:
  `del x.args` did `get_value_spec(name).has_default` after the value had already been
  removed.  (A first version of this rule asked get_value_spec to resolve the varargs
  name; that contradicts C18.o and was withdrawn together with the repair that did it.)"""
  idx = ctx.index
  n = 0
  for f in idx.all_funcs():
    if not f.module.name.startswith('pyglove.core.symbolic.') or f.module.relpath.endswith('_test.py'):
      continue
    for x in ast.walk(f.node):
      if isinstance(x, ast.Call) and (A.call_name(x) or '').endswith('.get_value_spec'):
        n += 1
        deref = [a for a in ast.walk(f.node) if isinstance(a, ast.Attribute) and a.value is x]
        ctx.ob('C18.q', f'{f.qualname}#get_value_spec@{"deref" if deref else "checked"}:{n}', not deref,
               'the Optional result of get_value_spec is not dereferenced unchecked', f'{f.module.relpath}:{x.lineno}',
               f'`{A.unparse(deref[0], 70) if deref else ""}`: None for the *args name (and for an unknown name without **kwargs) - '
               f'`del x.args` raises AttributeError with the value already removed')
  if n == 0:
    ctx.ob('C18.q', 'symbolic#get_value_spec-uses', True, 'no use of Signature.get_value_spec in the symbolic package', 'pyglove/core/symbolic/functor.py:1')


def run(ctx):
  ctx.consult(*FILES)
  rule_p(ctx)
  rule_q(ctx)
  rule_r(ctx)
  rule_a(ctx)
  rule_b(ctx)
  rule_c(ctx)
  rule_d(ctx)
  rule_e(ctx)
  rule_f(ctx)
  rule_g(ctx)
  rule_h(ctx)
  rule_i(ctx)
  rule_j(ctx)
  rule_k(ctx)
  rule_m(ctx)
  rule_n(ctx)
  rule_o(ctx)
  S.typecheck_flag_obligations(ctx, 'C18.l', ['pyglove/core/symbolic/functor.py', 'pyglove/core/symbolic/class_wrapper.py', 'pyglove/core/symbolic/object.py'], floor=3)
  ctx.assume('agreement with the interpreter\'s argument binding is differential by nature: not decided')
