"""C13 — hyper values (DESIGN §3 C13; narrow)."""
from __future__ import annotations

import ast

from sa import astutil as A
from sa import cfg as C
from sa import dataflow as D
from sa import surface as S
from sa.index import AnalysisError
from sa.rules import c03

PROP = 'C13'
EXPLANATION = (
    'Narrow structural part of C13: (a) decode/encode never mutate the '
    'template: every rebind in ObjectTemplate._decode is applied to a value '
    'that, on every feasible path (boolean-flag aware), is a deep clone; '
    '_encode hands back the template value unchanged to the in-place merge and '
    'matches object candidates by exact type; (b) each hyper primitive passes '
    'every constraint attribute to its geno spec under the matching keyword; '
    '(c) every concrete primitive implements _decode/encode/dna_spec; (d) '
    'candidates are validated before a value spec is bound, and bound tests '
    'use `is not None` (0 is a bound).  The decode/encode inverse law is not decided.')
FLOORS = {'C13.g': 1, 'C13.r': 15, 'C13.a': 2, 'C13.b': 3, 'C13.c': 2, 'C13.d': 2, 'C13.e': 3, 'C13.z': 2, 'C13.f': 1}
FILES = ['pyglove/core/utils/hierarchical.py', 'pyglove/core/geno/base.py', 'pyglove/core/hyper/object_template.py', 'pyglove/core/hyper/categorical.py',
         'pyglove/core/hyper/numerical.py', 'pyglove/core/hyper/custom.py',
         'pyglove/core/hyper/base.py', 'pyglove/core/hyper/iter.py',
         'pyglove/core/hyper/derived.py']
H = 'pyglove.core.hyper.'
MUT = ('rebind', 'sym_rebind', 'append', 'extend', 'insert', 'pop', 'remove', 'clear', 'update',
       'setdefault', 'seal', 'sym_seal', 'use_value_spec', '__setitem__', '__delitem__')


def rule_a(ctx):
  idx = ctx.index
  f = idx.func(H + 'object_template.ObjectTemplate._decode')
  g = C.cfg_of(f.node)
  n = 0
  for k in g.nodes:
    if k.ast is None:
      continue
    for c in k.calls():
      d = A.call_name(c) or ''
      p = d.split('.')
      if len(p) == 2 and p[1] in ('rebind', 'sym_rebind') and p[0] != 'self':
        n += 1
        rds = D.reaching_defs_flagaware(g, k, p[0])
        bad = []
        for dn, val in rds:
          ok = val is not None and isinstance(val, ast.Call) and (A.call_name(val) or '').endswith('clone') \
              and any(isinstance(kw.value, ast.Constant) and kw.value.value is True for kw in val.keywords if kw.arg == 'deep')
          if not ok:
            bad.append(f'`{A.unparse(val) if val is not None else "parameter"}` (line {dn.lineno if dn else 0})')
        ctx.ob('C13.a', f'{f.fq}#{d}@{A.unparse(c.args[0], 20) if c.args else ""}:{n}', not bad,
               'a decode-time rebind is applied only to a deep clone of template content '
               '(on every feasible path)', f'{f.module.relpath}:{c.lineno}',
               f'{p[0]}.rebind(...) can run on {", ".join(bad)}: a value that is still part of the '
               f'template (e.g. a constant candidate returned uncopied) is modified by decoding')
  if n < 2:
    raise AnalysisError('ObjectTemplate._decode: rebind sites not found')
  # self._value is never the receiver of a mutating call in decode / encode
  for q in ('ObjectTemplate._decode', 'ObjectTemplate.encode'):
    fn = idx.func(H + 'object_template.' + q)
    bad = []
    aliases = {'self._value'}
    for x in ast.walk(fn.node):
      if isinstance(x, ast.Call):
        d = A.call_name(x) or ''
        recv, _, meth = d.rpartition('.')
        if recv in aliases and meth in MUT:
          bad.append(f'{d}() at line {x.lineno}')
      elif isinstance(x, (ast.Assign, ast.AugAssign, ast.Delete)):
        tg = x.targets if not isinstance(x, ast.AugAssign) else [x.target]
        for t in tg:
          if isinstance(t, (ast.Subscript, ast.Attribute)) and (A.dotted(t.value) or '') in aliases:
            bad.append(f'store to {A.unparse(t)} at line {x.lineno}')
    ctx.ob('C13.a', fn.fq + '#template-readonly', not bad,
           'the template value is never the receiver of a mutating operation', fn.loc, '; '.join(bad))
  # _encode returns the template value (merge_tree merges in place into it)
  e = idx.func(H + 'object_template.ObjectTemplate.encode.<locals>._encode')
  rets = [A.unparse(r.value) for r in ast.walk(e.node) if isinstance(r, ast.Return)]
  ctx.ob('C13.a', e.fq + '#returns-template', rets and all(r == 'template_value' for r in rets),
         'the merge callback of encode always hands back the template value, so the in-place merge '
         'writes nothing new into the template', e.loc,
         f'returns {rets}: input values are written into the template during encode')
  # exact type match for Object candidates
  g = C.cfg_of(e.node)
  ts = [k for k in g.nodes if k.kind == 'test' and 'type(input_value)' in A.unparse(k.ast) and 'type(template_value)' in A.unparse(k.ast)]
  ok = bool(ts) and A.unparse(ts[0].ast).replace(' ', '') == 'type(input_value)isnottype(template_value)' \
      and g.always_raises_from(ts[0], 'true')
  ctx.ob('C13.a', e.fq + '#exact-type', ok,
         'an Object template matches only an input of exactly the same class (else ValueError), so '
         'encode picks the candidate decode produced', e.loc,
         'object candidates are matched by isinstance/other test: a base-class candidate captures '
         'subclass values and encode(decode(d)) != d')
  keyset_locals = {nm for st in ast.walk(e.node) if isinstance(st, ast.Assign) and isinstance(st.value, ast.Call)
                   and A.call_name(st.value) == 'set' and st.value.args and 'sym_keys()' in A.unparse(st.value.args[0])
                   for nm in A.assigned_names(st.targets[0])}
  ts = [k for k in g.nodes if k.kind == 'test' and isinstance(k.ast, ast.Compare) and len(k.ast.ops) == 1
        and isinstance(k.ast.ops[0], ast.NotEq) and isinstance(k.ast.left, ast.Name) and k.ast.left.id in keyset_locals
        and isinstance(k.ast.comparators[0], ast.Name) and k.ast.comparators[0].id in keyset_locals]
  ok = bool(ts) and g.always_raises_from(ts[0], 'true')
  ctx.ob('C13.a', e.fq + '#key-sets', ok, 'Object template and input must have equal key sets', e.loc,
         'key-set comparison changed')


TRANSFER = {
    H + 'categorical.Choices.dna_spec': {
        'num_choices': 'self.num_choices', 'distinct': 'self.choices_distinct',
        'sorted': 'self.choices_sorted', 'candidates': None},
    H + 'numerical.Float.dna_spec': {
        'min_value': 'self.min_value', 'max_value': 'self.max_value', 'scale': 'self.scale'},
}


def rule_b(ctx):
  idx = ctx.index
  for q, kws in TRANSFER.items():
    f = idx.func(q)
    calls = [c for c in A.calls_in(f.node) if (A.call_name(c) or '').startswith('geno.')]
    if not calls:
      raise AnalysisError(f'{q}: geno constructor call vanished')
    c = calls[0]
    for kw, want in kws.items():
      v = A.kwarg(c, kw)
      if want is None:
        ok = v is not None and '_candidate_templates' in A.unparse(v, 200) and 'dna_spec()' in A.unparse(v, 200)
        why = 'candidate specs are not built from every candidate template'
      else:
        ok = v is not None and A.unparse(v) == want
        why = f'`{kw}` is passed `{A.unparse(v) if v is not None else "nothing"}` instead of {want}'
      ctx.ob('C13.b', f'{q}#{kw}', ok,
             f'the geno spec receives {kw}={want or "[ct.dna_spec() for each candidate]"}', f.loc, why)


def rule_c(ctx):
  idx = ctx.index
  base = H + 'base.HyperPrimitive'
  idx.cls(base)
  n = 0
  for c in idx.subclasses(base):
    if any(d.endswith('abstractmethod') for m in c.methods.values() for d in A.decorator_names(m.node)):
      continue
    n += 1
    for meth in ('_decode', 'encode', 'dna_spec'):
      m = idx.lookup_method(c.fq, meth)
      owner = idx.enclosing_class(m).fq if m is not None else None
      ok = m is not None and owner != base and not any(
          isinstance(s, ast.Raise) and 'NotImplementedError' in A.unparse(s) for s in m.node.body[-1:])
      ctx.ob('C13.c', f'{c.fq}.{meth}', ok, f'concrete hyper primitive implements {meth}', c.loc,
             f'{meth} is not implemented')
  if n < 2:
    raise AnalysisError(f'only {n} concrete hyper primitives found')


def rule_d(ctx):
  idx = ctx.index
  for q in (H + 'categorical.ManyOf.custom_apply', H + 'categorical.OneOf.custom_apply'):
    f = idx.func(q)
    g = C.cfg_of(f.node)
    store = [k for k in g.nodes if k.kind == 'stmt' and isinstance(k.ast, ast.Assign)
             and A.unparse(k.ast.targets[0]) == 'self._value_spec']
    loops = [k for k in g.nodes if k.kind == 'iter' and 'self.candidates' in A.unparse(k.ast.iter)
             and A.has_call(k.ast, lambda d: d.endswith('.apply'))]
    problems = []
    if not store or not loops:
      problems.append('spec store / candidate validation loop not found')
    else:
      # only `list_spec` falsy may bypass the loop
      blocked = set()
      for k in g.nodes:
        if k.kind == 'test' and isinstance(k.ast, ast.Name) and isinstance(store[0].ast.value, ast.Name) \
            and k.ast.id == store[0].ast.value.id:
          for m, lab in k.succ:
            if lab == 'false':
              blocked.add((k.id, m.id, lab))
      seen, _ = g.reach(g.entry, blocked_nodes={l.id for l in loops}, blocked_edges=blocked, follow_exc=False)
      if store[0].id in seen:
        problems.append('value spec can be bound without applying it to the candidates')
      lp = loops[0].ast
      if any(isinstance(x, (ast.Break, ast.Continue, ast.Return)) for x in ast.walk(lp)):
        problems.append('candidate validation can stop early')
    ctx.ob('C13.d', q, not problems,
           'every candidate is applied to the element spec before the spec is bound', f.loc,
           '; '.join(problems))
    # an already bound spec must be compatible with the new one
    ts = [k for k in g.nodes if k.kind == 'test' and '.is_compatible(' in A.unparse(k.ast)]
    ok = bool(ts) and g.always_raises_from(ts[0], 'false')
    ctx.ob('C13.d', q + '#rebind-compat', ok,
           're-binding requires the new spec to be compatible with the bound one', f.loc,
           'compatibility gate changed')
  f = idx.func(H + 'numerical.Float.custom_apply')
  g = C.cfg_of(f.node)
  problems = []
  # the local holding the resolved spec: assigned from ...ensure_value_spec(...)
  fs = sorted({nm for st in ast.walk(f.node) if isinstance(st, ast.Assign)
               and any((A.call_name(c) or '').endswith('ensure_value_spec') for c in A.calls_in(st.value))
               for nm in A.assigned_names(st.targets[0])})
  if len(fs) != 1:
    raise AnalysisError(f'Float.custom_apply: resolved-spec local not found ({fs})')
  FS = fs[0]
  for bound in ('min_value', 'max_value'):
    nt = [k for k in g.nodes if k.kind == 'test' and A.unparse(k.ast) == f'{FS}.{bound} is not None']
    if not nt:
      tr = [k for k in g.nodes if k.kind == 'test' and A.unparse(k.ast) == f'{FS}.{bound}']
      problems.append(f'`{FS}.{bound}` is tested by ' + ('truthiness: a bound of 0.0 disables the '
                      'range check' if tr else 'something other than `is not None`'))
  ctx.ob('C13.d', f.fq + '#none-tests', not problems,
         'the presence of a spec bound is tested with `is not None` (0.0 is a bound)', f.loc,
         '; '.join(problems))
  rows = c03._cmp_rows(f.node)
  want = {('self.min_value', 'Lt', f'{FS}.min_value'), ('self.max_value', 'Gt', f'{FS}.max_value')}
  got = {(l, op, r) for op, l, r, raises, _ in rows if raises}
  ctx.ob('C13.d', f.fq + '#range', want <= got,
         'a float placeholder is bound only if its range lies inside the spec range '
         '(min < spec.min or max > spec.max raises)', f.loc,
         f'range tests are {sorted(got)}')
  # decode range checks
  fd = idx.func(H + 'numerical.Float._decode')
  n = c03.check_value_bound_rows(ctx, 'C13.d', fd, ('value',))
  if n < 2:
    raise AnalysisError('Float._decode range rows not found')
  # generic truthiness-of-bound scan in hyper
  for m in idx.modules.values():
    if not m.name.startswith(H.rstrip('.')):
      continue
    for fn in m.funcs.values():
      g = C.cfg_of(fn.node)
      for k in g.nodes:
        if k.kind == 'test' and isinstance(k.ast, ast.Attribute) and k.ast.attr in ('min_value', 'max_value'):
          ctx.ob('C13.d', f'{fn.fq}#truthiness:{A.unparse(k.ast)}', False,
                 'a numeric bound is never tested by truthiness', f'{m.relpath}:{k.lineno}',
                 f'`{A.unparse(k.ast)}` used as a boolean: 0 / 0.0 is treated as "no bound"')


def rule_e(ctx):
  """Decoding is re-entrant per decision: inside a `_decode`, a candidate /
  child template is consumed through `.decode(<its own sub-DNA>)`, whose
  result is used at once.  Parking the sub-DNA on the (shared) child template
  with `set_dna` and evaluating later lets a second use of the same candidate
  overwrite the first: both positions decode to the same value."""
  idx = ctx.index
  n = 0
  for c in idx.all_classes():
    if not c.module.name.startswith('pyglove.core.hyper.'):
      continue
    f = c.methods.get('_decode')
    if f is None:
      continue
    n += 1
    bad = []
    for h in S.helper_closure(idx, f):
      for call in A.calls_in(h.node):
        if isinstance(call.func, ast.Attribute) and call.func.attr == 'set_dna' and A.unparse(call.func.value) != 'self':
          bad.append(f'`{A.unparse(call, 70)}` (line {call.lineno})')
    ctx.ob('C13.e', f.fq, not bad,
           'child templates are decoded with .decode(sub_dna) and never put into a DNA-carrying state inside _decode',
           f.loc, 'stateful use of a shared child template: ' + ', '.join(bad) +
           ' - choosing the same candidate twice with different sub-decisions decodes both positions alike')
  if n < 3:
    raise AnalysisError(f'only {n} _decode implementations found')


def rule_f(ctx):
  """encode is type-strict: a float placeholder matches only a float, tested
  on the value as it was given (no conversion first).  Encoding picks the first
  candidate that accepts the value, so a float candidate that also accepts 5
  shadows a later constant candidate 5 and encode(decode(dna)) != dna."""
  idx = ctx.index
  f = idx.func('pyglove.core.hyper.numerical.Float.encode')
  g = C.cfg_of(f.node)
  ps = [p for p in A.param_names(f.node) if p != 'self']
  tests = [t for t in g.nodes if t.kind == 'test' and isinstance(t.ast, ast.Call) and A.call_name(t.ast) == 'isinstance'
           and len(t.ast.args) == 2 and isinstance(t.ast.args[0], ast.Name) and t.ast.args[0].id in ps
           and A.unparse(t.ast.args[1]) == 'float']
  problems = []
  if not tests:
    problems.append('no isinstance(value, float) test on the input')
  for t in tests:
    if not g.always_raises_from(t, 'false'):
      problems.append('a non-float input does not raise')
    for dn, val in D.reaching_defs(g, t, t.ast.args[0].id):
      if val is not None:
        problems.append(f'the input is rewritten as `{A.unparse(val, 50)}` (line {dn.lineno}) before its type is tested: '
                        f'non-float values are accepted and a float candidate shadows later constant candidates')
  ctx.ob('C13.f', f.fq, not problems,
         'a float placeholder encodes only float values, tested on the value as given', f.loc, '; '.join(problems))


def rule_g(ctx):
  """Decoding materialises a value by rebinding the decoded parts into a copy of
  the template.  Objects on the way (choices whose candidates hold further
  placeholders, user classes deriving state in _on_bound) rebuild their derived
  state when they are notified: the hyper package never rebinds with
  skip_notification=True nor under notify_on_change(False)."""
  idx = ctx.index
  bad = []
  n = 0
  for f in idx.all_funcs():
    if not f.module.name.startswith('pyglove.core.hyper.'):
      continue
    for c in A.calls_in(f.node):
      d = (A.call_name(c) or '').split('.')[-1]
      if d in ('rebind', 'sym_rebind'):
        n += 1
        for kw in c.keywords:
          if kw.arg == 'skip_notification' and A.unparse(kw.value) != 'False':
            bad.append(f'{f.module.relpath}:{c.lineno} `{A.unparse(c, 60)}`')
      if d == 'notify_on_change':
        bad.append(f'{f.module.relpath}:{c.lineno} `{A.unparse(c, 60)}`')
  ctx.ob('C13.g', 'pyglove.core.hyper#rebinds-notify', n >= 1 and not bad,
         'values are materialised with notification on: objects between the root and a decoded part rebuild their '
         'derived state (candidate templates, user _on_bound state)', 'pyglove/core/hyper/object_template.py:1',
         '; '.join(bad) or 'no rebind found in hyper')


def rule_h(ctx):
  """Encoding never modifies the template.  ObjectTemplate.encode walks the
  template with utils.merge_tree(<template>, <input>, merge_fn) - a MUTATING merge
  whose dest is the template itself; it leaves the template alone only because its
  merge_fn returns the template's own node (or raises).  That argument needs
  every store into `dest` inside merge_tree and its helpers to store what
  merge_fn decided: (1) every helper merge_tree dispatches to receives merge_fn;
  (2) every value stored into dest (subscript store / append) has a definition
  that comes from merge_fn(...) or a recursive merge_tree(...)."""
  idx = ctx.index
  HI_ = 'pyglove.core.utils.hierarchical.'
  enc = idx.func('pyglove.core.hyper.object_template.ObjectTemplate.encode')
  uses = [c for c in A.calls_in(enc.node) if (A.call_name(c) or '').endswith('merge_tree')]
  if not uses:
    ctx.ob('C13.h', 'ObjectTemplate.encode#walk', True, 'encode does not walk the template with a mutating merge', enc.loc)
    return
  mt = idx.func(HI_ + 'merge_tree')
  fn_param = 'merge_fn'
  helpers = []
  for c in A.calls_in(mt.node):
    d = A.call_name(c) or ''
    h = idx.find_func(HI_ + d) if d.startswith('_merge') else None
    if h is None:
      continue
    helpers.append(h)
    passes = any(isinstance(a, ast.Name) and a.id == fn_param for a in c.args) or any(
        kw.arg == fn_param for kw in c.keywords)
    ctx.ob('C13.h', f'merge_tree->{h.name}#merge_fn', passes,
           'the helper merge_tree dispatches to is given merge_fn', f'{mt.module.relpath}:{c.lineno}',
           f'`{A.unparse(c, 70)}` drops merge_fn: the helper writes the source into dest unasked - '
           f't.try_encode({{\'a\': {{0: 5}}}}) on a template with a list at `a` replaces the placeholder a[0] by 5')
  if len(helpers) < 2:
    raise AnalysisError('merge_tree: helpers not found')
  # (3) the walk follows the template's order: encode appends the child DNAs as merge_fn is
  # called, and decode reads them in template order - so keys present on both sides are visited
  # in the order of dest, not in the order the input dict happens to have
  for h in helpers:
    dest, src = h.node.args.args[0].arg, h.node.args.args[1].arg
    nlp = 0
    for lp in sorted([n for n in ast.walk(h.node) if isinstance(n, ast.For)], key=lambda n: n.lineno):
      if not any((A.call_name(c) or '') == 'merge_tree' for c in A.calls_in(lp)):
        continue
      nlp += 1
      def order_of(e, depth=0):
        """'dest' / 'src' / None: whose iteration order the iterable follows first."""
        if isinstance(e, ast.Name) and depth < 2:
          ds = [v for _, v in D.defs_of(h.node, e.id) if v is not None]
          return order_of(ds[0], depth + 1) if ds else None
        if isinstance(e, (ast.ListComp, ast.GeneratorExp)):
          return order_of(e.generators[0].iter, depth)
        if isinstance(e, ast.Call) and A.call_name(e) in ('sorted', 'list', 'tuple') and e.args:
          return 'sorted' if A.call_name(e) == 'sorted' else order_of(e.args[0], depth)
        names = A.names_read(e)
        if dest in names and src not in names:
          return 'dest'
        if src in names:
          return 'src'
        return None
      o = order_of(lp.iter)
      if h.name.endswith('into_dict'):
        ctx.ob('C13.h', f'{h.name}#visit-order:{nlp}', o in ('dest', 'sorted'),
               'keys present in both dicts are visited in the order of dest (the template)', f'{h.module.relpath}:{lp.lineno}',
               f'the loop follows the order of `{src}`: t.encode({{\'b\': 2, \'a\': 1}}) returns the child DNAs in input order, '
               f'DNA([1, 0]), which decodes to a different value')
  for h in helpers:
    dest = h.node.args.args[0].arg
    stores = []
    for n in ast.walk(h.node):
      if isinstance(n, ast.Assign) and isinstance(n.targets[0], ast.Subscript) and A.unparse(n.targets[0].value) == dest:
        stores.append((n.lineno, n.value))
      if isinstance(n, ast.Call) and A.call_name(n) == f'{dest}.append' and n.args:
        stores.append((n.lineno, n.args[0]))
    bad = []
    for ln, v in stores:
      def decided(e, depth=0):
        if isinstance(e, ast.Call) and (A.call_name(e) or '') in (fn_param, 'merge_tree'):
          return True
        if isinstance(e, ast.Name) and depth < 2:
          return any(val is not None and decided(val, depth + 1) for _, val in D.defs_of(h.node, e.id))
        return False
      if not decided(v):
        bad.append(f'line {ln}: `{A.unparse(v, 40)}`')
    ctx.ob('C13.h', f'{h.name}#stores', bool(stores) and not bad,
           'every value stored into dest was decided by merge_fn (directly or through merge_tree)', h.loc,
           'stored without asking merge_fn: ' + '; '.join(bad))


def rule_i(ctx):
  """An option reaches the code that implements it.  `pg.materialize(value, dict,
  use_literal_values=True)` promises to read the dict values as candidates' literal
  values; the only implementation of that reading is `DNA.from_dict(...,
  use_ints_as_literals=...)`.  Every function on the way (materialize ->
  DNA.from_parameters -> DNA.from_dict) hands the flag on: none deletes it, and
  the final call passes it as `use_ints_as_literals`."""
  idx = ctx.index
  chain = [('pyglove.core.hyper.object_template.materialize', 'use_literal_values', 'from_parameters', 'use_literal_values'),
           ('pyglove.core.geno.base.DNA.from_parameters', 'use_literal_values', 'from_dict', 'use_ints_as_literals')]
  for fq, param, callee, kw in chain:
    f = idx.find_func(fq)
    if f is None:
      raise AnalysisError(f'{fq} vanished')
    if param not in A.param_names(f.node):
      raise AnalysisError(f'{fq}: parameter {param} vanished')
    deleted = any(isinstance(n, ast.Delete) and any(isinstance(t, ast.Name) and t.id == param for t in n.targets)
                  for n in ast.walk(f.node))
    calls = [c for c in A.calls_in(f.node) if (A.call_name(c) or '').split('.')[-1] == callee]
    passed = any(any(k.arg == kw and param in A.names_read(k.value) for k in c.keywords) or
                 any(isinstance(a, ast.Name) and a.id == param for a in c.args) for c in calls)
    ctx.ob('C13.i', f'{f.qualname}#{param}', bool(calls) and passed and not deleted,
           f'`{param}` is handed on to {callee}({kw}=...)', f.loc,
           (f'`del {param}`: ' if deleted else '') + f'{callee} is called without the flag: integer literal values in the '
           f'dict are read as candidate indices (materialize(v, dna.to_dict(value_type=\'literal\'), use_literal_values=True) '
           f'picks other candidates or raises)')


def rule_j(ctx):
  """try_encode is how a choice searches its candidates ("try to encode a value
  without raising"): a candidate that cannot encode the value must read as "no
  match", whatever exception its encode uses to say so.  The exception classes
  raised by design in the encode functions of the hyper package (encode,
  custom_encode, the nested _encode) are all caught by ObjectTemplate.try_encode."""
  idx = ctx.index
  te = idx.func('pyglove.core.hyper.object_template.ObjectTemplate.try_encode')
  caught = set()
  for n in ast.walk(te.node):
    if isinstance(n, ast.ExceptHandler) and n.type is not None:
      ts = n.type.elts if isinstance(n.type, ast.Tuple) else [n.type]
      caught |= {A.unparse(t).split('.')[-1] for t in ts}
  raised = {}
  for f in idx.all_funcs():
    if not f.module.name.startswith('pyglove.core.hyper.') or f.module.relpath.endswith('_test.py'):
      continue
    if f.name not in ('encode', 'custom_encode', '_encode'):
      continue
    for r in A.walk_local(f.node):
      if isinstance(r, ast.Raise) and r.exc is not None:
        e = r.exc.func if isinstance(r.exc, ast.Call) else r.exc
        nm = A.unparse(e).split('.')[-1]
        if nm[:1].isupper():
          raised.setdefault(nm, f'{f.module.relpath}:{r.lineno}')
  if len(raised) < 2:
    raise AnalysisError(f'hyper encode functions: raised exception classes not found ({raised})')
  broad = bool({'Exception', 'BaseException'} & caught)
  for nm, loc in sorted(raised.items()):
    ctx.ob('C13.j', f'try_encode#catches:{nm}', broad or nm in caught,
           f'{nm} raised by an encode of the hyper package reads as "no match" in try_encode', loc,
           f'try_encode catches {sorted(caught)} only: a candidate whose encode raises {nm} aborts the search, so '
           f'the sibling candidate that does match is never tried (t.encode(pg.Dict(x=\'b\')) raises for '
           f'oneof([CustomHyperWithoutEncode(), \'b\']))')


def run(ctx):
  ctx.consult(*FILES)
  rule_g(ctx)
  rule_h(ctx)
  rule_i(ctx)
  rule_j(ctx)
  from sa.rejections import REJECTIONS as _REJ
  S.rejection_census_obligations(ctx, 'C13.r', _REJ['C13'], floor=15)
  rule_a(ctx)
  rule_b(ctx)
  rule_c(ctx)
  rule_d(ctx)
  rule_e(ctx)
  rule_f(ctx)
  S.optional_truthiness_obligations(ctx, 'C13.z', ['pyglove/core/hyper/categorical.py', 'pyglove/core/hyper/numerical.py', 'pyglove/core/hyper/object_template.py', 'pyglove/core/hyper/base.py'], 'choice 0 and bound 0.0 are values')
  ctx.assume('decode/encode inverse law, shape of decoded values and iteration counts are not decided')
