"""C06 — equality, hashing and ordering laws (DESIGN §3 C06)."""
from __future__ import annotations

import ast

from sa import astutil as A
from sa import cfg as C
from sa import surface as S
from sa.index import AnalysisError

PROP = 'C06'
EXPLANATION = (
    'Agreement between the three relations is decided from their code: eq '
    'compares dict key SETS, therefore (a) Dict.sym_hash and (b) the dict '
    'branch of lt must canonicalise key order; (c) every category of the type '
    'order that Python cannot order natively has a same-category rule in lt, '
    'and the categories coincide with the equivalence classes `==` can relate '
    '(bool/int/float share a rank, ranks are distinct and increasing); (d) ne '
    '/ gt / __ne__ are defined from eq / lt / __eq__ and __eq__/__hash__ are '
    'guarded by the same class flag; (e) sym_eq, sym_lt and sym_hash consult '
    'the same state; (f) hashing is a side-effect free function of the current '
    'state (no memo); (g) eq\'s container branches compare sizes/key sets '
    'before elements.  Reflexivity/symmetry/transitivity over values are not decided.')
FLOORS = {'C06.h': 1, 'C06.a': 1, 'C06.b': 1, 'C06.c': 1, 'C06.d': 2, 'C06.e': 2, 'C06.f': 2, 'C06.g': 1}
FILES = ['pyglove/core/symbolic/base.py', 'pyglove/core/symbolic/object.py',
         'pyglove/core/symbolic/dict.py', 'pyglove/core/symbolic/list.py',
         'pyglove/core/typing/inspect.py']
B = 'pyglove.core.symbolic.base.'


def _order_insensitive(expr):
  """Does the aggregate expression canonicalise iteration order?"""
  for n in ast.walk(expr):
    if isinstance(n, ast.Call) and A.call_name(n) in ('frozenset', 'sorted', 'set'):
      return True
  return False


def rule_a(ctx):
  idx = ctx.index
  eqf = idx.func(B + 'eq')
  eq_order_insensitive = any(
      isinstance(n, ast.Compare) and 'set(left.keys())' in A.unparse(n) and 'set(right.keys())' in A.unparse(n)
      for n in ast.walk(eqf.node))
  ctx.info('C06.a', eqf.fq, f'eq compares dict key sets order-insensitively: {eq_order_insensitive}', eqf.loc)
  for cls_fq, it in ((S.DICT, 'sym_items'), (S.LIST, 'sym_values')):
    f = idx.lookup_method(cls_fq, 'sym_hash')
    rets = [n for n in ast.walk(f.node) if isinstance(n, ast.Return) and n.value is not None]
    if not rets:
      raise AnalysisError(f'{cls_fq}.sym_hash has no return')
    agg = rets[0].value
    if cls_fq == S.DICT:
      def agg_of(r):
        v = r.value
        if isinstance(v, ast.Name):      # `h = ...; return h`
          from sa import dataflow as _D
          ds = [x for _, x in _D.defs_of(f.node, v.id) if x is not None]
          return ds
        return [v]
      # every return (the hash of an Object's attribute container included)
      ok = (not eq_order_insensitive) or all(_order_insensitive(a2) for r in rets for a2 in agg_of(r))
      ctx.ob('C06.a', f.fq, ok,
             'because eq treats dicts with the same key set as equal whatever the key order, '
             'the hash aggregates items order-insensitively (frozenset / sorted)', f.loc,
             'items are aggregated in iteration order (tuple/list): eq(Dict(a=1,b=2), Dict(b=2,a=1)) '
             'holds but their hashes differ')
    else:
      ok = not _order_insensitive(agg) and 'tuple' in A.unparse(agg)
      ctx.ob('C06.a', f.fq, ok,
             'list hash aggregates elements in order (eq on lists is positional)', f.loc,
             'list hash no longer positional')


def _children_hashed_symbolically(f, it):
  """In the hash aggregate, every child value taken from the symbolic
  iteration (comprehension or loop) is wrapped in sym_hash(<that value>) and
  appears bare only in filter conditions."""
  sites = []   # (value name, roots to inspect, condition roots)
  for n in ast.walk(f.node):
    if isinstance(n, (ast.ListComp, ast.GeneratorExp, ast.SetComp)):
      for g in n.generators:
        if it in A.unparse(g.iter):
          sites.append((A.assigned_names(g.target)[-1], [n.elt], list(g.ifs)))
    elif isinstance(n, ast.DictComp):
      for g in n.generators:
        if it in A.unparse(g.iter):
          sites.append((A.assigned_names(g.target)[-1], [n.key, n.value], list(g.ifs)))
    elif isinstance(n, ast.For) and it in A.unparse(n.iter):
      conds = [x.test for b in n.body for x in ast.walk(b) if isinstance(x, (ast.If, ast.IfExp))]
      sites.append((A.assigned_names(n.target)[-1], list(n.body), conds))
  if not sites:
    return False, f'the hash does not iterate self.{it}()'
  for val, roots, conds in sites:
    cond_nodes = {id(x) for c in conds for x in ast.walk(c)}
    wrapped = bare = 0
    def visit(node):
      nonlocal wrapped, bare
      if id(node) in cond_nodes:
        return
      if isinstance(node, ast.Call):
        d = A.call_name(node) or ''
        if d.split('.')[-1] == 'sym_hash' and len(node.args) == 1 and isinstance(node.args[0], ast.Name) \
            and node.args[0].id == val:
          wrapped += 1
          return
      if isinstance(node, ast.Name) and node.id == val and isinstance(node.ctx, ast.Load):
        bare += 1
      for ch in ast.iter_child_nodes(node):
        visit(ch)
    for r in roots:
      visit(r)
    if not wrapped:
      return False, f'child `{val}` is hashed with the builtin hash, not sym_hash({val})'
    if bare:
      return False, f'child `{val}` also enters the hash outside sym_hash()'
  return True, ''


def _plain_tuple_hashed_memberwise(idx):
  hf = idx.func(B + 'sym_hash')
  param = hf.node.args.args[0].arg
  for n in ast.walk(hf.node):
    if isinstance(n, ast.If) and {'tuple', 'list'} & _isinstance_kinds(n.test, param):
      if any(isinstance(r, ast.Return) and r.value is not None and any(
          isinstance(c, ast.Call) and (A.call_name(c) or '').split('.')[-1] == 'sym_hash' for c in ast.walk(r.value))
             for b in n.body for r in ast.walk(b)):
        if 'tuple' in _isinstance_kinds(n.test, param):
          return True
  return False


def _positional_through_sym_hash(f):
  """Every return is sym_hash(<tuples/lists of the children, nothing else>)."""
  rets = [r for r in ast.walk(f.node) if isinstance(r, ast.Return) and r.value is not None]
  if not rets or not all(isinstance(r.value, ast.Call) and (A.call_name(r.value) or '').split('.')[-1] == 'sym_hash'
                         for r in rets):
    return False
  allowed = {'sym_hash', 'tuple', 'list', 'sym_values', 'sym_items', 'append'}
  return all((A.call_name(c) or '?').split('.')[-1] in allowed for c in A.calls_in(f.node))


def rule_a2(ctx):
  idx = ctx.index
  for cls_fq, it in ((S.DICT, 'sym_items'), (S.LIST, 'sym_values')):
    f = idx.lookup_method(cls_fq, 'sym_hash')
    ok, why = _children_hashed_symbolically(f, it)
    if not ok and cls_fq == S.LIST and _plain_tuple_hashed_memberwise(idx) and _positional_through_sym_hash(f):
      # since pg.hash hashes the members of a plain tuple/list symbolically (C06.i), handing the
      # bare children over in a tuple is the same computation
      ok, why = True, ''
    # Dict filters MISSING values: the comparison `v != MISSING` is in the `ifs`, not the element
    ctx.ob('C06.a', f.fq + '#children', ok,
           'children enter a container hash through sym_hash (values that are symbolically equal but '
           'identity-hashed - objects without symbolic comparison, symbolized classes, equal lambdas - '
           'hash equally)', f.loc, why)
  f = idx.func(B + 'sym_hash')
  g = C.cfg_of(f.node)
  tests = [n for n in g.nodes if n.kind == 'test']
  ok = bool(tests) and 'isinstance(x, Symbolic)' in A.unparse(tests[0].ast) and any(
      n.kind == 'return' and A.unparse(n.ast.value) == 'x.sym_hash()' for m, lab in tests[0].succ if lab == 'true'
      for n in [m])
  ctx.ob('C06.a', f.fq, ok, 'pg.hash dispatches a symbolic value to its sym_hash() first', f.loc,
         'symbolic values are no longer hashed through sym_hash()')


def rule_b(ctx):
  idx = ctx.index
  f = idx.func(B + 'lt')
  branch = None
  for n in ast.walk(f.node):
    if isinstance(n, ast.If) and A.unparse(n.test) == 'isinstance(left, dict)':
      branch = n
  if branch is None:
    raise AnalysisError('lt: dict branch vanished')
  keys_defs = [s for s in branch.body if isinstance(s, ast.Assign) and '.keys()' in A.unparse(s.value)]
  canon = bool(keys_defs) and all(_order_insensitive(s.value) for s in keys_defs)
  ctx.ob('C06.b', f.fq + '#dict-branch', canon,
         'the dict branch of lt canonicalises key order before its positional walk (as eq is '
         'insensitive to key order)', f'{f.module.relpath}:{branch.lineno}',
         'keys are walked in insertion order: for two key orders of the same dict both eq(x, y) and '
         'lt(x, y) hold (trichotomy fails)')


NATIVE_UNORDERED = {'MissingValue': 'the missing marker', 'None': 'NoneType'}


def _type_order_rows(f):
  """[(rank or 'qualname', [type names], test text)] from the if/elif chain."""
  rows = []
  node = None
  for n in f.node.body:
    if isinstance(n, ast.If):
      node = n
  while node is not None:
    t = node.test
    names = []
    if isinstance(t, ast.Call) and A.call_name(t) == 'isinstance':
      tt = t.args[1]
      elts = tt.elts if isinstance(tt, ast.Tuple) else [tt]
      names = [(A.dotted(e) or A.unparse(e)).split('.')[-1] for e in elts]
    elif isinstance(t, ast.Compare) and isinstance(t.ops[0], ast.Is) and A.unparse(t.comparators[0]) == 'None':
      names = ['None']
    rank = None
    for s in node.body:
      if isinstance(s, ast.Assign) and isinstance(s.value, ast.Constant):
        rank = s.value.value
    rows.append((rank, names, A.unparse(t)))
    if len(node.orelse) == 1 and isinstance(node.orelse[0], ast.If):
      node = node.orelse[0]
    else:
      node = None
  return rows


def rule_c(ctx):
  idx = ctx.index
  to = idx.func(B + '_type_order')
  rows = _type_order_rows(to)
  if len(rows) < 6:
    raise AnalysisError(f'_type_order: only {len(rows)} rows extracted')
  f = idx.func(B + 'lt')
  txt_tests = [A.unparse(n.test) for n in ast.walk(f.node) if isinstance(n, ast.If)]
  for rank, names, test in rows:
    for nm in names:
      if nm in NATIVE_UNORDERED:
        handled = any(('left is None' in t or 'MissingValue' in t or 'MISSING_VALUE' in t) and
                      (nm == 'None' and 'None' in t or nm == 'MissingValue' and 'M' in t) for t in txt_tests)
        ctx.ob('C06.c', f'{f.fq}#same-category:{nm}', handled,
               f'lt has a same-category rule for {NATIVE_UNORDERED[nm]} (Python cannot order it natively)',
               f.loc, f'lt({nm}, {nm}) falls through to `left < right` and raises TypeError: sorting '
               f'a list that contains it twice raises')
  # container categories that eq compares member-wise (C06.i finds them in eq) are ordered
  # member-wise too: Python's own `<` on a tuple compares the members natively (TypeError for
  # (1,) < ('a',), and inconsistent with the symbolic eq of the members)
  eqf = idx.func(B + 'eq')
  eq_kinds = set()
  for n in ast.walk(eqf.node):
    if isinstance(n, ast.If):
      eq_kinds |= _isinstance_kinds(n.test)
  lt_kinds = {}
  for n in ast.walk(f.node):
    if isinstance(n, ast.If):
      for k in _isinstance_kinds(n.test, 'left'):
        # member-wise: the branch calls lt/eq on members (a recursive call with subscripts / loop vars)
        rec = [c for b in n.body for c in A.calls_in(b) if (A.call_name(c) or '') in ('lt', 'eq')]
        lt_kinds[k] = bool(rec)
  for k in sorted(eq_kinds):
    ctx.ob('C06.c', f'{f.fq}#same-category:{k}', lt_kinds.get(k, False),
           f'lt orders two {k}s member-wise with the symbolic lt/eq (as eq compares them)', f.loc,
           f'lt has no member-wise branch for {k}: it falls through to Python\'s `<`, which raises for members '
           f'of different kinds (lt((1,), (\'a\',))) and disagrees with the symbolic eq of the members')
  # keys of two dicts are ordered with lt as well (int and str keys can meet)
  for n in ast.walk(f.node):
    if isinstance(n, ast.If) and 'dict' in _isinstance_kinds(n.test, 'left'):
      key_locals = set()
      for st in ast.walk(n):
        if isinstance(st, ast.Assign) and any('keys' in A.unparse(x) for x in ast.walk(st.value) if isinstance(x, ast.Name) or isinstance(x, ast.Attribute)):
          key_locals |= set(A.assigned_names(st.targets[0]))
      native = [c for c in ast.walk(n) if isinstance(c, ast.Compare) and len(c.ops) == 1
                and isinstance(c.ops[0], (ast.Lt, ast.Gt, ast.LtE, ast.GtE))
                and isinstance(c.left, ast.Name) and isinstance(c.comparators[0], ast.Name)
                and {c.left.id, c.comparators[0].id} <= key_locals]
      ctx.ob('C06.c', f'{f.fq}#dict-keys', not native,
             'differing keys of two dicts are ordered with lt, not with Python\'s `<` (a str key and an int key '
             'can meet)', f'{f.module.relpath}:{n.lineno}',
             f'`{A.unparse(native[0]) if native else ""}` raises TypeError for an int key against a str key')
  # categories coincide with what == can relate; ranks distinct and increasing
  ranks = [r for r, _, _ in rows]
  ints = [r for r in ranks if isinstance(r, int)]
  problems = []
  if len(set(ints)) != len(ints):
    problems.append(f'duplicate ranks {ints}')
  if ints != sorted(ints):
    problems.append(f'ranks not increasing in test order {ints}')
  numeric = [set(n) for r, n, _ in rows if {'int', 'float', 'bool'} & set(n)]
  if len(numeric) != 1 or numeric[0] != {'bool', 'int', 'float'}:
    problems.append(f'bool/int/float (which == can equate) are split over rows {numeric}: '
                    f'eq(True, 1) and lt(True, 1) would both hold')
  cats = [n for _, n, _ in rows]
  order = [c[0] for c in cats if c]
  want = ['MissingValue', 'None', 'bool', 'str', 'list', 'tuple', 'set', 'dict']
  firsts = [('bool' if {'bool', 'int', 'float'} & set(c) else c[0]) for c in cats if c]
  if firsts != want:
    problems.append(f'category order {firsts} differs from the documented {want}')
  ctx.ob('C06.c', to.fq, not problems,
         'type-order categories: distinct increasing ranks, numbers share one rank, documented order',
         to.loc, '; '.join(problems))
  # lt consults the type order only when types differ and ranks differ
  g = C.cfg_of(f.node)
  tests = [A.unparse(k.ast) for k in g.nodes if k.kind == 'test']
  # locals holding the two ranks: assigned from the type-order function
  rank_locals = {nm for st in ast.walk(f.node) if isinstance(st, ast.Assign) and isinstance(st.value, ast.Call)
                 and (A.call_name(st.value) or '').split('.')[-1] == to.node.name
                 for nm in A.assigned_names(st.targets[0])}
  rank_cmp = any(k.kind == 'test' and isinstance(k.ast, ast.Compare) and len(k.ast.ops) == 1
                 and isinstance(k.ast.ops[0], (ast.NotEq, ast.Eq))
                 and {A.unparse(k.ast.left), A.unparse(k.ast.comparators[0])} <= rank_locals
                 and A.unparse(k.ast.left) != A.unparse(k.ast.comparators[0]) for k in g.nodes)
  ok = 'type(left) is not type(right)' in tests and rank_cmp
  ctx.ob('C06.c', f.fq + '#type-order-use', ok,
         'values of different categories are ordered by category, same category by content', f.loc,
         'type-order dispatch changed')


def rule_d(ctx):
  idx = ctx.index
  f = idx.func(B + 'ne')
  rets = [A.unparse(n.value) for n in ast.walk(f.node) if isinstance(n, ast.Return)]
  ctx.ob('C06.d', f.fq, rets == ['not eq(left, right)'], 'ne is the negation of eq', f.loc,
         f'ne returns {rets}')
  f = idx.func(B + 'gt')
  rets = [A.unparse(n.value) for n in ast.walk(f.node) if isinstance(n, ast.Return)]
  ctx.ob('C06.d', f.fq, rets == ['lt(right, left)'], 'gt is lt with arguments swapped', f.loc,
         f'gt returns {rets}')
  for meth, target in (('sym_ne', 'ne(self, other)'), ('sym_eq', 'eq(self, other)'),
                       ('sym_gt', 'gt(self, other)'), ('sym_lt', 'lt(self, other)')):
    f = idx.func(S.SYMBOLIC + '.' + meth)
    rets = [A.unparse(n.value) for n in ast.walk(f.node) if isinstance(n, ast.Return)]
    ctx.ob('C06.d', f.fq, rets == [target], f'Symbolic.{meth} delegates to {target}', f.loc,
           f'returns {rets}')
  eqm = idx.lookup_method(S.OBJECT, '__eq__')
  hm = idx.lookup_method(S.OBJECT, '__hash__')
  nem = idx.lookup_method(S.OBJECT, '__ne__')
  for m, delegate in ((eqm, 'self.sym_eq(other)'), (hm, 'self.sym_hash()')):
    g = C.cfg_of(m.node)
    t = [k for k in g.nodes if k.kind == 'test' and A.unparse(k.ast) == 'self.use_symbolic_comparison']
    ok = bool(t)
    if ok:
      for m2, lab in t[0].succ:
        if lab == 'true':
          ok = ok and m2.kind == 'return' and A.unparse(m2.ast.value) == delegate
        if lab == 'false':
          ok = ok and m2.kind == 'return' and A.unparse(m2.ast.value).startswith('super().')
    ctx.ob('C06.d', m.fq, ok,
           f'{m.name} returns {delegate} exactly when use_symbolic_comparison is set, else the '
           f'inherited behaviour', m.loc, 'flag guard / delegation changed')
  # every non-NotImplemented return is `not <the result of self.__eq__(other)>`
  def is_eq_call(e):
    return isinstance(e, ast.Call) and A.call_name(e) == 'self.__eq__' and len(e.args) == 1
  eq_locals = {nm for st in ast.walk(nem.node) if isinstance(st, ast.Assign) and is_eq_call(st.value)
               for nm in A.assigned_names(st.targets[0])}
  def is_eq_result(e):
    return is_eq_call(e) or (isinstance(e, ast.Name) and e.id in eq_locals)
  rets = [r.value for r in ast.walk(nem.node) if isinstance(r, ast.Return) and r.value is not None]
  negs = [r for r in rets if isinstance(r, ast.UnaryOp) and isinstance(r.op, ast.Not) and is_eq_result(r.operand)]
  others = [r for r in rets if r not in negs and not is_eq_result(r) and A.unparse(r) != 'NotImplemented']
  ok = bool(negs) and not others
  ctx.ob('C06.d', nem.fq, ok, '__ne__ negates __eq__ (NotImplemented passes through)', nem.loc,
         '__ne__ no longer derived from __eq__')
  for cls_fq in (S.LIST,):
    m = idx.lookup_method(cls_fq, '__hash__')
    rets = [A.unparse(n.value) for n in ast.walk(m.node) if isinstance(n, ast.Return)]
    ctx.ob('C06.d', m.fq, rets == ['self.sym_hash()'], 'List.__hash__ is its symbolic hash', m.loc,
           f'returns {rets}')


def rule_e(ctx):
  idx = ctx.index
  for meth in ('sym_eq', 'sym_lt', 'sym_hash'):
    f = idx.lookup_method(S.OBJECT, meth)
    attrs = {A.dotted(n) for n in ast.walk(f.node) if isinstance(n, ast.Attribute) and A.dotted(n)}
    state = {a for a in attrs if a.startswith('self._') or a.startswith('other._')}
    ok = state <= {'self._sym_attributes', 'other._sym_attributes', 'self.__class__'} and \
        'self._sym_attributes' in state
    uses_type = 'type(self)' in A.unparse(f.node, 2000) or 'self.__class__' in A.unparse(f.node, 2000)
    ctx.ob('C06.e', f.fq, ok and uses_type,
           f'Object.{meth} is a function of the class and the attribute container only', f.loc,
           f'consults {sorted(state)}; class consulted: {uses_type}')
  f = idx.lookup_method(S.LIST, 'sym_hash')
  # (the class used to be demanded here as the kind tag; eq does not look at the class of a list - C06.i)
  ok = any(t in A.unparse(f.node, 1000) for t in ('self.sym_values()', 'self.sym_items()'))
  ctx.ob('C06.e', f.fq, ok, 'List.sym_hash iterates the symbolic values (as eq does)', f.loc,
         'List.sym_hash no longer iterates sym_values()')
  f = idx.lookup_method(S.DICT, 'sym_hash')
  ok = 'self.sym_items()' in A.unparse(f.node, 1000)
  ctx.ob('C06.e', f.fq, ok, 'Dict.sym_hash iterates the symbolic items (as eq does)', f.loc,
         'Dict.sym_hash no longer iterates sym_items()')
  # Object.sym_eq: same type required, attribute containers compared with eq
  f = idx.lookup_method(S.OBJECT, 'sym_eq')
  type_cmp = any(isinstance(n, ast.Compare) and isinstance(n.ops[0], (ast.Is, ast.IsNot))
                 and {A.unparse(n.left), A.unparse(n.comparators[0])} == {'type(self)', 'type(other)'}
                 for n in ast.walk(f.node))
  attr_eq = any((A.call_name(c) or '').split('.')[-1] == 'eq' and
                {A.unparse(x) for x in c.args[:2]} == {'self._sym_attributes', 'other._sym_attributes'}
                for c in A.calls_in(f.node))
  ok = type_cmp and attr_eq
  ctx.ob('C06.e', f.fq + '#shape', ok,
         'objects are equal iff identical or of the very same class with equal attributes', f.loc,
         'sym_eq no longer requires the same class / compares attributes with eq')


def rule_f(ctx):
  """Hashing is side-effect free and memo-free."""
  idx = ctx.index
  fs = [idx.func(B + 'sym_hash')] + [idx.lookup_method(c, 'sym_hash') for c in (S.LIST, S.DICT, S.OBJECT)]
  fs += [idx.lookup_method(S.OBJECT, '__hash__')]
  for f in fs:
    bad = []
    for n in ast.walk(f.node):
      if isinstance(n, (ast.Assign, ast.AugAssign)):
        for t in A.stmt_targets(n):
          if isinstance(t, (ast.Attribute, ast.Subscript)):
            bad.append(f'store to {A.unparse(t)} at line {n.lineno}')
      elif isinstance(n, ast.Call):
        d = A.call_name(n) or ''
        if d in ('setattr', 'getattr', 'object.__setattr__') or d.endswith('_set_raw_attr'):
          bad.append(f'{d}(...) at line {n.lineno}')
      elif isinstance(n, ast.Attribute) and 'hash' in n.attr and n.attr.startswith('_') and not n.attr.startswith('__'):
        bad.append(f'reads cached attribute {n.attr}')
    ctx.ob('C06.f', f.fq, not bad,
           'the hash is recomputed from the current state on every call (no memo, no side effect), '
           'so it cannot go stale after a mutation that skips notification', f.loc, '; '.join(bad))


def rule_g(ctx):
  idx = ctx.index
  f = idx.func(B + 'eq')
  g = C.cfg_of(f.node)
  tests = {A.unparse(k.ast): k for k in g.nodes if k.kind == 'test'}
  # sequences: length test raises False before the element loop
  lts = [k for k in g.nodes if k.kind == 'test' and A.unparse(k.ast) == 'len(left) != len(right)'
         and any(m.kind == 'return' and A.unparse(m.ast.value) == 'False' for m, lab in k.succ if lab == 'true')]
  zl = [k for k in g.nodes if k.kind == 'iter' and A.unparse(k.ast.iter).replace(' ', '') == 'zip(left,right)']
  ok = bool(lts) and bool(zl)
  if ok:
    seen, _ = g.reach(g.entry, blocked_nodes={k.id for k in lts}, follow_exc=False)
    ok = not any(z.id in seen for z in zl)
  ctx.ob('C06.g', f.fq + '#sequence-length', ok,
         'sequences of different length are unequal (tested before the pairwise loop)', f.loc,
         'length test missing or no longer returns False')
  # list and tuple are different categories of the type order (and hash
  # differently): a list is never equal to a tuple
  mixed = []
  for k in g.nodes:
    if k.kind == 'test' and isinstance(k.ast, ast.Call) and A.call_name(k.ast) == 'isinstance' and len(k.ast.args) == 2:
      t2 = k.ast.args[1]
      if isinstance(t2, ast.Tuple) and {'list', 'tuple'} <= {A.unparse(e) for e in t2.elts}:
        mixed.append(f'`{A.unparse(k.ast)}` (line {k.lineno})')
  ctx.ob('C06.g', f.fq + '#container-kind', not mixed,
         'sequences are compared element-wise only with a sequence of the same kind (list with list, tuple with tuple)',
         f.loc, 'one test admits both kinds: ' + ', '.join(mixed) + ' - eq([1], (1,)) holds while lt orders them by kind and '
         'their hashes differ')
  ks = [k for t, k in tests.items() if 'set(left.keys())' in t and 'set(right.keys())' in t]
  ok = bool(ks) and any(m.kind == 'return' and A.unparse(m.ast.value) == 'False'
                        for m, lab in ks[0].succ if lab == 'true')
  if ok:
    # not skippable on the way to the item loop
    loops = [n for n in g.nodes if n.kind == 'iter' and 'left_items' in A.unparse(n.ast.iter)]
    blocked = {ks[0].id}
    seen, _ = g.reach(g.entry, blocked_nodes=blocked, follow_exc=False)
    ok = bool(loops) and loops[0].id not in seen
  ctx.ob('C06.g', f.fq + '#dict-keyset', ok,
         'dicts are compared by key set in both directions before their values '
         '(an absent key is not a key holding the missing marker)', f.loc,
         'the key-set comparison no longer dominates the value loop: eq becomes asymmetric')
  # strict right-hand lookup (no default)
  bad = [A.unparse(n) for n in ast.walk(f.node) if isinstance(n, ast.Call)
         and (A.call_name(n) or '') in ('right.get', 'right.sym_getattr') and len(n.args) > 1]
  item = [n for n in ast.walk(f.node) if isinstance(n, ast.Assign) and 'right_item' in A.unparse(n.targets[0])]
  ok = not bad and bool(item) and 'right.__getitem__' in A.unparse(item[0].value) and 'right.sym_getattr' in A.unparse(item[0].value)
  ctx.ob('C06.g', f.fq + '#strict-lookup', ok,
         'right-hand values are looked up strictly (no default standing in for an absent key)', f.loc,
         f'lookup with a default: {bad}')
  # pairwise loops return False on the first difference
  nes = [k for k in g.nodes if k.kind == 'test' and A.unparse(k.ast).startswith('ne(')]
  ok = len(nes) >= 2 and all(any(m.kind == 'return' and A.unparse(m.ast.value) == 'False'
                                 for m, lab in k.succ if lab == 'true') for k in nes)
  ctx.ob('C06.g', f.fq + '#pairwise', ok, 'a differing element/value makes the containers unequal', f.loc,
         'pairwise comparison changed')
  # symmetric dispatch to a user sym_eq on either side
  ok = 'left.sym_eq(right)' in A.unparse(f.node, 6000) and 'right.sym_eq(left)' in A.unparse(f.node, 6000)
  ctx.ob('C06.g', f.fq + '#sym_eq-dispatch', ok, 'a custom sym_eq on either operand is honoured', f.loc,
         'sym_eq dispatch is one-sided')


def rule_h(ctx):
  """lt walks containers member by member and decides "the first members that
  differ": "differ" must be the symbolic eq (objects that do not opt into
  symbolic comparison, functions, nested containers of them are eq without
  being ==).  So in lt no `==` / `!=` is applied to member VALUES
  (left[k] / right[k], loop items of left / right, or locals holding them);
  comparing keys, lengths, ranks and types is fine."""
  idx = ctx.index
  f = idx.func(B + 'lt')
  prm = A.param_names(f.node)[:2]
  # locals that hold member values: subscripts of / loop items over the two operands
  members = set()
  def is_member_expr(e):
    if isinstance(e, ast.Subscript) and isinstance(e.value, ast.Name) and e.value.id in prm:
      return True
    return isinstance(e, ast.Name) and e.id in members
  for _ in range(2):
    for st in ast.walk(f.node):
      if isinstance(st, ast.Assign):
        tgts, vals = st.targets[0], st.value
        pairs = list(zip(tgts.elts, vals.elts)) if isinstance(tgts, ast.Tuple) and isinstance(vals, ast.Tuple) \
            and len(tgts.elts) == len(vals.elts) else [(tgts, vals)]
        for t, v in pairs:
          if isinstance(t, ast.Name) and is_member_expr(v):
            members.add(t.id)
      if isinstance(st, ast.For):
        it = st.iter
        if isinstance(it, ast.Call) and A.call_name(it) == 'zip' and all(isinstance(a, ast.Name) and a.id in prm for a in it.args):
          members |= set(A.assigned_names(st.target))
  bad = []
  for n in ast.walk(f.node):
    if isinstance(n, ast.Compare) and len(n.ops) == 1 and isinstance(n.ops[0], (ast.Eq, ast.NotEq)):
      if is_member_expr(n.left) or is_member_expr(n.comparators[0]):
        bad.append(f'line {n.lineno}: `{A.unparse(n, 60)}`')
  uses_eq = any(A.call_name(c) in ('eq', 'ne') for c in A.calls_in(f.node))
  ctx.ob('C06.h', f.fq + '#member-equality', uses_eq and not bad,
         'lt decides "these members differ" with the symbolic eq, never with == / != on the member values',
         f.loc, '; '.join(bad) + ': values that are eq but not == (objects without symbolic comparison, lambdas, '
         'containers of them) end the walk early - neither lt, gt nor eq holds' if bad else 'lt no longer consults eq')


def _isinstance_kinds(test, var=None):
  """Builtin container kinds demanded by isinstance(<var>, K) calls in a test."""
  out = set()
  for c in ast.walk(test):
    if isinstance(c, ast.Call) and A.call_name(c) == 'isinstance' and len(c.args) == 2:
      if var is not None and A.unparse(c.args[0]) != var:
        continue
      ks = c.args[1].elts if isinstance(c.args[1], ast.Tuple) else [c.args[1]]
      out |= {k.id for k in ks if isinstance(k, ast.Name) and k.id in ('list', 'tuple', 'dict')}
  return out


def _tag_of(expr):
  """The kind tag of `sym_hash((TAG, <aggregate>))` / `hash((TAG, ...))`; None when there is none."""
  if isinstance(expr, ast.Call) and (A.call_name(expr) or '').split('.')[-1] in ('sym_hash', 'hash') and expr.args \
      and isinstance(expr.args[0], ast.Tuple) and len(expr.args[0].elts) == 2:
    return A.unparse(expr.args[0].elts[0])
  return None


def rule_i(ctx):
  """The kinds eq compares member-wise are the kinds pg.hash hashes member-wise.
  `eq` walks plain list/tuple/dict operands with the symbolic eq of the members
  (and a plain list/dict equals a pg.List/pg.Dict of the same content), so
  "equal values have equal hashes" needs, for each such kind, a branch of
  `sym_hash` that hashes the members through sym_hash - the builtin hash of a
  list/dict raises and that of a tuple uses the members' identity hashes - and
  the kind tag the container classes mix into their hash must be the tag of
  that branch, not the (sub)class."""
  idx = ctx.index
  eqf = idx.func(B + 'eq')
  hf = idx.func(B + 'sym_hash')
  param = hf.node.args.args[0].arg
  kinds = set()
  for n in ast.walk(eqf.node):
    if isinstance(n, ast.If):
      kinds |= _isinstance_kinds(n.test)
  if len(kinds) < 3:
    raise AnalysisError(f'eq: member-wise branches for list/tuple/dict not found ({sorted(kinds)})')
  g = C.cfg_of(hf.node)
  tags = {}
  for k in sorted(kinds):
    ok, why = False, f'no isinstance({param}, {k}) branch'
    for t in g.nodes:
      if t.kind != 'test' or k not in _isinstance_kinds(t.ast, param):
        continue
      for m, lab in t.succ:
        if lab != 'true':
          continue
        seen, _ = g.reach(m, follow_exc=False)
        seen = set(seen) | {m.id}
        rets = [g.nodes[i] for i in seen if g.nodes[i].kind == 'return' and g.nodes[i].ast.value is not None]
        # returns that belong to this branch only: the first one reached
        rets = [r for r in rets if r.id == m.id or True][:1] if m.kind == 'return' else rets
        for r in rets:
          v = r.ast.value
          inner = [c for c in ast.walk(v) if isinstance(c, ast.Call) and (A.call_name(c) or '').split('.')[-1] == 'sym_hash'
                   and c.args and isinstance(c.args[0], ast.Name) and c.args[0].id != param]
          iterates = any(isinstance(c, (ast.ListComp, ast.GeneratorExp, ast.SetComp)) and
                         any(param in A.names_read(gen.iter) for gen in c.generators) for c in ast.walk(v))
          if inner and iterates:
            ok, why = True, ''
            tags[k] = _tag_of(v)
            break
          why = f'the {k} branch returns {A.unparse(v, 80)}: members are not hashed through sym_hash'
    ctx.ob('C06.i', f'sym_hash#{k}', ok,
           f'pg.hash of a plain {k} hashes its members symbolically (eq compares them symbolically)', hf.loc,
           why + f': pg.eq(x, y) holds for two plain {k}s (or a plain one and its pg counterpart) whose pg.hash '
                 f'differs or raises')
  for cls_fq, k in ((S.LIST, 'list'), (S.DICT, 'dict')):
    f = idx.lookup_method(cls_fq, 'sym_hash')
    ts = {_tag_of(r.value) for r in ast.walk(f.node) if isinstance(r, ast.Return) and r.value is not None}
    ts.discard(None)
    want = tags.get(k)
    ctx.ob('C06.i', f'{f.fq}#kind-tag', bool(ts) and want is not None and ts == {want},
           f'the kind tag in the hash of pg.{cls_fq.split(".")[-1]} is the tag pg.hash uses for a plain {k} '
           f'(eq makes no difference between them, nor between subclasses)', f.loc,
           f'tag(s) {sorted(ts)} vs {want!r} for a plain {k}: equal values hash differently')


def rule_j(ctx):
  """Termination of the lt <-> sym_lt cycle.  `lt(left, right)` hands a pair it cannot
  decide by category to `left.sym_lt(right)`; `Object.sym_lt` hands a pair of different
  classes back to `lt` UNCHANGED.  The cycle is cut only if that hand-back happens when the
  categories differ - two distinct classes of the same qualified name have the same
  category, so the hand-back must be preceded by a test of the category (a tie-break
  return) or not happen at all."""
  idx = ctx.index
  f = idx.lookup_method(S.OBJECT, 'sym_lt')
  g = C.cfg_of(f.node)
  ps = [a.arg for a in f.node.args.args]
  back = [n for n in g.nodes if n.ast is not None and any(
      (A.call_name(c) or '').split('.')[-1] == 'lt' and [A.unparse(a) for a in c.args] == ps for c in n.calls())]
  cat_tests = [n for n in g.nodes if n.kind == 'test' and any(
      (A.call_name(c) or '').split('.')[-1] == '_type_order' or 'qualname' in A.unparse(c)
      for c in ast.walk(n.ast) if isinstance(c, (ast.Call, ast.Attribute)))]
  ok = True
  wit = ''
  for b in back:
    if _reaches_avoiding(g, b, cat_tests):
      ok = False
      wit = f'line {b.lineno}'
  ctx.ob('C06.j', f.fq + '#cycle-cut', ok,
         'Object.sym_lt hands a pair back to lt unchanged only after testing that their categories differ',
         f.loc, f'lt(self, other) at {wit} is reached without a category test: for two distinct classes of the same '
         f'qualified name lt -> sym_lt -> lt never ends (RecursionError while sorting)')


def _reaches_avoiding(g, target, avoid):
  seen, _ = g.reach(g.entry, blocked_nodes={n.id for n in avoid}, follow_exc=False)
  return target.id in seen


def run(ctx):
  ctx.consult(*FILES)
  rule_h(ctx)
  rule_i(ctx)
  rule_j(ctx)
  rule_a(ctx)
  rule_a2(ctx)
  rule_b(ctx)
  rule_c(ctx)
  rule_d(ctx)
  rule_e(ctx)
  rule_f(ctx)
  rule_g(ctx)
  ctx.assume('`set` values and user-defined sym_eq/sym_lt are outside the quantifier')
