"""Source index, class hierarchy and callee resolution for /repo/pyglove.

Everything is computed from source text.  An in-memory overlay
(`overrides={relpath: source}`) lets the thorough tier analyse variants of the
tree without touching /repo and without executing anything.
"""
from __future__ import annotations

import ast
import hashlib
import os
from typing import Dict, Iterable, Iterator, List, Optional, Tuple

from sa import astutil as A


class AnalysisError(Exception):
  """The analysis itself is broken (missing anchor, parse error, floor)."""


BUILTIN_LIST_MUTATORS = (
    '__setitem__', '__delitem__', '__iadd__', '__imul__', 'append', 'extend',
    'insert', 'pop', 'remove', 'clear', 'sort', 'reverse')
BUILTIN_DICT_MUTATORS = (
    '__setitem__', '__delitem__', '__ior__', 'update', 'setdefault', 'pop',
    'popitem', 'clear')


class Func:
  """A function or method definition."""

  def __init__(self, module: 'Module', qualname: str, node, cls, parent):
    self.module = module
    self.qualname = qualname          # e.g. 'List.append' / 'f.<locals>.g'
    self.node = node
    self.cls: Optional['Class'] = cls
    self.parent: Optional['Func'] = parent
    self.name = node.name

  @property
  def fq(self) -> str:
    return f'{self.module.name}.{self.qualname}'

  @property
  def loc(self) -> str:
    return f'{self.module.relpath}:{self.node.lineno}'

  def __repr__(self):
    return f'<Func {self.fq}>'


class Class:
  """A class definition."""

  def __init__(self, module: 'Module', qualname: str, node: ast.ClassDef):
    self.module = module
    self.qualname = qualname
    self.node = node
    self.name = node.name
    self.methods: Dict[str, Func] = {}
    self.base_names: List[str] = []   # resolved dotted names (or raw)
    self.class_attrs: Dict[str, ast.AST] = {}

  @property
  def fq(self) -> str:
    return f'{self.module.name}.{self.qualname}'

  @property
  def loc(self) -> str:
    return f'{self.module.relpath}:{self.node.lineno}'

  def __repr__(self):
    return f'<Class {self.fq}>'


class Module:

  def __init__(self, name: str, relpath: str, src: str):
    self.name = name
    self.relpath = relpath
    self.src = src
    try:
      self.tree = ast.parse(src, filename=relpath)
    except SyntaxError as e:
      raise AnalysisError(f'cannot parse {relpath}: {e}') from e
    if os.environ.get('VERIF_NO_NORMALIZE') != '1':
      from sa import normalize as _N
      _N.normalize(self.tree)      # canonical shape of function bodies (sa/normalize.py)
    self.imports: Dict[str, str] = {}
    self.funcs: Dict[str, Func] = {}
    self.classes: Dict[str, Class] = {}
    self.globals: Dict[str, ast.AST] = {}    # name -> value expr (last)
    self.is_package = relpath.endswith('__init__.py')
    self._collect()

  def _collect(self):
    pkg = self.name if self.is_package else self.name.rpartition('.')[0]
    for node in ast.walk(self.tree):
      if isinstance(node, ast.Import):
        for a in node.names:
          if a.asname:
            self.imports[a.asname] = a.name
          else:
            top = a.name.split('.')[0]
            self.imports.setdefault(top, top)
      elif isinstance(node, ast.ImportFrom):
        mod = node.module or ''
        if node.level:
          base = pkg.split('.')
          if node.level > 1:
            base = base[:-(node.level - 1)]
          mod = '.'.join(base + ([mod] if mod else []))
        for a in node.names:
          if a.name == '*':
            continue
          self.imports[a.asname or a.name] = f'{mod}.{a.name}'
    for node in self.tree.body:
      if isinstance(node, ast.Assign):
        for t in node.targets:
          if isinstance(t, ast.Name):
            self.globals[t.id] = node.value
      elif isinstance(node, ast.AnnAssign) and isinstance(node.target, ast.Name):
        if node.value is not None:
          self.globals[node.target.id] = node.value
    self._collect_defs(self.tree.body, '', None, None)

  def _collect_defs(self, body, prefix, cls, parent):
    for node in body:
      self._collect_def_node(node, prefix, cls, parent)

  def _collect_def_node(self, node, prefix, cls, parent):
    if isinstance(node, A.FuncDef):
      q = prefix + node.name
      # keep the first definition under a name unless it's an overload/setter
      f = Func(self, q, node, cls, parent)
      if q in self.funcs:
        decs = A.decorator_names(node)
        if any(d.endswith('.setter') or d.endswith('.deleter') for d in decs):
          q2 = q + '@setter'
          f.qualname = q2
          self.funcs[q2] = f
        else:
          self.funcs[q] = f
          if cls is not None and not parent:
            cls.methods[node.name] = f
      else:
        self.funcs[q] = f
        if cls is not None and parent is None:
          cls.methods[node.name] = f
      for sub in ast.walk(node):
        pass
      self._collect_nested(node.body, q + '.<locals>.', None, f)
    elif isinstance(node, ast.ClassDef):
      q = prefix + node.name
      c = Class(self, q, node)
      self.classes[q] = c
      for stmt in node.body:
        if isinstance(stmt, ast.Assign):
          for t in stmt.targets:
            if isinstance(t, ast.Name):
              c.class_attrs[t.id] = stmt.value
        elif isinstance(stmt, ast.AnnAssign) and isinstance(stmt.target, ast.Name):
          c.class_attrs[stmt.target.id] = stmt.value if stmt.value is not None else stmt.annotation
      self._collect_defs(node.body, q + '.', c, None)
    elif isinstance(node, (ast.If, ast.Try, ast.With)):
      # definitions under `if TYPE_CHECKING` / try-import at module level
      for field in ('body', 'orelse', 'finalbody'):
        self._collect_defs(getattr(node, field, []) or [], prefix, cls, parent)
      for h in getattr(node, 'handlers', []) or []:
        self._collect_defs(h.body, prefix, cls, parent)

  def _collect_nested(self, body, prefix, cls, parent):
    """Collect defs nested anywhere inside a function body."""
    for stmt in body:
      for node in A.walk_local(stmt):
        if isinstance(node, (ast.FunctionDef, ast.AsyncFunctionDef, ast.ClassDef)):
          self._collect_def_node(node, prefix, cls, parent)


class Index:
  """All non-test modules under <root>/pyglove."""

  def __init__(self, root: str = '/repo', overrides: Optional[Dict[str, str]] = None,
               base: Optional['Index'] = None):
    self.root = root
    self.modules: Dict[str, Module] = {}
    self.by_relpath: Dict[str, Module] = {}
    self.overrides = overrides or {}
    self._mro_cache: Dict[str, List[str]] = {}
    self._subclasses: Optional[Dict[str, List[str]]] = None
    paths = []
    pkgroot = os.path.join(root, 'pyglove')
    if not os.path.isdir(pkgroot):
      raise AnalysisError(f'no pyglove package under {root}')
    for d, dirs, files in os.walk(pkgroot):
      dirs.sort()
      for fn in sorted(files):
        if fn.endswith('.py') and not fn.endswith('_test.py'):
          paths.append(os.path.join(d, fn))
    for p in paths:
      rel = os.path.relpath(p, root)
      name = rel[:-3].replace(os.sep, '.')
      if name.endswith('.__init__'):
        name = name[:-len('.__init__')]
      if base is not None and rel not in self.overrides and rel in base.by_relpath:
        m = base.by_relpath[rel]
      else:
        if rel in self.overrides:
          src = self.overrides[rel]
        else:
          with open(p, encoding='utf-8') as f:
            src = f.read()
        m = Module(name, rel, src)
      self.modules[name] = m
      self.by_relpath[rel] = m
    self.n_files = len(paths)

  # ------------------------------------------------------------------ stats
  def stats(self) -> Dict[str, int]:
    return dict(
        files=len(self.modules),
        functions=sum(len(m.funcs) for m in self.modules.values()),
        classes=sum(len(m.classes) for m in self.modules.values()),
        lines=sum(m.src.count('\n') + 1 for m in self.modules.values()))

  def digest(self, relpaths: Iterable[str]) -> str:
    h = hashlib.sha256()
    for r in sorted(set(relpaths)):
      m = self.by_relpath.get(r)
      h.update(r.encode())
      h.update(b'\0')
      h.update((m.src if m else '').encode())
    return h.hexdigest()[:16]

  # --------------------------------------------------------------- lookups
  def module(self, name: str) -> Module:
    m = self.modules.get(name)
    if m is None:
      m = self.by_relpath.get(name)
    if m is None:
      raise AnalysisError(f'anchor module vanished: {name}')
    return m

  def func(self, fq: str) -> Func:
    f = self.find_func(fq)
    if f is None and '.<locals>.' in fq:
      f = self._nested_by_role(fq)
    if f is None:
      raise AnalysisError(f'anchor function vanished: {fq}')
    return f

  def _nested_by_role(self, fq: str) -> Optional[Func]:
    """A nested private helper is anchored by what it does, its name is only a
    hint: when `<outer>.<locals>.<name>` does not exist, the helper is the only
    nested function of <outer> - or the only one satisfying the role recorded
    in NESTED_ROLES for the hint."""
    outer, _, hint = fq.rpartition('.<locals>.')
    mod, rest = self._split(outer)
    if mod is None:
      return None
    prefix = rest + '.<locals>.'
    cands = [g for q, g in mod.funcs.items() if q.startswith(prefix) and '.' not in q[len(prefix):]]
    role = NESTED_ROLES.get(hint)
    if role is not None:
      cands = [g for g in cands if role(g.node)]
    return cands[0] if len(cands) == 1 else None

  def find_func(self, fq: str) -> Optional[Func]:
    mod, rest = self._split(fq)
    if mod is None:
      return None
    return mod.funcs.get(rest)

  def cls(self, fq: str) -> Class:
    c = self.find_class(fq)
    if c is None:
      raise AnalysisError(f'anchor class vanished: {fq}')
    return c

  def find_class(self, fq: str) -> Optional[Class]:
    mod, rest = self._split(fq)
    if mod is None:
      return None
    return mod.classes.get(rest)

  def _split(self, fq: str) -> Tuple[Optional[Module], str]:
    parts = fq.split('.')
    for i in range(len(parts), 0, -1):
      m = self.modules.get('.'.join(parts[:i]))
      if m is not None:
        return m, '.'.join(parts[i:])
    return None, fq

  def all_funcs(self) -> Iterator[Func]:
    for m in self.modules.values():
      yield from m.funcs.values()

  def all_classes(self) -> Iterator[Class]:
    for m in self.modules.values():
      yield from m.classes.values()

  # ----------------------------------------------------- name resolution
  def resolve_dotted(self, name: str, _depth: int = 0) -> Optional[str]:
    """Canonicalise a fully dotted name through package re-exports.

    'pyglove.core.utils.KeyPath' -> 'pyglove.core.utils.value_location.KeyPath'
    Returns the canonical dotted name of a module / class / function / global,
    or None if it does not lead into the indexed tree.
    """
    if _depth > 12:
      return None
    mod, rest = self._split(name)
    if mod is None:
      return None
    if not rest:
      return mod.name
    head, _, tail = rest.partition('.')
    # defined here?
    if head in mod.classes or head in mod.funcs:
      # nested attribute (Class.method / Class.Inner)
      return f'{mod.name}.{rest}'
    if head in mod.imports:
      target = mod.imports[head]
      full = target + ('.' + tail if tail else '')
      r = self.resolve_dotted(full, _depth + 1)
      return r
    if head in mod.globals:
      # module-level alias: `DNAGenerator = geno.DNAGenerator`
      val = mod.globals[head]
      d = A.dotted(val) if isinstance(val, (ast.Name, ast.Attribute)) else None
      if d is not None and d.split('.')[0] != head:
        r = self.resolve_in_module(mod, d + ('.' + tail if tail else ''), _depth + 1)
        if r is not None:
          return r
      return f'{mod.name}.{rest}'
    return None

  def resolve_in_module(self, module: Module, expr_name: str, _depth: int = 0) -> Optional[str]:
    """Resolve a dotted expression as written inside `module`."""
    head, _, tail = expr_name.partition('.')
    if head in module.imports:
      full = module.imports[head] + ('.' + tail if tail else '')
      r = self.resolve_dotted(full, _depth)
      return r if r is not None else full
    if head in module.classes or head in module.funcs or head in module.globals:
      return f'{module.name}.{expr_name}'
    if head in ('list', 'dict', 'object', 'set', 'tuple', 'str', 'int',
                'Exception', 'type'):
      return f'builtins.{expr_name}'
    return None

  def resolve_class_expr(self, module: Module, node: ast.AST) -> Optional[str]:
    if isinstance(node, ast.Subscript):   # Generic[T]
      node = node.value
    d = A.dotted(node)
    if d is None:
      return None
    return self.resolve_in_module(module, d)

  # ------------------------------------------------------------ hierarchy
  def bases(self, cls: Class) -> List[str]:
    out = []
    for b in cls.node.bases:
      r = self.resolve_class_expr(cls.module, b)
      out.append(r if r is not None else (A.dotted(b) or A.unparse(b)))
    return out

  def mro(self, cls_fq: str) -> List[str]:
    """C3 linearisation; unknown/builtin bases are leaves."""
    if cls_fq in self._mro_cache:
      return self._mro_cache[cls_fq]
    self._mro_cache[cls_fq] = [cls_fq]   # cycle guard
    c = self.find_class(cls_fq)
    if c is None:
      res = [cls_fq]
    else:
      bases = self.bases(c)
      seqs = [list(self.mro(b)) for b in bases] + [list(bases)]
      res = [cls_fq]
      while True:
        seqs = [s for s in seqs if s]
        if not seqs:
          break
        for s in seqs:
          cand = s[0]
          if not any(cand in t[1:] for t in seqs):
            break
        else:
          # inconsistent; fall back to DFS order
          cand = seqs[0][0]
        res.append(cand)
        for s in seqs:
          if s and s[0] == cand:
            del s[0]
    self._mro_cache[cls_fq] = res
    return res

  def is_subclass(self, cls_fq: str, base_fq: str) -> bool:
    return base_fq in self.mro(cls_fq)

  def subclasses(self, base_fq: str, strict: bool = True) -> List[Class]:
    out = []
    for c in self.all_classes():
      if base_fq in self.mro(c.fq) and (not strict or c.fq != base_fq):
        out.append(c)
    return out

  def lookup_method(self, cls_fq: str, name: str,
                    after: Optional[str] = None) -> Optional[Func]:
    """Find `name` along the MRO of cls (after class `after`, for super())."""
    mro = self.mro(cls_fq)
    if after is not None and after in mro:
      mro = mro[mro.index(after) + 1:]
    for k in mro:
      c = self.find_class(k)
      if c is not None and name in c.methods:
        return c.methods[name]
    return None

  def lookup_method_owner(self, cls_fq: str, name: str,
                          after: Optional[str] = None) -> Optional[str]:
    """Like lookup_method but also knows builtin list/dict/object slots."""
    mro = self.mro(cls_fq)
    if after is not None and after in mro:
      mro = mro[mro.index(after) + 1:]
    for k in mro:
      c = self.find_class(k)
      if c is not None:
        if name in c.methods:
          return k
      elif k == 'builtins.list' and hasattr(list, name):
        return k
      elif k == 'builtins.dict' and hasattr(dict, name):
        return k
    return None

  # --------------------------------------------------- callee resolution
  def resolve_call(self, func: Func, call: ast.Call) -> Optional[str]:
    """Resolve the callee of `call` occurring in `func`.

    Returns an fq name of a Func/Class in the index, 'builtins.list.append'
    style names for builtin-base slots, or None when unresolved.
    """
    name = A.call_name(call)
    if name is None:
      return None
    return self.resolve_name_in_func(func, name, call)

  def enclosing_class(self, func: Func) -> Optional[Class]:
    f = func
    while f is not None:
      if f.cls is not None:
        return f.cls
      f = f.parent
    return None

  def resolve_name_in_func(self, func: Func, name: str,
                           call: Optional[ast.Call] = None) -> Optional[str]:
    mod = func.module
    cls = self.enclosing_class(func)
    parts = name.split('.')
    if parts[0] == 'super()' and cls is not None and len(parts) == 2:
      owner = self.lookup_method_owner(cls.fq, parts[1], after=cls.fq)
      return f'{owner}.{parts[1]}' if owner else None
    if parts[0] in ('self', 'cls') and cls is not None and len(parts) == 2:
      owner = self.lookup_method_owner(cls.fq, parts[1])
      return f'{owner}.{parts[1]}' if owner else None
    if len(parts) == 1:
      # local nested function?
      f = func
      while f is not None:
        q = f'{f.qualname}.<locals>.{name}'
        if q in mod.funcs:
          return f'{mod.name}.{q}'
        f = f.parent
    r = self.resolve_in_module(mod, name)
    if r is not None:
      # Class.method(self, ...) form
      m, rest = self._split(r)
      if m is not None and rest:
        if rest in m.funcs or rest in m.classes:
          return r
        # maybe Class.attr where attr inherited
        cpart, _, meth = rest.rpartition('.')
        if cpart and cpart in m.classes and meth:
          owner = self.lookup_method_owner(f'{m.name}.{cpart}', meth)
          if owner:
            return f'{owner}.{meth}'
      return r
    return None

  def callers_of(self, target_fq: str, method_name_fallback: bool = True
                 ) -> List[Tuple[Func, ast.Call, bool]]:
    """All call sites that resolve to target (resolved=True) or, when the
    callee is an unresolved attribute call with the same method name,
    potential callers (resolved=False)."""
    out = []
    tname = target_fq.rsplit('.', 1)[-1]
    for f in self.all_funcs():
      for c in A.calls_in(f.node, local=True):
        n = A.call_name(c)
        if n is None:
          if (method_name_fallback and isinstance(c.func, ast.Attribute)
              and c.func.attr == tname):
            out.append((f, c, False))
          continue
        if n.rsplit('.', 1)[-1] != tname:
          continue
        r = self.resolve_name_in_func(f, n, c)
        if r == target_fq:
          out.append((f, c, True))
        elif r is None and method_name_fallback and '.' in n:
          out.append((f, c, False))
    return out


_BASE_INDEX: Dict[str, Index] = {}


def load(root: str = '/repo') -> Index:
  if root not in _BASE_INDEX:
    _BASE_INDEX[root] = Index(root)
  return _BASE_INDEX[root]


def variant(base: Index, overrides: Dict[str, str]) -> Index:
  return Index(base.root, overrides=overrides, base=base)


def _calls(node, pred):
  import ast as _ast
  for c in _ast.walk(node):
    if isinstance(c, _ast.Call):
      f = c.func
      name = f.attr if isinstance(f, _ast.Attribute) else (f.id if isinstance(f, _ast.Name) else '')
      if pred(name, c):
        return True
  return False


def _is_recursive(node):
  return _calls(node, lambda n, c: n == node.name)


# hint name -> role predicate on the helper's FunctionDef (used only when the
# name itself is gone, e.g. after a rename of the private helper)
NESTED_ROLES = {
    '_resolve_typename': lambda n: _calls(n, lambda nm, c: nm == 'class_from_typename'),
    '_get_key': lambda n: _calls(n, lambda nm, c: nm == 'int') and not _is_recursive(n),
    '_decode_int_keys': _is_recursive,
    '_encode_int_keys': _is_recursive,
    '_choice_index': lambda n: _calls(n, lambda nm, c: nm == 'candidate_index'),
    '_bind_decisions': _is_recursive,
    '_transform': _is_recursive,
    '_space_size': _is_recursive,
    '_encode': lambda n: len(n.args.args) == 3,
}
