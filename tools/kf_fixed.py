"""Maintenance helper: record a repaired defect. usage: kf_fixed.py <property> <rule> <construct> <commit> <what_failed>"""
import json, sys, os
p = os.path.join(os.path.dirname(os.path.dirname(os.path.abspath(__file__))), 'known_findings.jsonl')
prop, rule, construct, commit, what = sys.argv[1:6]
rows = [json.loads(l) for l in open(p)] if os.path.exists(p) else []
rows = [r for r in rows if (r['property'], r['rule'], r['construct']) != (prop, rule, construct)]
rows.append(dict(property=prop, rule=rule, construct=construct, what_fails=what, status='fixed', commit=commit,
                 note=f'fixed: property={prop} {commit} {what}'))
rows.sort(key=lambda r: (r['property'], r['rule'], r['construct']))
with open(p, 'w') as f:
  for r in rows:
    f.write(json.dumps(r) + '\n')
