"""Maintenance helper: print the canonical (ast.unparse) text of a function. usage: show_fn.py <relfile> <qualname>"""
import ast, sys
src = open('/repo/' + sys.argv[1]).read(); tree = ast.parse(src); node = tree
for p in sys.argv[2].split('.'):
  node = [n for n in ast.walk(node) if isinstance(n, (ast.FunctionDef, ast.ClassDef)) and n.name == p and n is not node][0]
print(ast.unparse(node))
