"""Robustness corpus generator: rename every function-local variable of a tree.

usage: rename_locals.py <tree root> [suffix]

Rewrites in place every non-test module under <root>/pyglove with
sa.rename.rename_source (see there).  The result is behaviour preserving (the
pinned suite passes on it: checked on 2026-10-02 for HEAD 93fd509) and
`./check all --root <root>` has to report nothing on it, with the same
obligations as on the original tree (tools/list_obligations.py).
"""
import os
import sys
sys.path.insert(0, os.path.dirname(os.path.dirname(os.path.abspath(__file__))))
from sa.rename import rename_source


def main():
  root = sys.argv[1]
  suffix = sys.argv[2] if len(sys.argv) > 2 else '_rn'
  total = files = 0
  for dp, dn, fn in os.walk(os.path.join(root, 'pyglove')):
    for f in fn:
      if not f.endswith('.py') or f.endswith('_test.py'):
        continue
      p = os.path.join(dp, f)
      src = open(p).read()
      if 'nonlocal ' in src and False:
        continue
      try:
        out, n = rename_source(src, p, suffix)
      except Exception as e:   # keep the file as is, but say so
        print(f'SKIP {p}: {type(e).__name__}: {e}')
        continue
      compile(out, p, 'exec')
      open(p, 'w').write(out)
      total += n
      files += 1
  print(f'renamed {total} name occurrences in {files} files')


if __name__ == '__main__':
  main()
