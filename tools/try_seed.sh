#!/bin/sh
# usage: try_seed.sh <patch.diff> <prop> [more props]   -- applies to /repo, runs checks, reverts
patch=$1; shift
cd /repo || exit 9
if ! git diff --quiet; then echo "/repo dirty"; exit 9; fi
if git apply --check "$patch" 2>/dev/null; then git apply "$patch"; else git apply --3way "$patch" 2>/dev/null || { echo "PATCH-DOES-NOT-APPLY"; git checkout -- . ; git reset -q; exit 8; }; fi
for p in "$@"; do
  out=$(/verif/check $p --tier quick 2>&1); rc=$?
  echo "== $p rc=$rc"; echo "$out" | grep -E "^VIOLATION|^ANALYSIS|^  C[0-9]+\.[a-z0-9]+ " | cut -c1-260
done
git reset -q; git checkout -- . ; git status --short | head -3
