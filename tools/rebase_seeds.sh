#!/bin/bash
# Maintenance helper: re-create seeded/<id>/patch.diff against the current /repo HEAD with `patch --fuzz`,
# keep it only if the demo still passes without and fails with it.  usage: rebase_seeds.sh <id>...
for s in "$@"; do
  wt=$(mktemp -d /tmp/rb_XXXX); rmdir $wt
  git -C /repo worktree add -q --detach $wt HEAD || continue
  ( cd $wt
    if patch -p1 -s --fuzz=3 < /verif/seeded/$s/patch.diff > /dev/null 2>&1; then
      find . -name "*.orig" -delete
      git diff > /tmp/rb_$s.diff
      PYTHONPATH=$wt /venv/bin/python -c 'import pyglove' > /dev/null 2>&1 || { echo "$s rebased patch does not import"; exit 0; }
      PYTHONPATH=$wt /venv/bin/python /verif/seeded/$s/demo.py > /dev/null 2>&1; with=$?
      git checkout -q -- .
      PYTHONPATH=$wt /venv/bin/python /verif/seeded/$s/demo.py > /dev/null 2>&1; without=$?
      if [ $without -eq 0 ] && [ $with -ne 0 ]; then cp /tmp/rb_$s.diff /verif/seeded/$s/patch.diff; echo "$s REBASED (demo $without/$with)"; else echo "$s NOT-CONFIRMED after rebase (demo $without/$with)"; fi
    else
      echo "$s PATCH(1)-FAILED"; find . -name "*.rej" | head -3
    fi )
  git -C /repo worktree remove --force $wt
done
