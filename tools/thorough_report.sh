#!/bin/sh
# usage: thorough_report.sh C01 C02 ...   (runs thorough tier, prints unexpected variant outcomes)
cd /verif
for p in "$@"; do ./check $p --tier thorough 2>&1 | grep -E "self-test|^VIOL|^ANALY"; /venv/bin/python - <<PY
import json
e=json.load(open('/verif/evidence/$p.json'))
for v in e['coverage'].get('variants',[]):
    if v['outcome']!='as-expected': print('   ', v['name'], v['expect'], v['outcome'], v.get('detail','')[:200], v.get('new_violations'))
PY
done
