"""Apply a whole-tree behaviour-preserving transform in place.
usage: transform_tree.py <tree root> <return-temp|test-temp|swap-else|rename-locals>
(non-test modules under <root>/pyglove; see sa/transforms.py and sa/rename.py)"""
import os
import sys
sys.path.insert(0, os.path.dirname(os.path.dirname(os.path.abspath(__file__))))
from sa import transforms as T
from sa.rename import rename_source

root, name = sys.argv[1], sys.argv[2]
total = files = 0
for dp, dn, fn in os.walk(os.path.join(root, 'pyglove')):
  for f in fn:
    if not f.endswith('.py') or f.endswith('_test.py'):
      continue
    p = os.path.join(dp, f)
    src = open(p).read()
    try:
      out, n = rename_source(src, p) if name == 'rename-locals' else T.transform_source(src, name)
    except Exception as e:
      print(f'SKIP {p}: {type(e).__name__}: {e}')
      continue
    open(p, 'w').write(out)
    total += n
    files += 1
print(f'{name}: {total} rewrites in {files} files')
