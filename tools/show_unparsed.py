"""usage: show_unparsed.py <relpath> <qualname>  -- canonical text the variant edits operate on"""
import ast, sys
src = open('/repo/' + sys.argv[1]).read()
tree = ast.parse(src)
parts = sys.argv[2].split('.')
node = tree
for p in parts:
  found = None
  for n in ast.walk(node):
    if isinstance(n, (ast.FunctionDef, ast.ClassDef)) and n.name == p and n is not node:
      found = n; break
  node = found
print(ast.unparse(node))
