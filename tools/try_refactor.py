"""Maintenance helper (not a check): false-alarm test on behaviour-preserving patches.
usage: try_refactor.py <base_commit> <patch_dir>...   (each dir holds patch.diff)
Creates a scratch worktree of /repo at <base_commit>, runs every check with --root on it
before and after each patch and prints lines that are NEW with the patch."""
import os, re, subprocess, sys, tempfile, shutil
base = sys.argv[1]; dirs = [os.path.abspath(d) for d in sys.argv[2:]]
def run(cmd, **kw): return subprocess.run(cmd, shell=True, capture_output=True, text=True, **kw)
wt = tempfile.mkdtemp(prefix='rf_', dir='/tmp'); os.rmdir(wt)
assert run(f'git -C /repo worktree add -q --detach {wt} {base}').returncode == 0
def findings():
  out = run(f'cd /verif && /venv/bin/python -B -m sa.cli all --root {wt}').stdout
  keep = set()
  for l in out.splitlines():
    if l.startswith('  C') and ' @ ' in l: keep.add(l.split(' @ ')[0].strip())
    if l.startswith('ANALYSIS-ERROR'): keep.add(l.strip()[:200])
  return keep
try:
  base_f = findings()
  for d in dirs:
    ap = run(f'git -C {wt} apply {d}/patch.diff')
    if ap.returncode != 0:
      print(d, 'PATCH-DOES-NOT-APPLY'); continue
    new = findings() - base_f
    print(d, 'SILENT' if not new else 'FALSE-ALARM?')
    for n in sorted(new): print('    ', n)
    run(f'git -C {wt} checkout -- .')
finally:
  run(f'git -C /repo worktree remove --force {wt}'); shutil.rmtree(wt, ignore_errors=True)
