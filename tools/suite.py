"""Maintenance helper (not a check): run the pinned suite in <dir> (default /repo)
in parallel and compare with BASELINE.stable_pass.  usage: suite.py [dir]"""
import json, os, subprocess, sys, tempfile, xml.etree.ElementTree as ET
d = sys.argv[1] if len(sys.argv) > 1 else '/repo'
base = json.load(open('/root/.vp/BASELINE.json'))
stable = set(base['stable_pass'])
tmp = tempfile.mkdtemp(prefix='suite_')
env = dict(os.environ, PYTHONPATH=d)
cmds = [
  ['/venv/bin/python', '-m', 'pytest', '-q', '-p', 'no:cacheprovider', '--timeout=900', '-n', '12',
   '--continue-on-collection-errors', '--ignore=pyglove/core/io', f'--junitxml={tmp}/a.xml'],
  ['/venv/bin/python', '-m', 'pytest', '-q', '-p', 'no:cacheprovider', '--timeout=900',
   '--continue-on-collection-errors', 'pyglove/core/io', f'--junitxml={tmp}/b.xml'],
]
passed = set(); failed = set()
for c in cmds:
  subprocess.run(c, cwd=d, env=env, stdout=subprocess.DEVNULL, stderr=subprocess.DEVNULL)
for f in ('a.xml', 'b.xml'):
  for tc in ET.parse(f'{tmp}/{f}').getroot().iter('testcase'):
    name = f"{tc.get('classname')}::{tc.get('name')}"
    if any(ch.tag in ('failure', 'error') for ch in tc):
      failed.add(name)
    elif not any(ch.tag == 'skipped' for ch in tc):
      passed.add(name)
missing = sorted(stable - passed)
print(f'stable_pass={len(stable)} passed_now={len(passed & stable)} missing={len(missing)} other_failed={len(failed - stable)}')
for m in sorted(failed - stable)[:10]:
  print('  OTHER-FAILED', m)
for m in missing[:40]:
  print('  MISSING', m)
import shutil; shutil.rmtree(tmp)
sys.exit(1 if missing else 0)
