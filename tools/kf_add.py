"""Maintenance helper (not run by checks): append entries to known_findings.jsonl.
usage: kf_add.py <property> <rule> <construct> <what_fails> <demonstration>"""
import json, sys, os
p = os.path.join(os.path.dirname(os.path.dirname(os.path.abspath(__file__))), 'known_findings.jsonl')
prop, rule, construct, what, demo = sys.argv[1:6]
rows = [json.loads(l) for l in open(p)] if os.path.exists(p) else []
rows = [r for r in rows if (r['property'], r['rule'], r['construct']) != (prop, rule, construct)]
rows.append(dict(property=prop, rule=rule, construct=construct, what_fails=what, demonstration=demo, status='known'))
rows.sort(key=lambda r: (r['property'], r['rule'], r['construct']))
with open(p, 'w') as f:
  for r in rows:
    f.write(json.dumps(r) + '\n')
