"""Exploration helper (not a check): systematic single-site mutants, decided by the checks only.

usage: mutants.py <kind> [relpath-prefix]        kinds: guard-drop | cmp-flip | none-truthy
For every site of the chosen kind in the non-test modules under /repo/pyglove
(optionally restricted to a path prefix), the mutated module is analysed through
the in-memory overlay by ALL twenty properties (nothing is written, nothing is
executed).  Prints one line per mutant: the rules that newly fire, or SILENT.
The output is a map of what the rules look at - a SILENT guard is either outside
the twenty properties or a blind spot; it says nothing about whether the suite
would catch the mutant.
"""
import ast
import copy
import multiprocessing as mp
import os
import sys

sys.path.insert(0, os.path.dirname(os.path.dirname(os.path.abspath(__file__))))
from sa import cli, index as I, report as R   # noqa: E402

PROPS = [f'C{i:02d}' for i in range(1, 21)]


def sites(tree, kind):
  out = []
  for fn in ast.walk(tree):
    if not isinstance(fn, (ast.FunctionDef, ast.AsyncFunctionDef)):
      continue
    for n in ast.walk(fn):
      if kind == 'guard-drop' and isinstance(n, ast.If) and not n.orelse and len(n.body) == 1 \
          and isinstance(n.body[0], ast.Raise):
        out.append((fn.name, n))
      elif kind == 'cmp-flip' and isinstance(n, ast.Compare) and len(n.ops) == 1 \
          and isinstance(n.ops[0], (ast.Lt, ast.LtE, ast.Gt, ast.GtE)):
        out.append((fn.name, n))
      elif kind == 'none-truthy' and isinstance(n, ast.If) and isinstance(n.test, ast.Compare) \
          and len(n.test.ops) == 1 and isinstance(n.test.ops[0], (ast.Is, ast.IsNot)) \
          and isinstance(n.test.comparators[0], ast.Constant) and n.test.comparators[0].value is None:
        out.append((fn.name, n))
  # de-duplicate nodes reached through nested functions
  seen, uniq = set(), []
  for name, n in out:
    if id(n) not in seen:
      seen.add(id(n))
      uniq.append((name, n))
  return uniq


def mutate(src, kind, k):
  tree = ast.parse(src)
  ss = sites(tree, kind)
  name, n = ss[k]
  desc = f'{name}:{n.lineno} `{ast.unparse(n.test if isinstance(n, ast.If) else n)[:70]}`'
  if kind == 'guard-drop':
    n.body = [ast.Pass()]
  elif kind == 'cmp-flip':
    flip = {ast.Lt: ast.LtE, ast.LtE: ast.Lt, ast.Gt: ast.GtE, ast.GtE: ast.Gt}
    n.ops = [flip[type(n.ops[0])]()]
  elif kind == 'none-truthy':
    t = n.test
    n.test = t.left if isinstance(t.ops[0], ast.IsNot) else ast.UnaryOp(op=ast.Not(), operand=t.left)
  ast.fix_missing_locations(tree)
  return ast.unparse(tree), desc


_BASE = None
_BASEKEYS = None


def _init():
  global _BASE, _BASEKEYS
  _BASE = I.load('/repo')
  _BASEKEYS = {}
  for p in PROPS:
    mod = cli.load_rules(p)
    ctx = R.Ctx(_BASE, p)
    mod.run(ctx)
    _BASEKEYS[p] = {(o.rule, o.construct) for o in ctx.obs if not o.ok and not o.info}


def one(args):
  rel, kind, k = args
  if _BASE is None:
    _init()
  try:
    src, desc = mutate(_BASE.by_relpath[rel].src, kind, k)
  except Exception as e:  # pylint: disable=broad-except
    return rel, k, '?', f'MUTATE-ERROR {e}'
  vidx = I.variant(_BASE, {rel: src})
  fired = []
  for p in PROPS:
    mod = cli.load_rules(p)
    try:
      ctx = cli.run_rules(mod, vidx, p)
      new = {(o.rule, o.construct) for o in ctx.obs if not o.ok and not o.info} - _BASEKEYS[p]
      fired += sorted({r for r, _ in new})
    except I.AnalysisError as e:
      fired.append(f'{p}:ANALYSIS-ERROR')
  return rel, k, desc, ' '.join(fired) if fired else 'SILENT'


def main():
  kind = sys.argv[1]
  prefix = sys.argv[2] if len(sys.argv) > 2 else 'pyglove/'
  base = I.load('/repo')
  jobs = []
  for rel, m in sorted(base.by_relpath.items()):
    if rel.endswith('_test.py') or not rel.startswith(prefix):
      continue
    n = len(sites(ast.parse(m.src), kind))
    jobs += [(rel, kind, k) for k in range(n)]
  with mp.get_context('fork').Pool(min(12, os.cpu_count() or 4)) as pool:
    res = pool.map(one, jobs, chunksize=4)
  silent = 0
  for rel, k, desc, verdict in res:
    print(f'{rel} {desc} -> {verdict}')
    silent += verdict == 'SILENT'
  print(f'{kind}: {len(res)} mutants, {len(res) - silent} flagged by at least one rule, {silent} silent')


if __name__ == '__main__':
  main()
