"""Maintenance helper (not a check): confirm a seeded change in a scratch
worktree of /repo HEAD and file it under /verif/seeded/<id>/.
usage: confirm_seed.py <seed_dir> <property> <id> [--nosuite]"""
import json, os, shutil, subprocess, sys, tempfile, time
seed, prop, sid = sys.argv[1:4]
nosuite = '--nosuite' in sys.argv
wt = tempfile.mkdtemp(prefix='confirm_', dir='/tmp')
os.rmdir(wt)
def run(cmd, **kw):
  return subprocess.run(cmd, shell=True, capture_output=True, text=True, **kw)
r = run(f'git -C /repo worktree add -q --detach {wt} HEAD')
assert r.returncode == 0, r.stderr
try:
  env = dict(os.environ, PYTHONPATH=wt)
  demo = os.path.join(seed, 'demo.py')
  before = subprocess.run(['/venv/bin/python', demo], cwd=wt, env=env, capture_output=True, text=True, timeout=600)
  ap = run(f'git -C {wt} apply {seed}/patch.diff')
  if ap.returncode != 0:
    ap = run(f'git -C {wt} apply --3way {seed}/patch.diff')
  applied = ap.returncode == 0
  after = subprocess.run(['/venv/bin/python', demo], cwd=wt, env=env, capture_output=True, text=True, timeout=600) if applied else None
  suite = None
  if applied and not nosuite:
    suite = run(f'/venv/bin/python /verif/tools/suite.py {wt}')
  # tests that are load/seed sensitive on the unchanged tree as well: re-run alone
  FLAKY = ('EvolutionTest::test_thread_safety', 'SandboxCallTest::test_timeout', 'TextColorTest')
  if suite is not None and suite.returncode != 0:
    missing = [l.split('MISSING', 1)[1].strip() for l in suite.stdout.splitlines() if 'MISSING' in l]
    if missing and all(any(f in m for f in FLAKY) for m in missing):
      ok_all = True
      for m in missing:
        mod, _, rest = m.partition('::')
        path = mod.rsplit('.', 1)[0].replace('.', '/') + '.py'
        cls = mod.rsplit('.', 1)[1]
        r1 = subprocess.run(['/venv/bin/python', '-m', 'pytest', '-q', '-p', 'no:cacheprovider', f'{path}::{cls}::{rest}'],
                            cwd=wt, env=env, capture_output=True, text=True)
        if r1.returncode != 0:
          r1 = subprocess.run(['/venv/bin/python', '-m', 'pytest', '-q', '-p', 'no:cacheprovider', f'{path}::{cls}::{rest}'],
                              cwd=wt, env=env, capture_output=True, text=True)
        ok_all = ok_all and r1.returncode == 0
      if ok_all:
        suite.returncode = 0
        suite.stdout += '\n(load-sensitive tests re-run alone: passed) missing=0'
  head = run('git -C /repo rev-parse --short HEAD').stdout.strip()
  ok = applied and before.returncode == 0 and after.returncode != 0 and (nosuite or suite.returncode == 0)
  meta = dict(
      id=sid, property=prop, confirmed=ok, repo_head=head,
      patch_applies=applied,
      demo_without_patch=dict(rc=before.returncode, tail=before.stdout[-300:]),
      demo_with_patch=None if after is None else dict(rc=after.returncode, tail=(after.stdout + after.stderr)[-500:]),
      suite_with_patch=None if suite is None else suite.stdout.strip().splitlines()[-1:],
      needs_to_manifest=open(os.path.join(seed, 'README.md')).read()[:1500] if os.path.exists(os.path.join(seed, 'README.md')) else '',
      ran=[f'PYTHONPATH=<worktree> /venv/bin/python demo.py (before/after git apply patch.diff)',
           '/venv/bin/python /verif/tools/suite.py <worktree>'],
      confirmed_at=time.strftime('%Y-%m-%dT%H:%M:%SZ', time.gmtime()))
  print(json.dumps({k: meta[k] for k in ('id', 'confirmed', 'patch_applies', 'suite_with_patch')}),
        'demo', before.returncode, None if after is None else after.returncode)
  if ok:
    dst = f'/verif/seeded/{sid}'
    os.makedirs(dst, exist_ok=True)
    for fn in ('patch.diff', 'demo.py', 'README.md'):
      if os.path.exists(os.path.join(seed, fn)):
        shutil.copy(os.path.join(seed, fn), dst)
    # store the patch as it applies on the current HEAD
    d = run(f'git -C {wt} diff')
    open(os.path.join(dst, 'patch.diff'), 'w').write(d.stdout)
    json.dump(meta, open(os.path.join(dst, 'meta.json'), 'w'), indent=1)
finally:
  run(f'git -C /repo worktree remove --force {wt}')
  shutil.rmtree(wt, ignore_errors=True)
