"""Maintenance helper (not a check): re-confirm every kept seed on the CURRENT /repo HEAD.
For each /verif/seeded/<id>: the demo must pass on a clean worktree of HEAD and fail with
patch.diff applied.  usage: reconfirm_seeds.py [ids...]   (parallel, scratch worktree per worker)"""
import concurrent.futures as cf, glob, json, os, shutil, subprocess, sys, tempfile
V = os.path.dirname(os.path.dirname(os.path.abspath(__file__)))
ids = sys.argv[1:] or sorted(os.path.basename(d) for d in glob.glob(V + '/seeded/C*'))
def run(cmd, **kw): return subprocess.run(cmd, shell=True, capture_output=True, text=True, **kw)
def one(i):
  d = f'{V}/seeded/{i}'
  wt = tempfile.mkdtemp(prefix='rs_', dir='/tmp'); os.rmdir(wt)
  try:
    if run(f'git -C /repo worktree add -q --detach {wt} HEAD').returncode: return i, 'WORKTREE-FAILED', ''
    env = dict(os.environ, PYTHONPATH=wt)
    demo = [f for f in ('demo.py',) if os.path.exists(f'{d}/{f}')]
    if not demo: return i, 'NO-DEMO', ''
    a = subprocess.run(['/venv/bin/python', f'{d}/demo.py'], cwd=wt, env=env, capture_output=True, text=True, timeout=900)
    ap = run(f'git -C {wt} apply {d}/patch.diff')
    if ap.returncode: return i, 'PATCH-DOES-NOT-APPLY', ap.stderr[-200:]
    imp = subprocess.run(['/venv/bin/python', '-c', 'import pyglove'], cwd=wt, env=env, capture_output=True, text=True, timeout=300)
    if imp.returncode: return i, 'PATCHED-TREE-DOES-NOT-IMPORT', imp.stderr[-200:]
    b = subprocess.run(['/venv/bin/python', f'{d}/demo.py'], cwd=wt, env=env, capture_output=True, text=True, timeout=900)
    ok = a.returncode == 0 and b.returncode != 0
    return i, 'CONFIRMED' if ok else f'NOT-CONFIRMED clean_rc={a.returncode} patched_rc={b.returncode}', (a.stdout + a.stderr)[-300:] if a.returncode else (b.stdout+b.stderr)[-200:]
  finally:
    run(f'git -C /repo worktree remove --force {wt}'); shutil.rmtree(wt, ignore_errors=True)
with cf.ThreadPoolExecutor(8) as ex:
  res = list(ex.map(one, ids))
bad = 0
for i, st, tail in res:
  if st != 'CONFIRMED':
    bad += 1
    print(i, st, '|', tail.replace('\n', ' ')[-300:])
print(f'confirmed {len(res) - bad} of {len(res)}')
