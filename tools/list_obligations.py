"""List every (rule, construct, ok) obligation of a property on a tree.
usage: list_obligations.py <prop|all> [root]   (maintenance helper; used to diff coverage between trees)"""
import os, sys
sys.path.insert(0, os.path.dirname(os.path.dirname(os.path.abspath(__file__))))
from sa import cli, index as I
prop = sys.argv[1]
root = sys.argv[2] if len(sys.argv) > 2 else '/repo'
props = [f'C{i:02d}' for i in range(1, 21)] if prop == 'all' else [prop]
idx = I.load(root)
for p in props:
  mod = cli.load_rules(p)
  ctx = cli.run_rules(mod, idx, p)
  for o in ctx.obs:
    if not o.info:
      print(o.rule, o.construct, 'ok' if o.ok else 'VIOLATED')
