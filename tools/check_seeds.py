"""Maintenance helper (not a check): apply every /verif/seeded/<id>/patch.diff to /repo
(reverting afterwards), run the property's quick check and record which rules fire.
usage: check_seeds.py [ids...]"""
import json, os, re, subprocess, sys
SEED = '/verif/seeded'
def run(cmd, **kw): return subprocess.run(cmd, shell=True, capture_output=True, text=True, **kw)
assert run('git -C /repo diff --quiet').returncode == 0, '/repo dirty'
ids = sys.argv[1:] or sorted(os.listdir(SEED))
rows = []
for sid in ids:
  d = os.path.join(SEED, sid)
  meta_p = os.path.join(d, 'meta.json')
  if not os.path.exists(meta_p): continue
  meta = json.load(open(meta_p))
  prop = meta['property']
  ap = run(f'git -C /repo apply {d}/patch.diff')
  if ap.returncode != 0:
    ap = run(f'git -C /repo apply --3way {d}/patch.diff')
  if ap.returncode != 0:
    run('git -C /repo reset -q; git -C /repo checkout -- .')
    rows.append((sid, prop, 'PATCH-DOES-NOT-APPLY', []))
    continue
  out = run(f'/verif/check {prop} --tier quick')
  rules = sorted(set(re.findall(r'^  (C\d+\.[a-z0-9]+) ', out.stdout, re.M)))
  viol = len(re.findall(r'^VIOLATION', out.stdout, re.M))
  run('git -C /repo reset -q; git -C /repo checkout -- .')
  meta['detected'] = out.returncode == 1
  meta['detected_by_rules'] = rules
  meta['checked_at_repo_head'] = run('git -C /repo rev-parse --short HEAD').stdout.strip()
  json.dump(meta, open(meta_p, 'w'), indent=1)
  rows.append((sid, prop, 'DETECTED' if out.returncode == 1 else f'MISSED(rc={out.returncode})', rules))
for r in rows: print(*r)
print('detected', sum(1 for r in rows if r[2] == 'DETECTED'), 'of', len(rows))
